package main

import (
	"fmt"
	"go/ast"
	goparser "go/parser"
	"go/token"
	"go/types"
	"strings"
	"sync"
	"time"

	"github.com/goplus/gogen/packages"

	"verifharness/hlib"
	"verifharness/xgolib"
)

// C11 -- normal .gox class file = explicit struct.  A case of specs/sem2/ClassFile.tla:
//
//	fields    field types in order (field i is named m1, a2, z3, b4 / M1, A2, ...)
//	grouping  lines | merged | single ; block = the var block as specs [names (field indices), type]
//	methods   template names in declaration order
//	twin      the model's explicit-struct twin: fields [ix,type], methods [name,params,results,recv]
//	out       expected driver output: lines [tag, vals [t,v]]
type cfVal struct {
	T string `json:"t"`
	V any    `json:"v"`
}
type cfCase struct {
	Fields   []string `json:"fields"`
	Grouping string   `json:"grouping"`
	Exported bool     `json:"exported"`
	Prelude  string   `json:"prelude"` // none | const | type: declaration in front of the var block
	Shadow   bool     `json:"shadow"`  // main declares a package-level variable named like field 1
	idx      int      // case index (field names are made unique per case when Shadow)
	Tagged   bool     `json:"tagged"` // every spec of the var block carries a tag k:"<first name of the spec>"
	Methods  []string `json:"methods"`
	Block    []struct {
		Names []int  `json:"names"`
		Type  string `json:"type"`
	} `json:"block"`
	Twin struct {
		Fields []struct {
			Ix   int    `json:"ix"`
			Type string `json:"type"`
			Tag  int    `json:"tag"` // 0: none; n: k:"<name of field n>"
		} `json:"fields"`
		Methods []struct {
			Name    string   `json:"name"`
			Params  []string `json:"params"`
			Results []string `json:"results"`
			Recv    string   `json:"recv"`
		} `json:"methods"`
	} `json:"twin"`
	Out []struct {
		Tag  string  `json:"tag"`
		Vals []cfVal `json:"vals"`
	} `json:"out"`
}

func (c *cfCase) cls(idx int) string { return fmt.Sprintf("C%d", idx) }
// field i is named so that declaration order is NOT alphabetical order (m1, a2, z3, b4): a
// compiler that sorted the fields would be visible.
func (c *cfCase) fname(i int) string {
	l := []string{"m", "a", "z", "b"}[(i-1)%4]
	if c.Exported {
		l = strings.ToUpper(l)
	}
	if c.Shadow {
		return fmt.Sprintf("%s%dx%d", l, i, c.idx)
	}
	return fmt.Sprintf("%s%d", l, i)
}
func (c *cfCase) mname(m string) string {
	if c.Exported {
		return strings.ToUpper(m[:1]) + m[1:]
	}
	return m
}
func (c *cfCase) has(m string) bool {
	for _, x := range c.Methods {
		if x == m {
			return true
		}
	}
	return false
}

func cfGoType(t, cls string) string {
	switch t {
	case "ints":
		return "[]int"
	case "smap":
		return "map[string]int"
	case "ptr":
		return "*" + cls
	}
	return t
}

// methodsText renders the methods; q prefixes field and method names ("" in the class file,
// "this." in the twin), recv is the receiver clause ("" in the class file).
func (c *cfCase) methodsText(idx int, q, recv string) string {
	var sb strings.Builder
	cls := c.cls(idx)
	w := func(f string, a ...any) { fmt.Fprintf(&sb, f, a...) }
	terms := func() string {
		s := "0"
		for i, t := range c.Fields {
			f := q + c.fname(i+1)
			switch t {
			case "int":
				s += " + " + f
			case "string", "ints":
				s += " + len(" + f + ")"
			case "float64":
				s += " + int(" + f + ")"
			case "bool":
				s += " + b2i(" + f + ")"
			case "smap":
				s += " + " + f + `["k"]`
			case "ptr":
				s += " + b2i(" + f + " != nil)"
			}
		}
		return s
	}
	call := func(m, args string) string { return q + c.mname(m) + "(" + args + ")" }
	sumOr := func(alt string) string {
		if c.has("sum") {
			return call("sum", "")
		}
		return alt
	}
	for _, m := range c.Methods {
		switch m {
		case "sum":
			w("func %s%s() int {\n\treturn %s\n}\n\n", recv, c.mname(m), terms())
		case "bump":
			w("func %s%s(x int) {\n", recv, c.mname(m))
			for i, t := range c.Fields {
				f := q + c.fname(i+1)
				switch t {
				case "int":
					w("\t%s += x\n", f)
				case "string":
					w("\t%s += \"x\"\n", f)
				case "float64":
					w("\t%s += float64(x) * 2\n", f)
				case "bool":
					w("\t%s = !%s\n", f, f)
				case "ints":
					w("\t%s = append(%s, x)\n", f, f)
				case "smap":
					w("\t%s = map[string]int{\"k\": x}\n", f)
				case "ptr":
					w("\t%s = this\n", f)
				}
			}
			w("}\n\n")
		case "pair":
			w("func %s%s(x int, y string) (int, string) {\n", recv, c.mname(m))
			if c.has("bump") {
				w("\t%s\n", call("bump", "x"))
			}
			for i, t := range c.Fields {
				if t == "string" {
					w("\t%s = y\n", q+c.fname(i+1))
				}
			}
			w("\treturn %s, y\n}\n\n", sumOr("x"))
		case "flag":
			w("func %s%s() (bool, int) {\n\treturn %s > 3, %d\n}\n\n", recv, c.mname(m), terms(), len(c.Fields))
		case "reset":
			w("func %s%s() {\n", recv, c.mname(m))
			for i, t := range c.Fields {
				z := map[string]string{"int": "0", "float64": "0", "string": `""`, "bool": "false", "ints": "nil", "smap": "nil", "ptr": "nil"}[t]
				w("\t%s = %s\n", q+c.fname(i+1), z)
			}
			w("}\n\n")
		case "twice":
			w("func %s%s(x int) int {\n", recv, c.mname(m))
			if c.has("bump") {
				w("\t%s\n\t%s\n", call("bump", "x"), call("bump", "x"))
			}
			w("\treturn %s\n}\n\n", sumOr("x"))
		}
	}
	_ = cls
	return sb.String()
}

func (c *cfCase) tagText(n int) string { return "`k:\"" + c.fname(n) + "\"`" }

// classFile renders C<idx>.gox.
func (c *cfCase) classFile(idx int) string {
	var sb strings.Builder
	cls := c.cls(idx)
	spec := func(names []int, t string) string {
		var ns []string
		for _, n := range names {
			ns = append(ns, c.fname(n))
		}
		tag := ""
		if c.Tagged {
			tag = " " + c.tagText(names[0])
		}
		return strings.Join(ns, ", ") + " " + cfGoType(t, cls) + tag
	}
	switch c.Prelude {
	case "const":
		fmt.Fprintf(&sb, "const K%d = 1\n\n", idx)
	case "type":
		fmt.Fprintf(&sb, "type Aux%d int\n\n", idx)
	}
	if c.Grouping == "single" {
		sb.WriteString("var " + spec(c.Block[0].Names, c.Block[0].Type) + "\n\n")
	} else {
		sb.WriteString("var (\n")
		for _, b := range c.Block {
			sb.WriteString("\t" + spec(b.Names, b.Type) + "\n")
		}
		sb.WriteString(")\n\n")
	}
	sb.WriteString(c.methodsText(idx, "", ""))
	return sb.String()
}

// twinText renders the explicit struct + pointer-receiver methods (Go syntax), from the MODEL's twin.
func (c *cfCase) twinText(idx int) string {
	var sb strings.Builder
	cls := c.cls(idx)
	fmt.Fprintf(&sb, "type %s struct {\n", cls)
	for _, f := range c.Twin.Fields {
		tag := ""
		if f.Tag != 0 {
			tag = " " + c.tagText(f.Tag)
		}
		fmt.Fprintf(&sb, "\t%s %s%s\n", c.fname(f.Ix), cfGoType(f.Type, cls), tag)
	}
	sb.WriteString("}\n\n")
	sb.WriteString(c.methodsText(idx, "this.", "(this *"+cls+") "))
	return sb.String()
}

// driver renders func case<idx>() (Go syntax; identical text for class, XGo twin and Go twin).
func (c *cfCase) driver(idx int) string {
	var sb strings.Builder
	cls := c.cls(idx)
	w := func(f string, a ...any) { fmt.Fprintf(&sb, f, a...) }
	w("func case%d() {\n\tdefer func() {\n\t\tif e := recover(); e != nil {\n\t\t\tfmt.Println(\"panic\", e)\n\t\t}\n\t}()\n\tfmt.Println(\"#%d\")\n", idx, idx)
	var inits []string
	for i, t := range c.Fields {
		n := i + 1
		switch t {
		case "int", "float64":
			inits = append(inits, fmt.Sprint(n))
		case "string":
			inits = append(inits, `"s"`)
		case "bool":
			inits = append(inits, fmt.Sprint(n%2 == 1))
		case "ints":
			inits = append(inits, fmt.Sprintf("[]int{%d}", n))
		default:
			inits = append(inits, "nil")
		}
	}
	w("\to := &%s{%s}\n", cls, strings.Join(inits, ", "))
	second := func() {
		w("\to2 := &%s{%s}\n", cls, strings.Join(inits, ", "))
		for i, t := range c.Fields {
			f := "o2." + c.fname(i+1)
			if t == "ptr" {
				f += " == o2"
			}
			w("\tfmt.Println(\"second\", %d, %s)\n", i+1, f)
		}
		if c.Shadow {
			g := c.fname(1)
			if c.Fields[0] == "ptr" {
				g += " != nil"
			}
			w("\tfmt.Println(\"global\", %s)\n", g)
		}
	}
	for pass := 1; pass <= 2; pass++ {
		x := pass + 1
		for _, m := range c.Methods {
			mn := c.mname(m)
			switch m {
			case "sum":
				w("\tfmt.Println(%q, o.%s())\n", m, mn)
			case "bump":
				w("\to.%s(%d)\n\tfmt.Println(%q)\n", mn, x, m)
			case "pair":
				w("\t{\n\t\tr1, r2 := o.%s(%d, \"ab\")\n\t\tfmt.Println(%q, r1, r2)\n\t}\n", mn, x, m)
			case "flag":
				w("\t{\n\t\tr1, r2 := o.%s()\n\t\tfmt.Println(%q, r1, r2)\n\t}\n", mn, m)
			case "reset":
				w("\to.%s()\n\tfmt.Println(%q)\n", mn, m)
			case "twice":
				w("\tfmt.Println(%q, o.%s(%d))\n", m, mn, x)
			}
		}
		for i, t := range c.Fields {
			f := "o." + c.fname(i+1)
			if t == "ptr" {
				f += " == o"
			}
			w("\tfmt.Println(\"field\", %d, %s)\n", i+1, f)
		}
	}
	second()
	w("}\n\n")
	if c.Shadow {
		w("var %s %s\n\n", c.fname(1), cfGoType(c.Fields[0], cls))
	}
	return sb.String()
}

const cfHelper = "func b2i(b bool) int {\n\tif b {\n\t\treturn 1\n\t}\n\treturn 0\n}\n\n"

// expected renders the model's output lines the way fmt.Println prints them.
func (c *cfCase) expected() []string {
	var lines []string
	for _, l := range c.Out {
		parts := []string{l.Tag}
		for _, v := range l.Vals {
			parts = append(parts, cfFormat(v))
		}
		lines = append(lines, strings.TrimRight(strings.Join(parts, " "), " "))
	}
	return lines
}

func cfFormat(v cfVal) string {
	list := func() []string {
		var r []string
		if a, ok := v.V.([]any); ok {
			for _, e := range a {
				switch x := e.(type) {
				case float64:
					r = append(r, fmt.Sprint(int(x)))
				case string:
					r = append(r, x)
				}
			}
		}
		return r
	}
	switch v.T {
	case "int", "float64":
		if f, ok := v.V.(float64); ok {
			return fmt.Sprint(int(f))
		}
	case "bool", "ptr":
		return fmt.Sprint(v.V)
	case "string":
		return strings.Join(list(), "")
	case "ints":
		return "[" + strings.Join(list(), " ") + "]"
	case "smap":
		l := list()
		if len(l) == 0 {
			return "map[]"
		}
		return "map[k:" + l[0] + "]"
	}
	return fmt.Sprintf("?%v", v.V)
}

// ---------------------------------------------------------------- go/types view of the generated Go

var (
	cfImpOnce sync.Once
	cfImp     types.Importer
	cfFset    = token.NewFileSet()
)

type cfShape struct {
	Fields  []string // "name type"
	Methods []string // "name(params)(results) recv=<ptr|val>:<name>"
	Err     string
}

func cfTypesView(gosrc, cls string) cfShape {
	cfImpOnce.Do(func() { cfImp = packages.NewImporter(cfFset) })
	f, err := goparser.ParseFile(cfFset, "gen.go", gosrc, 0)
	if err != nil {
		return cfShape{Err: "parse: " + err.Error()}
	}
	conf := types.Config{Importer: cfImp, Error: func(error) {}}
	pkg, _ := conf.Check("main", cfFset, []*ast.File{f}, nil)
	if pkg == nil {
		return cfShape{Err: "type check produced no package"}
	}
	obj := pkg.Scope().Lookup(cls)
	if obj == nil {
		return cfShape{Err: "type " + cls + " not found"}
	}
	named, ok := obj.Type().(*types.Named)
	if !ok {
		return cfShape{Err: cls + " is not a named type"}
	}
	st, ok := named.Underlying().(*types.Struct)
	if !ok {
		return cfShape{Err: cls + " is not a struct"}
	}
	q := func(*types.Package) string { return "" }
	var sh cfShape
	for i := 0; i < st.NumFields(); i++ {
		fl := st.Field(i)
		e := ""
		if fl.Embedded() {
			e = " embedded"
		}
		tag := ""
		if t := st.Tag(i); t != "" {
			tag = " `" + t + "`"
		}
		sh.Fields = append(sh.Fields, fl.Name()+" "+types.TypeString(fl.Type(), q)+e+tag)
	}
	for i := 0; i < named.NumMethods(); i++ {
		m := named.Method(i)
		sig := m.Type().(*types.Signature)
		recv := "val"
		if _, isPtr := sig.Recv().Type().(*types.Pointer); isPtr {
			recv = "ptr"
		}
		sh.Methods = append(sh.Methods, fmt.Sprintf("%s%s%s recv=%s:%s", m.Name(),
			types.TypeString(sig.Params(), q), types.TypeString(sig.Results(), q), recv, sig.Recv().Name()))
	}
	return sh
}

// wantShape is the model's twin rendered the same way.
func (c *cfCase) wantShape(idx int) cfShape {
	cls := c.cls(idx)
	var sh cfShape
	for _, f := range c.Twin.Fields {
		tag := ""
		if f.Tag != 0 {
			tag = " " + c.tagText(f.Tag)
		}
		sh.Fields = append(sh.Fields, c.fname(f.Ix)+" "+cfGoType(f.Type, cls)+tag)
	}
	tuple := func(ts []string, names []string) string {
		var ps []string
		for i, t := range ts {
			if names != nil {
				ps = append(ps, names[i]+" "+t)
			} else {
				ps = append(ps, t)
			}
		}
		return "(" + strings.Join(ps, ", ") + ")"
	}
	for _, m := range c.Twin.Methods {
		recv := "val"
		if m.Recv == "ptr-this" {
			recv = "ptr"
		}
		sh.Methods = append(sh.Methods, fmt.Sprintf("%s%s%s recv=%s:this", c.mname(m.Name),
			tuple(m.Params, []string{"x", "y"}[:len(m.Params)]), tuple(m.Results, nil), recv))
	}
	return sh
}

func runClassFile() {
	cases := hlib.ReadAllCases[cfCase]()
	n := len(cases)
	for i := range cases {
		cases[i].idx = i
	}
	mk := func() []*unit {
		us := make([]*unit, n)
		for i := range us {
			us[i] = &unit{Idx: i}
		}
		return us
	}
	ua, ub, uc := mk(), mk(), mk()
	for i := range cases {
		c := &cases[i]
		ua[i].Extra = map[string]string{c.cls(i) + ".gox": c.classFile(i)}
		ua[i].Decls = c.driver(i)
		ub[i].Decls = c.twinText(i) + c.driver(i)
		uc[i].Decls = ub[i].Decls
	}
	header := "package main\n\nimport \"fmt\"\n\n" + cfHelper
	composeGo := func(b []*unit) string {
		var sb strings.Builder
		sb.WriteString(header)
		for _, u := range b {
			sb.WriteString(u.Decls)
		}
		sb.WriteString("func main() {\n")
		for _, u := range b {
			fmt.Fprintf(&sb, "\tcase%d()\n", u.Idx)
		}
		sb.WriteString("}\n")
		return sb.String()
	}
	specA := batchSpec{Parse: splitOutput, Compose: func(b []*unit) map[string]string {
		files := map[string]string{"main.xgo": composeGo(b)}
		for _, u := range b {
			for k, v := range u.Extra {
				files[k] = v
			}
		}
		return files
	}}
	specB := batchSpec{Parse: splitOutput, Compose: func(b []*unit) map[string]string {
		return map[string]string{"twin.xgo": composeGo(b)}
	}}
	specC := batchSpec{Parse: splitOutput, PlainGo: true, Compose: func(b []*unit) map[string]string {
		return map[string]string{"main.go": composeGo(b)}
	}}
	opt := xgolib.Options{NoFileLine: true}
	t0 := time.Now()
	soloCompileSpec(ua, opt, specA)
	soloCompileSpec(ub, opt, specB)
	fmt.Fprintf(errOut, "classfile: 2x%d units compiled alone in %.1fs\n", n, time.Since(t0).Seconds())
	okOf := func(us []*unit) []*unit {
		var r []*unit
		for _, u := range us {
			if u.SoloErr == "" {
				r = append(r, u)
			}
		}
		return r
	}
	t0 = time.Now()
	size := 150
	outA := runBatchesSpec(okOf(ua), size, opt, 8, specA)
	outB := runBatchesSpec(okOf(ub), size, opt, 8, specB)
	outC := runBatchesSpec(uc, size, opt, 8, specC)
	fmt.Fprintf(errOut, "classfile: batches run in %.1fs\n", time.Since(t0).Seconds())

	for i := range cases {
		c := &cases[i]
		res := hlib.Result{Idx: i, V: "ok",
			Input: map[string]any{"class": c.classFile(i), "fields": c.Fields, "grouping": c.Grouping, "methods": c.Methods, "exported": c.Exported, "prelude": c.Prelude, "shadow": c.Shadow},
			NT:    fmt.Sprintf("%v/%s/%v/%v/%v/%s/%v", c.Fields, c.Grouping, c.Methods, c.Exported, c.Tagged, c.Prelude, c.Shadow)}
		shapeKey := strings.Join(c.Methods, ",")
		rank := 0
		set := func(r int, v, sig, detail string) {
			if r > rank {
				rank, res.V, res.Sig, res.Detail = r, v, sig, detail
			}
		}
		text := "--- " + c.cls(i) + ".gox\n" + c.classFile(i) + "--- driver\n" + c.driver(i)
		want := c.expected()
		wantS := strings.Join(want, "\n")
		get := func(us []*unit, outs map[int]*batchOutcome, what string) (string, bool) {
			u := us[i]
			if u.SoloErr != "" {
				return "", false
			}
			o := outs[i]
			if o == nil || o.XgoErr != "" {
				fmt.Fprintf(errOut, "case %d (%s) compiled alone but not in a batch: %+v\n", i, what, o)
				exitCode = 3
				return "", false
			}
			if o.BuildErr != "" {
				return "BUILD: " + o.BuildErr, true
			}
			var ls []string
			for _, l := range o.Lines {
				ls = append(ls, strings.TrimRight(l, " "))
			}
			return strings.Join(ls, "\n"), true
		}
		a, okA := get(ua, outA, "class")
		b, okB := get(ub, outB, "xgo twin")
		g, okC := get(uc, outC, "go twin")
		switch {
		case !okC || strings.HasPrefix(g, "BUILD: "):
			// the twin must be valid Go by construction: a harness/model problem, never a verdict
			fmt.Fprintf(errOut, "case %d: the Go twin does not build: %.500s\n%s", i, g, uc[i].Decls)
			exitCode = 3
			continue
		case !okA:
			set(9, "viol", "compile-fail:class", "the class-file project does not compile: "+ua[i].SoloErr+"\n"+text)
		case strings.HasPrefix(a, "BUILD: "):
			set(9, "viol", "gobuild-fail:class", fmt.Sprintf("generated Go of the class-file project does not build: %.600s\n%s", a, text))
		}
		if rank == 0 {
			// (1) go/types view of the generated type vs the model's twin
			got := cfTypesView(ua[i].GoSolo, c.cls(i))
			wsh := c.wantShape(i)
			if got.Err != "" {
				fmt.Fprintf(errOut, "case %d: go/types view failed: %s\n", i, got.Err)
				exitCode = 3
				continue
			}
			if strings.Join(got.Fields, ";") != strings.Join(wsh.Fields, ";") {
				kind := "differs"
				if len(got.Fields) != len(wsh.Fields) {
					kind = "count"
				} else if sameSet(got.Fields, wsh.Fields) {
					kind = "order"
				}
				set(8, "viol", "fields:"+kind, fmt.Sprintf("generated struct has fields %q, the var block declares %q\n%s", got.Fields, wsh.Fields, text))
			}
			gm := map[string]string{}
			for _, m := range got.Methods {
				gm[strings.SplitN(m, "(", 2)[0]] = m
			}
			for k, m := range wsh.Methods {
				name := strings.SplitN(m, "(", 2)[0]
				tmpl := c.Methods[k]
				g1, found := gm[name]
				switch {
				case !found:
					set(7, "viol", "method-missing:"+tmpl, fmt.Sprintf("method %s missing on the generated type: %q\n%s", name, got.Methods, text))
				case g1 != m:
					kind := "signature"
					if strings.Contains(g1, "recv=val") {
						kind = "value-receiver"
					} else if !strings.HasSuffix(g1, ":this") {
						kind = "receiver-name"
					}
					set(7, "viol", "method-"+kind+":"+tmpl, fmt.Sprintf("generated method %q, expected %q\n%s", g1, m, text))
				}
				delete(gm, name)
			}
			if len(gm) > 0 {
				set(6, "viol", "method-extra", fmt.Sprintf("generated type has extra methods %v\n%s", gm, text))
			}
			// (2) behaviour: class project vs Go twin (the property), XGo twin and model as further voters
			switch {
			case a != g && c.Shadow:
				// layouts with a package-level variable named like field 1: the methods of the class must
				// work on the field (one signature for this root cause, whatever line differs first)
				set(5, "viol", "behaviour:package-var-shadows-field", fmt.Sprintf("class-file program printed\n%s\nexplicit-struct twin (Go tool chain) printed\n%s\n%s", a, g, text))
			case a != g:
				set(5, "viol", "behaviour:class-vs-go-twin:"+firstDiffTag(a, g), fmt.Sprintf("class-file program printed\n%s\nexplicit-struct twin (Go tool chain) printed\n%s\n%s", a, g, text))
			case okB && a != b:
				set(4, "viol", "behaviour:class-vs-xgo-twin:"+firstDiffTag(a, b), fmt.Sprintf("class-file program printed\n%s\nexplicit-struct twin compiled by XGo printed\n%s\n%s", a, b, text))
			case !okB:
				set(2, "drift", "xgo-twin-compile-fail", "the explicit-struct twin (Go syntax) is rejected by XGo: "+ub[i].SoloErr)
			case g != wantS:
				// class, XGo twin and Go twin agree with each other but not with the model: model bug
				fmt.Fprintf(errOut, "case %d: all three programs print\n%s\nbut the model expects\n%s\n%s", i, g, wantS, text)
				exitCode = 3
				continue
			}
		}
		if res.V == "ok" {
			res.Detail = fmt.Sprintf("fields/methods as modelled (%s); %d output lines equal in class project, XGo twin, Go twin and model", shapeKey, len(want))
		}
		hlib.Emit(res)
	}
	emitSummary()
}

func lastLine(s string) string {
	ls := strings.Split(strings.TrimRight(s, "\n"), "\n")
	return ls[len(ls)-1]
}

func sameSet(a, b []string) bool {
	m := map[string]int{}
	for _, x := range a {
		m[x]++
	}
	for _, x := range b {
		m[x]--
	}
	for _, v := range m {
		if v != 0 {
			return false
		}
	}
	return true
}

// firstDiffTag names the first output line (by its tag) on which two outputs differ.
func firstDiffTag(a, b string) string {
	la, lb := strings.Split(a, "\n"), strings.Split(b, "\n")
	for i := 0; i < len(la) || i < len(lb); i++ {
		var x, y string
		if i < len(la) {
			x = la[i]
		}
		if i < len(lb) {
			y = lb[i]
		}
		if x != y {
			t := x
			if t == "" {
				t = y
			}
			return strings.SplitN(t, " ", 2)[0]
		}
	}
	return "none"
}
