package main

import (
	"context"
	"encoding/json"
	"errors"
	"fmt"
	"math/rand"
	"runtime"
	"sort"
	"strings"
	"sync"
	"sync/atomic"
	"time"

	"github.com/goplus/xgo/x/jsonrpc2"
)

// Ev is one trace record (ordered by Seq, a counter shared by the hooks and the harness).
type Ev struct {
	Seq     int64                   `json:"seq"`
	Ev      string                  `json:"ev"`
	Site    string                  `json:"site,omitempty"`
	InSec   bool                    `json:"insec,omitempty"`
	St      *jsonrpc2.VerifSnapshot `json:"st,omitempty"`
	Retired []jsonrpc2.VerifRetired `json:"retired,omitempty"`
	Call    int64                   `json:"call,omitempty"`    // outgoing call id
	Kind    string                  `json:"kind,omitempty"`    // await result: resp | err
	Payload int64                   `json:"payload,omitempty"` // await result payload
	Inst    int                     `json:"inst,omitempty"`    // incoming request instance (1-based)
	ID      string                  `json:"id,omitempty"`      // incoming request id ("" = notification)
	Mode    string                  `json:"mode,omitempty"`
}

// Violation found by the harness itself (liveness caps, crashes); contract invariants are TLC's job.
type Violation struct {
	Sig    string `json:"sig"`
	Detail string `json:"detail"`
}

// ScenarioResult is one line of worker output.
type ScenarioResult struct {
	Scenario   int         `json:"scenario"`
	Seed       int64       `json:"seed"`
	Ops        []string    `json:"ops"`
	Events     []Ev        `json:"events"`
	NCalls     int         `json:"ncalls"`
	NNotifs    int         `json:"nnotifs"`
	NInc       int         `json:"ninc"`
	Violations []Violation `json:"violations"`
	Overloaded bool        `json:"overloaded"`
}

// liveCap is the liveness cap; after two hangs in one worker the remaining scenarios use a short cap
// (the verdict is already decided; this only bounds the run time of a check on a broken tree).
var liveCap = 10 * time.Second
var hangsSeen int32

type instInfo struct {
	inst      int
	id        string // "" = notification
	mode      string // sync | err | async
	block     bool
	release   chan struct{}
	started   bool
	asyncRet  bool // handler returned ErrAsyncResponse
	responded bool
}

type scenario struct {
	rng             *rand.Rand
	seq             int64
	mu              sync.Mutex
	evs             []Ev
	viol            []Violation
	ops             []string
	conn            *jsonrpc2.Connection
	tr              *transport
	insts           []*instInfo          // by instance-1
	byID            map[string]*instInfo // outstanding instance per id (peer's view)
	recvCalls       map[int64]bool       // calls the peer received
	answered        map[int64]bool
	wg              sync.WaitGroup
	ncalls, nnotifs int
	closeStarted    bool
	callCancels     []context.CancelFunc
}

func (s *scenario) emit(e Ev) {
	e.Seq = atomic.AddInt64(&s.seq, 1)
	s.mu.Lock()
	s.evs = append(s.evs, e)
	s.mu.Unlock()
}

func (s *scenario) violation(sig, detail string) {
	s.mu.Lock()
	s.viol = append(s.viol, Violation{sig, detail})
	s.mu.Unlock()
}

func idStr(id jsonrpc2.ID) string {
	switch v := id.Raw().(type) {
	case string:
		return v
	case int64:
		return fmt.Sprint(v)
	}
	return ""
}

type handlerParams struct {
	Inst int `json:"inst"`
}

// Handle is the scripted Handler of the connection under test.
func (s *scenario) Handle(ctx context.Context, req *jsonrpc2.Request) (any, error) {
	var p handlerParams
	json.Unmarshal(req.Params, &p)
	s.mu.Lock()
	var in *instInfo
	if p.Inst >= 1 && p.Inst <= len(s.insts) {
		in = s.insts[p.Inst-1]
	}
	s.mu.Unlock()
	if in == nil {
		s.violation("harness-bug:unknown-instance", string(req.Params))
		return nil, errors.New("unknown instance")
	}
	s.emit(Ev{Ev: "h_start", Inst: in.inst, ID: in.id, Mode: in.mode})
	s.mu.Lock()
	in.started = true
	s.mu.Unlock()
	if in.block {
		<-in.release
	}
	mode := in.mode
	if !req.IsCall() && mode == "async" {
		mode = "sync"
	}
	switch mode {
	case "async":
		s.mu.Lock()
		in.asyncRet = true
		s.mu.Unlock()
		s.emit(Ev{Ev: "h_end", Inst: in.inst, ID: in.id, Mode: "async"})
		return nil, jsonrpc2.ErrAsyncResponse
	case "err":
		s.emit(Ev{Ev: "h_end", Inst: in.inst, ID: in.id, Mode: "err"})
		return nil, errors.New("handler error")
	}
	s.emit(Ev{Ev: "h_end", Inst: in.inst, ID: in.id, Mode: "sync"})
	if req.IsCall() {
		return in.inst, nil
	}
	return nil, nil
}

func yield(rng *rand.Rand) {
	switch rng.Intn(4) {
	case 0:
	case 1:
		runtime.Gosched()
	case 2:
		time.Sleep(time.Duration(rng.Intn(50)) * time.Microsecond)
	case 3:
		time.Sleep(time.Duration(rng.Intn(400)) * time.Microsecond)
	}
}

// runScenario executes one seeded scenario against a fresh Connection.
func runScenario(idx int, seed int64) (res ScenarioResult) {
	s := &scenario{rng: rand.New(rand.NewSource(seed)), byID: map[string]*instInfo{},
		recvCalls: map[int64]bool{}, answered: map[int64]bool{}}
	res.Scenario, res.Seed = idx, seed
	rng := s.rng
	s.tr = newTransport()
	s.tr.onWrite = func(msg jsonrpc2.Message) { // under transport.mu: a frame reached the peer
		switch m := msg.(type) {
		case *jsonrpc2.Request:
			if m.IsCall() {
				id, _ := m.ID.Raw().(int64)
				s.emit(Ev{Ev: "wire_call", Call: id}) // sequence number first: the peer may answer only after it
				s.mu.Lock()
				s.recvCalls[id] = true
				s.mu.Unlock()
			} else {
				s.emit(Ev{Ev: "wire_notif"})
			}
		case *jsonrpc2.Response:
			id := idStr(m.ID)
			s.mu.Lock()
			in := s.byID[id]
			if in != nil {
				delete(s.byID, id)
			}
			s.mu.Unlock()
			inst := 0
			if in != nil {
				inst = in.inst
			}
			s.emit(Ev{Ev: "wire_resp", ID: id, Inst: inst})
		}
	}
	jsonrpc2.VerifHook.Emit = func(c *jsonrpc2.Connection, e jsonrpc2.VerifEvent) {
		s.emit(Ev{Ev: e.Kind, Site: e.Site, InSec: e.InSec, St: e.State, Retired: e.Retired})
	}
	defer func() { jsonrpc2.VerifHook.Emit = nil }()

	var internalErrs int32
	binder := jsonrpc2.BinderFunc(func(ctx context.Context, c *jsonrpc2.Connection) jsonrpc2.ConnectionOptions {
		return jsonrpc2.ConnectionOptions{
			Framer:  msgFramer{},
			Handler: s,
			OnInternalError: func(err error) {
				atomic.AddInt32(&internalErrs, 1)
				s.violation("internal-error:"+classify(err.Error()), err.Error())
			},
		}
	})
	conn, err := jsonrpc2.Dial(context.Background(), dialer{s.tr}, binder, nil)
	if err != nil {
		res.Violations = []Violation{{"harness-bug:dial", err.Error()}}
		return
	}
	s.conn = conn

	// ---- the op menu, weights shaped by a per-scenario profile
	nOps := 4 + rng.Intn(10)
	maxCalls, maxNotifs, maxInc := 3, 2, 3
	profile := rng.Intn(6) // 0 plain, 1 close-heavy, 2 hangup, 3 write faults, 4 incoming-heavy, 5 everything
	allowW := profile == 3 || profile == 5
	allowHang := profile == 2 || profile == 5
	closed, hung := false, false
	closeRet := make(chan struct{})
	op := func(name string) { s.ops = append(s.ops, name) }

	startCall := func() {
		if s.ncalls >= maxCalls {
			return
		}
		s.ncalls++
		k := s.ncalls
		ctx, cancel := context.WithCancel(context.Background())
		s.callCancels = append(s.callCancels, cancel)
		cancelEarly := rng.Intn(8) == 0
		op(fmt.Sprintf("call#%d%s", k, map[bool]string{true: "+ctxcancel", false: ""}[cancelEarly]))
		s.wg.Add(1)
		go func() {
			defer s.wg.Done()
			if cancelEarly {
				go func() { yield(rand.New(rand.NewSource(seed + int64(k)))); cancel() }()
			}
			ac := conn.Call(ctx, "m", k)
			id, _ := ac.ID().Raw().(int64)
			var out int64
			done := make(chan error, 1)
			go func() { done <- ac.Await(context.Background(), &out) }()
			select {
			case err := <-done:
				if err != nil {
					s.emit(Ev{Ev: "await_ret", Call: id, Kind: "err"})
				} else {
					s.emit(Ev{Ev: "await_ret", Call: id, Kind: "resp", Payload: out})
				}
			case <-time.After(3 * liveCap):
				s.violation("await-never-returns", fmt.Sprintf("call id %d: Await did not return within %v after the scenario drained", id, 3*liveCap))
			}
		}()
	}
	startNotify := func() {
		if s.nnotifs >= maxNotifs {
			return
		}
		s.nnotifs++
		op("notify")
		s.wg.Add(1)
		go func() {
			defer s.wg.Done()
			conn.Notify(context.Background(), "n", nil)
		}()
	}
	bogusSent := false
	peerRespond := func(bogus bool) {
		if bogus && bogusSent {
			return
		}
		s.mu.Lock()
		var cands []int64
		for id := range s.recvCalls {
			if s.answered[id] == bogus {
				cands = append(cands, id)
			}
		}
		sort.Slice(cands, func(i, j int) bool { return cands[i] < cands[j] })
		var id int64
		if len(cands) > 0 {
			id = cands[rng.Intn(len(cands))]
			s.answered[id] = true
		}
		s.mu.Unlock()
		if id == 0 || hung {
			return
		}
		if bogus {
			bogusSent = true
		}
		op(fmt.Sprintf("peer_respond(%d)%s", id, map[bool]string{true: "bogus", false: ""}[bogus]))
		raw, _ := json.Marshal(id*10 + 1)
		s.emit(Ev{Ev: "peer_resp", Call: id})
		s.tr.push(&jsonrpc2.Response{ID: jsonrpc2.Int64ID(id), Result: raw})
	}
	peerSend := func() {
		if len(s.insts) >= maxInc || hung {
			return
		}
		id := ""
		if rng.Intn(3) > 0 {
			id = "a"
			if rng.Intn(4) == 0 {
				id = "b"
			}
		}
		in := &instInfo{inst: len(s.insts) + 1, id: id, release: make(chan struct{})}
		in.mode = []string{"sync", "sync", "err", "async"}[rng.Intn(4)]
		in.block = rng.Intn(2) == 0
		s.mu.Lock()
		s.insts = append(s.insts, in)
		if id != "" {
			if _, busy := s.byID[id]; !busy {
				s.byID[id] = in // a reused id that is still outstanding stays attributed to the first
			}
		}
		s.mu.Unlock()
		op(fmt.Sprintf("peer_send(#%d id=%q %s block=%v)", in.inst, id, in.mode, in.block))
		params, _ := json.Marshal(handlerParams{Inst: in.inst})
		s.emit(Ev{Ev: "peer_send", Inst: in.inst, ID: id, Mode: in.mode})
		var rid jsonrpc2.ID
		if id != "" {
			rid = jsonrpc2.StringID(id)
		}
		s.tr.push(&jsonrpc2.Request{ID: rid, Method: "h", Params: params})
	}
	released := map[int]bool{}
	releaseOne := func(all bool) {
		for _, in := range s.insts {
			if in.block && !released[in.inst] {
				released[in.inst] = true
				close(in.release)
				op(fmt.Sprintf("release(#%d)", in.inst))
				if !all {
					return
				}
			}
		}
	}
	respondAsync := func(all bool) {
		s.mu.Lock()
		var todo []*instInfo
		for _, in := range s.insts {
			if in.asyncRet && !in.responded {
				in.responded = true
				todo = append(todo, in)
				if !all {
					break
				}
			}
		}
		s.mu.Unlock()
		for _, in := range todo {
			in := in
			op(fmt.Sprintf("respond(#%d)", in.inst))
			s.wg.Add(1)
			go func() {
				defer s.wg.Done()
				s.emit(Ev{Ev: "respond_start", Inst: in.inst, ID: in.id})
				conn.Respond(jsonrpc2.StringID(in.id), in.inst, nil)
				s.emit(Ev{Ev: "respond_end", Inst: in.inst, ID: in.id})
			}()
		}
	}
	doClose := func() {
		if closed {
			return
		}
		closed = true
		op("close")
		s.wg.Add(1)
		go func() {
			defer s.wg.Done()
			s.emit(Ev{Ev: "close_call"})
			conn.Close()
			s.emit(Ev{Ev: "close_ret"})
			close(closeRet)
		}()
	}

	for i := 0; i < nOps; i++ {
		yield(rng)
		r := rng.Intn(100)
		switch {
		case r < 22:
			startCall()
		case r < 30:
			startNotify()
		case r < 48:
			peerRespond(false)
		case r < 51:
			peerRespond(true)
		case r < 66:
			peerSend()
		case r < 74:
			releaseOne(false)
		case r < 80:
			respondAsync(false)
		case r < 84:
			op("cancel_api(a)")
			conn.Cancel(jsonrpc2.StringID("a"))
		case r < 90:
			if profile == 1 || profile == 5 || rng.Intn(3) == 0 {
				doClose()
			}
		case r < 94:
			if allowHang && !hung {
				hung = true
				op("hangup")
				s.tr.hangup()
			}
		default:
			if allowW {
				op("wbreak")
				s.tr.breakWrites()
			}
		}
	}

	// ---- drain: let everything finish, then terminate the connection one way or the other
	deadline := time.Now().Add(liveCap)
	for time.Now().Before(deadline) {
		releaseOne(true)
		respondAsync(true)
		for i := 0; i < 4; i++ {
			peerRespond(false)
		}
		s.mu.Lock()
		pendingAsync := false
		for _, in := range s.insts {
			if in.mode == "async" && in.id != "" && in.started && !in.responded {
				pendingAsync = true
			}
		}
		s.mu.Unlock()
		if !pendingAsync {
			break
		}
		time.Sleep(200 * time.Microsecond)
	}
	time.Sleep(time.Duration(rng.Intn(300)) * time.Microsecond)
	if !closed && !hung {
		if rng.Intn(2) == 0 {
			doClose()
		} else {
			hung = true
			op("hangup(final)")
			s.tr.hangup()
		}
	}
	// keep serving late handler starts / late wire calls until the connection is done
	quiesce := make(chan struct{})
	go func() {
		s.wg.Wait()
		conn.Wait()
		close(quiesce)
	}()
	t0 := time.Now()
	tick := time.NewTicker(300 * time.Microsecond)
	defer tick.Stop()
loop:
	for {
		select {
		case <-quiesce:
			break loop
		case <-tick.C:
			releaseOne(true)
			respondAsync(true)
			peerRespond(false)
			if time.Since(t0) > liveCap {
				res.Overloaded = overloaded()
				var pend []string
				s.mu.Lock()
				last := ""
				for i := len(s.evs) - 1; i >= 0; i-- {
					if s.evs[i].Ev == "upd" {
						b, _ := json.Marshal(s.evs[i].St)
						last = string(b)
						break
					}
				}
				s.mu.Unlock()
				if closed {
					select {
					case <-closeRet:
					default:
						pend = append(pend, "Close")
					}
				}
				if atomic.AddInt32(&hangsSeen, 1) >= 2 {
					liveCap = 2 * time.Second
				}
				s.violation("hang:"+strings.Join(append(pend, "quiesce"), "+"),
					fmt.Sprintf("connection did not become done within %v after all handlers were released, all async responses delivered and the peer answered/hung up; last state %s", liveCap, last))
				break loop
			}
		}
	}
	for _, c := range s.callCancels {
		c()
	}
	s.mu.Lock()
	sort.Slice(s.evs, func(i, j int) bool { return s.evs[i].Seq < s.evs[j].Seq })
	res.Events = s.evs
	res.Violations = s.viol
	s.mu.Unlock()
	res.Ops = s.ops
	res.NCalls, res.NNotifs, res.NInc = s.ncalls, s.nnotifs, len(s.insts)
	return
}

func classify(msg string) string {
	switch {
	case strings.Contains(msg, "Request not found"):
		return "respond-not-found"
	case strings.Contains(msg, "ErrAsyncResponse"):
		return "async-misuse"
	case strings.Contains(msg, "non-nil result"):
		return "result-and-error"
	case strings.Contains(msg, "unexpected message"):
		return "unexpected-message"
	}
	return "other"
}
