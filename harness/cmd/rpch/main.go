// rpch: conformance harness for C39 (x/jsonrpc2 Connection).
//
//	rpch run <n> <base-seed> <parallel>   parent: spawns workers, prints one ScenarioResult per line
//	rpch worker <from> <to> <base-seed>   executes scenarios [from,to) sequentially
package main

import (
	"bufio"
	"bytes"
	"encoding/json"
	"fmt"
	"os"
	"os/exec"
	"runtime"
	"strconv"
	"strings"
	"sync"
)

func overloaded() bool {
	b, err := os.ReadFile("/proc/loadavg")
	if err != nil {
		return false
	}
	f := strings.Fields(string(b))
	if len(f) == 0 {
		return false
	}
	v, _ := strconv.ParseFloat(f[0], 64)
	return v > float64(2*runtime.NumCPU())
}

func atoi(s string) int { n, _ := strconv.Atoi(s); return n }

func main() {
	if len(os.Args) < 2 {
		fmt.Fprintln(os.Stderr, "usage: rpch run|worker ...")
		os.Exit(3)
	}
	switch os.Args[1] {
	case "worker":
		from, to := atoi(os.Args[2]), atoi(os.Args[3])
		base, _ := strconv.ParseInt(os.Args[4], 10, 64)
		w := bufio.NewWriterSize(os.Stdout, 1<<20)
		for i := from; i < to; i++ {
			fmt.Fprintf(os.Stderr, "SCENARIO %d\n", i)
			var r ScenarioResult
			if os.Getenv("RPCH_MODE") == "gatewalk" {
				r = runGateWalk(i, base*1000003+int64(i))
			} else {
				r = runScenario(i, base*1000003+int64(i))
			}
			b, _ := json.Marshal(r)
			w.Write(b)
			w.WriteByte('\n')
			w.Flush()
		}
	case "replay-worker":
		// stdin: schedules (ndjson); argv: first index
		from := atoi(os.Args[2])
		sc := bufio.NewScanner(os.Stdin)
		sc.Buffer(make([]byte, 1<<20), 1<<26)
		w := bufio.NewWriterSize(os.Stdout, 1<<20)
		i := from
		for sc.Scan() {
			var sch schedule
			if err := json.Unmarshal(sc.Bytes(), &sch); err != nil {
				fmt.Fprintln(os.Stderr, "bad schedule:", err)
				os.Exit(3)
			}
			r := runReplay(i, sch)
			b, _ := json.Marshal(r)
			w.Write(b)
			w.WriteByte('\n')
			w.Flush()
			i++
		}
	case "run":
		n, par := atoi(os.Args[2]), atoi(os.Args[4])
		base := os.Args[3]
		if par < 1 {
			par = 1
		}
		chunk := (n + par - 1) / par
		var mu sync.Mutex
		var wg sync.WaitGroup
		out := bufio.NewWriterSize(os.Stdout, 1<<20)
		for from := 0; from < n; from += chunk {
			to := from + chunk
			if to > n {
				to = n
			}
			wg.Add(1)
			go func(from, to int) {
				defer wg.Done()
				// a worker that dies (panic in a Connection goroutine) is restarted after the scenario that killed it
				for from < to {
					cmd := exec.Command(os.Args[0], "worker", strconv.Itoa(from), strconv.Itoa(to), base)
					var so, se bytes.Buffer
					cmd.Stdout, cmd.Stderr = &so, &se
					err := cmd.Run()
					mu.Lock()
					out.Write(so.Bytes())
					mu.Unlock()
					done := bytes.Count(so.Bytes(), []byte("\n"))
					if err == nil {
						break
					}
					// crashed in scenario from+done
					crashed := from + done
					stderr := se.String()
					sig := "process-crash"
					if i := strings.Index(stderr, "panic: "); i >= 0 {
						line := stderr[i:]
						if j := strings.IndexByte(line, '\n'); j > 0 {
							line = line[:j]
						}
						rest := strings.Split(stderr[i:], "\n")
						top := ""
						for _, fl := range rest[1:] {
							if fl != "" && !strings.HasPrefix(fl, "\t") && !strings.HasPrefix(fl, "goroutine") && !strings.HasPrefix(fl, "[signal") {
								top = fl
								break
							}
						}
						switch {
						case strings.HasPrefix(top, "main."):
							sig = "harness-panic"
						case strings.Contains(line, "retire called twice"):
							sig = "internal-panic:retire-twice"
						case strings.Contains(line, "non-idle when already done"):
							sig = "internal-panic:non-idle-when-done"
						case strings.Contains(line, "incoming count is already zero"):
							sig = "internal-panic:incoming-underflow"
						case strings.Contains(line, "close of closed channel"):
							sig = "internal-panic:double-close"
						default:
							sig = "internal-panic:other"
						}
					} else if strings.Contains(stderr, "fatal error:") {
						sig = "runtime-fatal"
					}
					tail := stderr
					if len(tail) > 1500 {
						tail = tail[len(tail)-1500:]
					}
					r := ScenarioResult{Scenario: crashed, Violations: []Violation{{sig, "worker process died: " + tail}}}
					b, _ := json.Marshal(r)
					mu.Lock()
					out.Write(b)
					out.WriteByte('\n')
					mu.Unlock()
					from = crashed + 1
				}
			}(from, to)
		}
		wg.Wait()
		out.Flush()
	}
}
