package main

import (
	"context"
	"errors"
	"io"
	"sync"

	"github.com/goplus/xgo/x/jsonrpc2"
)

// transport is a message-level duplex between the Connection under test and the scripted peer.
// It is the io.ReadWriteCloser handed to jsonrpc2.Dial; the custom Framer below unwraps it, so no
// bytes are involved: Reader.Read pops from inbox, Writer.Write hands the message to the peer.
type transport struct {
	mu       sync.Mutex
	cond     *sync.Cond
	inbox    []jsonrpc2.Message
	closed   bool // the Connection closed us (closer.Close)
	peerGone bool // the peer hung up: EOF once the inbox is drained
	wbroken  bool // writes fail from now on
	onWrite  func(msg jsonrpc2.Message) // called under mu for every successful write
	gate     func(kind string) string   // schedule replay: blocks before a read / write
	outcome  func(what string)          // schedule replay: reports what the read / write did
}

func newTransport() *transport {
	t := &transport{}
	t.cond = sync.NewCond(&t.mu)
	return t
}

func (t *transport) Read(p []byte) (int, error)  { return 0, errors.New("byte-level Read not used") }
func (t *transport) Write(p []byte) (int, error) { return 0, errors.New("byte-level Write not used") }
func (t *transport) Close() error {
	t.mu.Lock()
	t.closed = true
	t.cond.Broadcast()
	t.mu.Unlock()
	return nil
}

func (t *transport) push(m jsonrpc2.Message) {
	t.mu.Lock()
	t.inbox = append(t.inbox, m)
	t.cond.Broadcast()
	t.mu.Unlock()
}

func (t *transport) hangup() {
	t.mu.Lock()
	t.peerGone = true
	t.cond.Broadcast()
	t.mu.Unlock()
}

func (t *transport) breakWrites() {
	t.mu.Lock()
	t.wbroken = true
	t.mu.Unlock()
}

var errClosedPipe = errors.New("transport closed")
var errBrokenPipe = errors.New("transport write broken")

type msgFramer struct{}

func (msgFramer) Reader(r io.Reader) jsonrpc2.Reader { return msgReader{r.(*transport)} }
func (msgFramer) Writer(w io.Writer) jsonrpc2.Writer { return msgWriter{w.(*transport)} }

type msgReader struct{ t *transport }

func (r msgReader) Read(ctx context.Context) (m jsonrpc2.Message, n int64, err error) {
	t := r.t
	if t.gate != nil {
		t.gate("read")
		defer func() {
			if err != nil {
				t.outcome("read-err")
			} else {
				t.outcome("read-msg")
			}
		}()
	}
	t.mu.Lock()
	defer t.mu.Unlock()
	for {
		if t.closed {
			return nil, 0, errClosedPipe
		}
		if len(t.inbox) > 0 {
			m := t.inbox[0]
			t.inbox = t.inbox[1:]
			return m, 1, nil
		}
		if t.peerGone {
			return nil, 0, io.EOF
		}
		t.cond.Wait()
	}
}

type msgWriter struct{ t *transport }

// Write mimics headerWriter.Write: a cancelled context wins over everything else.
func (w msgWriter) Write(ctx context.Context, msg jsonrpc2.Message) (n int64, err error) {
	if w.t.gate != nil {
		w.t.gate("write")
		defer func() {
			if err != nil {
				w.t.outcome("write-fail")
			} else {
				w.t.outcome("write-ok")
			}
		}()
	}
	select {
	case <-ctx.Done():
		return 0, ctx.Err()
	default:
	}
	t := w.t
	t.mu.Lock()
	defer t.mu.Unlock()
	if t.closed {
		return 0, errClosedPipe
	}
	if t.wbroken {
		return 0, errBrokenPipe
	}
	if t.onWrite != nil {
		t.onWrite(msg)
	}
	return 1, nil
}

type dialer struct{ t *transport }

func (d dialer) Dial(ctx context.Context) (io.ReadWriteCloser, error) { return d.t, nil }
