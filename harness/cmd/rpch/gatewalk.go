package main

// Gate walk: seeded random scheduling of a real Connection at critical-section granularity.
// Every goroutine parks at the `verif` gates (entry of updateInFlight, before taking the writer slot)
// and at the harness's own gates (wire write, read, handler body); the driver repeatedly picks, at
// random, either a parked goroutine to release or an environment operation to perform.  Windows
// between two critical sections of one goroutine (where lost wake-ups and double completions live)
// are therefore hit with probability ~1/(number of runnable threads) instead of by timing luck.
// The recorded trace goes through the same TLC validation (contract + design) as free-running scenarios.

import (
	"context"
	"encoding/json"
	"fmt"
	"math/rand"
	"sort"
	"sync/atomic"
	"time"

	"github.com/goplus/xgo/x/jsonrpc2"
)

func runGateWalk(idx int, seed int64) (res ScenarioResult) {
	s := &scenario{rng: rand.New(rand.NewSource(seed)), byID: map[string]*instInfo{},
		recvCalls: map[int64]bool{}, answered: map[int64]bool{}}
	r := &replayer{scenario: s, threads: map[int64]string{}, arrivals: make(chan *gateReq, 64),
		pending: map[string]*gateReq{}, upds: make(chan Ev, 4096), ios: make(chan ioOutcome, 4096),
		idOf: map[int64]int64{}, modelOf: map[int64]int64{}}
	res.Scenario, res.Seed = idx, seed
	rng := s.rng
	r.register("main:0")
	s.tr = newTransport()
	s.tr.gate = func(kind string) string { return r.gate("io:" + kind) }
	s.tr.outcome = func(what string) {}
	s.tr.onWrite = func(msg jsonrpc2.Message) {
		switch m := msg.(type) {
		case *jsonrpc2.Request:
			if m.IsCall() {
				id, _ := m.ID.Raw().(int64)
				s.emit(Ev{Ev: "wire_call", Call: id})
				s.mu.Lock()
				s.recvCalls[id] = true
				s.mu.Unlock()
			} else {
				s.emit(Ev{Ev: "wire_notif"})
			}
		case *jsonrpc2.Response:
			s.emit(Ev{Ev: "wire_resp", ID: idStr(m.ID)})
		}
	}
	jsonrpc2.VerifHook.Gate = func(c *jsonrpc2.Connection, site string) { r.gate(site) }
	jsonrpc2.VerifHook.Emit = func(c *jsonrpc2.Connection, e jsonrpc2.VerifEvent) {
		s.emit(Ev{Ev: e.Kind, Site: e.Site, InSec: e.InSec, St: e.State, Retired: e.Retired})
	}
	defer func() { jsonrpc2.VerifHook.Emit = nil; jsonrpc2.VerifHook.Gate = nil }()

	handler := func(ctx context.Context, req *jsonrpc2.Request) (any, error) {
		var p handlerParams
		json.Unmarshal(req.Params, &p)
		s.emit(Ev{Ev: "h_start", Inst: p.Inst})
		mode := r.gate("io:handle")
		if mode == "" {
			mode = "sync"
		}
		if !req.IsCall() && mode == "async" {
			mode = "sync"
		}
		s.emit(Ev{Ev: "h_end", Inst: p.Inst, Mode: mode})
		switch mode {
		case "async":
			s.mu.Lock()
			if p.Inst >= 1 && p.Inst <= len(s.insts) {
				s.insts[p.Inst-1].asyncRet = true
			}
			s.mu.Unlock()
			return nil, jsonrpc2.ErrAsyncResponse
		case "err":
			return nil, fmt.Errorf("handler error")
		}
		if req.IsCall() {
			return p.Inst, nil
		}
		return nil, nil
	}
	binder := jsonrpc2.BinderFunc(func(ctx context.Context, c *jsonrpc2.Connection) jsonrpc2.ConnectionOptions {
		return jsonrpc2.ConnectionOptions{Framer: msgFramer{}, Handler: jsonrpc2.HandlerFunc(handler),
			OnInternalError: func(err error) { s.violation("internal-error:"+classify(err.Error()), err.Error()) }}
	})
	conn, err := jsonrpc2.Dial(context.Background(), dialer{s.tr}, binder, nil)
	if err != nil {
		res.Violations = []Violation{{"harness-bug:dial", err.Error()}}
		return
	}
	s.conn = conn
	op := func(name string) { s.ops = append(s.ops, name) }
	spawn := func(name string, f func()) {
		s.wg.Add(1)
		go func() {
			defer s.wg.Done()
			r.register(name)
			f()
		}()
	}
	maxCalls, maxNotifs, maxInc := 3, 2, 3
	profile := rng.Intn(6)
	allowW := profile == 3 || profile == 5
	allowHang := profile == 2 || profile == 5
	closed, hung, bogusSent := false, false, false
	envBudget := 5 + rng.Intn(8)
	nresp := 0

	collect := func(d time.Duration) {
		t := time.After(d)
		for {
			select {
			case q := <-r.arrivals:
				r.pending[q.thread] = q
			case <-t:
				return
			}
		}
	}
	steps := 0
	for steps < 400 {
		steps++
		collect(time.Duration(150+rng.Intn(200)) * time.Microsecond)
		// candidates: parked threads (sorted for determinism) and, while budget lasts, an environment op
		var names []string
		for th := range r.pending {
			names = append(names, th)
		}
		sort.Strings(names)
		nenv := 0
		if envBudget > 0 {
			nenv = 2 // weight of "do an environment operation"
		}
		if len(names) == 0 && nenv == 0 {
			// nothing parked and nothing left to do: the system is waiting on the peer or finished
			collect(2 * time.Millisecond)
			if len(r.pending) == 0 {
				break
			}
			continue
		}
		k := rng.Intn(len(names) + nenv)
		if k < len(names) {
			th := names[k]
			q := r.pending[th]
			delete(r.pending, th)
			instr := ""
			if q.site == "io:handle" {
				instr = []string{"sync", "sync", "err", "async"}[rng.Intn(4)]
			}
			op("go:" + th + "@" + q.site)
			q.grant <- instr
			continue
		}
		envBudget--
		x := rng.Intn(100)
		switch {
		case x < 25:
			if s.ncalls < maxCalls {
				s.ncalls++
				n := s.ncalls
				op(fmt.Sprintf("call#%d", n))
				spawn(fmt.Sprintf("call:%d", n), func() {
					ac := conn.Call(context.Background(), "m", n)
					id, _ := ac.ID().Raw().(int64)
					var out int64
					done := make(chan error, 1)
					go func() { done <- ac.Await(context.Background(), &out) }()
					select {
					case err := <-done:
						if err != nil {
							s.emit(Ev{Ev: "await_ret", Call: id, Kind: "err"})
						} else {
							s.emit(Ev{Ev: "await_ret", Call: id, Kind: "resp", Payload: out})
						}
					case <-time.After(3 * liveCap):
						s.violation("await-never-returns", fmt.Sprintf("call id %d", id))
					}
				})
			}
		case x < 33:
			if s.nnotifs < maxNotifs {
				s.nnotifs++
				op("notify")
				spawn(fmt.Sprintf("notif:%d", s.nnotifs), func() { conn.Notify(context.Background(), "n", nil) })
			}
		case x < 55:
			// the peer answers a call it has received (or, once, a call it already answered)
			s.mu.Lock()
			var cands, done []int64
			for id := range s.recvCalls {
				if s.answered[id] {
					done = append(done, id)
				} else {
					cands = append(cands, id)
				}
			}
			s.mu.Unlock()
			sort.Slice(cands, func(i, j int) bool { return cands[i] < cands[j] })
			sort.Slice(done, func(i, j int) bool { return done[i] < done[j] })
			var id int64
			if len(cands) > 0 {
				id = cands[rng.Intn(len(cands))]
			} else if len(done) > 0 && !bogusSent && rng.Intn(3) == 0 {
				id = done[rng.Intn(len(done))]
				bogusSent = true
			}
			if id != 0 && !hung {
				s.mu.Lock()
				s.answered[id] = true
				s.mu.Unlock()
				op(fmt.Sprintf("peer_respond(%d)", id))
				raw, _ := json.Marshal(id*10 + 1)
				s.emit(Ev{Ev: "peer_resp", Call: id})
				s.tr.push(&jsonrpc2.Response{ID: jsonrpc2.Int64ID(id), Result: raw})
			} else {
				envBudget++
			}
		case x < 75:
			if len(s.insts) < maxInc && !hung {
				id := ""
				if rng.Intn(3) > 0 {
					id = "a"
					if rng.Intn(4) == 0 {
						id = "b"
					}
				}
				in := &instInfo{inst: len(s.insts) + 1, id: id}
				s.mu.Lock()
				s.insts = append(s.insts, in)
				s.mu.Unlock()
				op(fmt.Sprintf("peer_send(#%d id=%q)", in.inst, id))
				params, _ := json.Marshal(handlerParams{Inst: in.inst})
				s.emit(Ev{Ev: "peer_send", Inst: in.inst, ID: id})
				var rid jsonrpc2.ID
				if id != "" {
					rid = jsonrpc2.StringID(id)
				}
				s.tr.push(&jsonrpc2.Request{ID: rid, Method: "h", Params: params})
			}
		case x < 83:
			// Respond for one asynchronously handled request
			s.mu.Lock()
			var todo *instInfo
			for _, in := range s.insts {
				if in.asyncRet && !in.responded {
					in.responded = true
					todo = in
					break
				}
			}
			s.mu.Unlock()
			if todo != nil {
				in := todo
				nresp++
				op(fmt.Sprintf("respond(#%d)", in.inst))
				spawn(fmt.Sprintf("resp:%d", in.inst), func() {
					s.emit(Ev{Ev: "respond_start", Inst: in.inst, ID: in.id})
					conn.Respond(jsonrpc2.StringID(in.id), in.inst, nil)
					s.emit(Ev{Ev: "respond_end", Inst: in.inst, ID: in.id})
				})
			} else {
				envBudget++
			}
		case x < 90:
			if !closed && (profile == 1 || profile == 5 || rng.Intn(2) == 0) {
				closed = true
				op("close")
				spawn("close:0", func() {
					s.emit(Ev{Ev: "close_call"})
					conn.Close()
					s.emit(Ev{Ev: "close_ret"})
				})
			}
		case x < 95:
			if allowHang && !hung {
				hung = true
				op("hangup")
				s.tr.hangup()
			}
		default:
			if allowW {
				op("wbreak")
				s.tr.breakWrites()
			}
		}
	}

	// ---- free run to the end
	r.openAll()
	go func() {
		for q := range r.arrivals {
			q.grant <- ""
		}
	}()
	t0 := time.Now()
	quiesce := make(chan struct{})
	go func() {
		s.wg.Wait()
		conn.Wait()
		close(quiesce)
	}()
	terminated := false
	tick := time.NewTicker(200 * time.Microsecond)
	defer tick.Stop()
loop:
	for {
		select {
		case <-quiesce:
			break loop
		case <-tick.C:
			s.mu.Lock()
			var todo []*instInfo
			for _, in := range s.insts {
				if in.asyncRet && !in.responded {
					in.responded = true
					todo = append(todo, in)
				}
			}
			var ans []int64
			for id := range s.recvCalls {
				if !s.answered[id] {
					s.answered[id] = true
					ans = append(ans, id)
				}
			}
			s.mu.Unlock()
			for _, in := range todo {
				in := in
				s.wg.Add(1)
				go func() {
					defer s.wg.Done()
					s.emit(Ev{Ev: "respond_start", Inst: in.inst, ID: in.id})
					conn.Respond(jsonrpc2.StringID(in.id), in.inst, nil)
					s.emit(Ev{Ev: "respond_end", Inst: in.inst, ID: in.id})
				}()
			}
			if !hung {
				for _, id := range ans {
					raw, _ := json.Marshal(id*10 + 1)
					s.emit(Ev{Ev: "peer_resp", Call: id})
					s.tr.push(&jsonrpc2.Response{ID: jsonrpc2.Int64ID(id), Result: raw})
				}
			}
			if !terminated && time.Since(t0) > 2*time.Millisecond {
				terminated = true
				if !closed && !hung {
					hung = true
					op("hangup(final)")
					s.tr.hangup()
				}
			}
			if time.Since(t0) > liveCap {
				res.Overloaded = overloaded()
				if atomic.AddInt32(&hangsSeen, 1) >= 2 {
					liveCap = 2 * time.Second
				}
				last := ""
				s.mu.Lock()
				for i := len(s.evs) - 1; i >= 0; i-- {
					if s.evs[i].Ev == "upd" {
						b, _ := json.Marshal(s.evs[i].St)
						last = string(b)
						break
					}
				}
				s.mu.Unlock()
				s.violation("hang:quiesce", fmt.Sprintf("gate walk: the connection did not become done within %v after everything was released; last state %s", liveCap, last))
				break loop
			}
		}
	}
	s.mu.Lock()
	sort.Slice(s.evs, func(i, j int) bool { return s.evs[i].Seq < s.evs[j].Seq })
	res.Events = s.evs
	res.Violations = s.viol
	s.mu.Unlock()
	res.Ops = s.ops
	res.NCalls, res.NNotifs, res.NInc = s.ncalls, s.nnotifs, len(s.insts)
	return
}
