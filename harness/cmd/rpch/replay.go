package main

// Schedule replay: a behaviour of the design spec (exported by specs/rpc/JsonRpcSched.tla) is stepped
// through a real Connection.  Goroutines are ordered with the `verif` gate at the entry of
// updateInFlight and with gates in the harness's own transport and handler; after every critical
// section the projected inFlightState is compared with the model's state.

import (
	"context"
	"encoding/json"
	"fmt"
	"runtime"
	"sort"
	"strconv"
	"strings"
	"sync"
	"sync/atomic"
	"time"

	"github.com/goplus/xgo/x/jsonrpc2"
)

type modelC struct {
	Cc  bool           `json:"cc"`
	Rd  bool           `json:"rd"`
	Re  bool           `json:"re"`
	We  bool           `json:"we"`
	Co  bool           `json:"co"`
	Dn  bool           `json:"dn"`
	Out []int64        `json:"out"`
	On  int            `json:"on"`
	Inc int            `json:"inc"`
	By  map[string]int `json:"by"`
	Hq  []int          `json:"hq"`
	Hr  bool           `json:"hr"`
}

type step struct {
	A   string          `json:"a"`
	K   string          `json:"k"`
	Th  []any           `json:"th"`
	Arg json.RawMessage `json:"arg"`
	C   modelC          `json:"c"`
}

type schedule struct {
	H []step `json:"h"`
}

func (st step) thread() string { return fmt.Sprint(st.Th[0], ":", st.Th[1]) }
func (st step) argInt() int64 {
	var n int64
	json.Unmarshal(st.Arg, &n)
	return n
}
func (st step) argStr() string {
	var s string
	if json.Unmarshal(st.Arg, &s) != nil {
		return ""
	}
	return s
}

var siteOf = map[string]string{
	"CRegister": "Call", "CWErr": "write", "CCleanup": "Call", "NBegin": "Notify", "NWErr": "write",
	"NEnd": "Notify.func1", "RResponse": "readIncoming", "RExit": "readIncoming", "RAccept": "acceptRequest",
	"REnqueue": "acceptRequest", "RPRDel": "processResult", "RPRDecr": "processResult", "RPRWErr": "write",
	"HDequeue": "handleAsync", "HCancelChk": "handleAsync", "HPRDel": "processResult", "HPRDecr": "processResult",
	"HPRWErr": "write", "ARespLookup": "Respond", "APRDel": "processResult", "APRDecr": "processResult",
	"APRWErr": "write", "CloseSet": "Close", "CloseWait": "Wait", "KLookup": "Cancel",
}

type gateReq struct {
	thread string
	site   string
	grant  chan string // value: instruction for the gated code (handler mode)
}

type ioOutcome struct {
	thread string
	what   string // write-ok | write-fail | read-msg | read-err
}

type replayer struct {
	*scenario
	free     int32 // 1: gates are open
	gmu      sync.Mutex
	threads  map[int64]string // goroutine id -> logical thread
	arrivals chan *gateReq
	pending  map[string]*gateReq
	upds     chan Ev
	ios      chan ioOutcome
	idOf     map[int64]int64 // model call -> real id
	modelOf  map[int64]int64
	instID   []string // instance-1 -> id ("" = notification)
}

func goid() int64 {
	var buf [64]byte
	b := buf[:runtime.Stack(buf[:], false)]
	f := strings.Fields(string(b))
	if len(f) >= 2 {
		n, _ := strconv.ParseInt(f[1], 10, 64)
		return n
	}
	return 0
}

func (r *replayer) threadOf(site string) string {
	g := goid()
	r.gmu.Lock()
	defer r.gmu.Unlock()
	switch site {
	case "handleAsync":
		r.threads[g] = "handler:0" // a fresh goroutine every time the handler restarts
	case "readIncoming", "acceptRequest", "io:read":
		if _, ok := r.threads[g]; !ok {
			r.threads[g] = "reader:0"
		}
	}
	return r.threads[g]
}

func (r *replayer) register(name string) {
	g := goid()
	r.gmu.Lock()
	r.threads[g] = name
	r.gmu.Unlock()
}

// gate blocks the calling goroutine until the driver grants its step (or free-run is on).
func (r *replayer) gate(site string) string {
	if atomic.LoadInt32(&r.free) == 1 {
		return ""
	}
	th := r.threadOf(site)
	if th == "" || th == "main:0" {
		return ""
	}
	req := &gateReq{thread: th, site: site, grant: make(chan string, 1)}
	r.arrivals <- req
	return <-req.grant
}

func (r *replayer) openAll() {
	atomic.StoreInt32(&r.free, 1)
	for {
		select {
		case q := <-r.arrivals:
			q.grant <- ""
		default:
			for _, q := range r.pending {
				q.grant <- ""
			}
			r.pending = map[string]*gateReq{}
			return
		}
	}
}

const stepCap = 1500 * time.Millisecond

// await waits until thread th is parked at a gate and returns the request.
func (r *replayer) await(th string) (*gateReq, bool) {
	deadline := time.After(stepCap)
	short := time.After(60 * time.Millisecond)
	for {
		if q, ok := r.pending[th]; ok {
			return q, true
		}
		select {
		case q := <-r.arrivals:
			r.pending[q.thread] = q
		case <-short:
			// somebody parked while holding the writer slot? then th may be queued behind it for ever
			if r.slotHolder(th) != "" {
				return nil, false
			}
			short = nil
		case <-deadline:
			return nil, false
		}
	}
}

// slotHolder names a thread other than th that is parked at a gate inside Connection.write.
func (r *replayer) slotHolder(th string) string {
	for t2, q2 := range r.pending {
		if (q2.site == "io:write" || q2.site == "write") && t2 != th {
			return t2
		}
	}
	return ""
}

type replayResult struct {
	ScenarioResult
	Steps    int    `json:"steps"`
	Executed int    `json:"executed"`
	Outcome  string `json:"outcome"` // ok | skipped:<why> | diverged:<...> | mismatch:<...>
	Detail   string `json:"detail,omitempty"`
	Schedule []string `json:"schedule"`
}

func replayable(h []step) string {
	for i, st := range h {
		switch st.A {
		case "HDequeue":
			// the cancellation check follows the dequeue immediately in the code
			for j := i + 1; j < len(h) && h[j].A != "HCheck"; j++ {
				switch h[j].A {
				case "KCancel", "CWErr", "NWErr", "RPRWErr", "HPRWErr", "APRWErr", "RPRDecr", "APRDecr":
					return "cancel-between-dequeue-and-check"
				}
			}
		case "KLookup":
			for j := i + 1; j < len(h) && h[j].A != "KCancel"; j++ {
				if h[j].A == "HCheck" || h[j].A == "HDequeue" {
					return "check-between-lookup-and-cancel"
				}
			}
		case "CCtxCancel":
			return "ctx-cancel-timing"
		}
	}
	return ""
}

func runReplay(idx int, sch schedule) (res replayResult) {
	s := &scenario{byID: map[string]*instInfo{}, recvCalls: map[int64]bool{}, answered: map[int64]bool{}}
	r := &replayer{scenario: s, threads: map[int64]string{}, arrivals: make(chan *gateReq, 64),
		pending: map[string]*gateReq{}, upds: make(chan Ev, 256), ios: make(chan ioOutcome, 64),
		idOf: map[int64]int64{}, modelOf: map[int64]int64{}}
	res.Scenario = idx
	res.Steps = len(sch.H)
	for _, st := range sch.H {
		res.Schedule = append(res.Schedule, st.A+"("+strings.Trim(string(st.Arg), `"`)+")")
	}
	if why := replayable(sch.H); why != "" {
		res.Outcome = "skipped:" + why
		return
	}
	r.register("main:0")
	s.tr = newTransport()
	s.tr.gate = func(kind string) string { return r.gate("io:" + kind) }
	s.tr.outcome = func(what string) {
		if atomic.LoadInt32(&r.free) == 0 {
			th := r.threadOf("")
			r.ios <- ioOutcome{th, what}
		}
	}
	s.tr.onWrite = func(msg jsonrpc2.Message) {
		switch m := msg.(type) {
		case *jsonrpc2.Request:
			if m.IsCall() {
				id, _ := m.ID.Raw().(int64)
				s.emit(Ev{Ev: "wire_call", Call: id})
				s.mu.Lock()
				s.recvCalls[id] = true
				s.mu.Unlock()
			} else {
				s.emit(Ev{Ev: "wire_notif"})
			}
		case *jsonrpc2.Response:
			s.emit(Ev{Ev: "wire_resp", ID: idStr(m.ID)})
		}
	}
	jsonrpc2.VerifHook.Gate = func(c *jsonrpc2.Connection, site string) { r.gate(site) }
	jsonrpc2.VerifHook.Emit = func(c *jsonrpc2.Connection, e jsonrpc2.VerifEvent) {
		ev := Ev{Ev: e.Kind, Site: e.Site, InSec: e.InSec, St: e.State, Retired: e.Retired}
		s.emit(ev)
		if e.Kind == "upd" && atomic.LoadInt32(&r.free) == 0 {
			r.gmu.Lock()
			th := r.threads[e.Goid]
			r.gmu.Unlock()
			if th != "main:0" {
				ev.ID = th
				r.upds <- ev
			}
		}
	}
	defer func() { jsonrpc2.VerifHook.Emit = nil; jsonrpc2.VerifHook.Gate = nil }()

	handlerMode := func(ctx context.Context, req *jsonrpc2.Request) (any, error) {
		var p handlerParams
		json.Unmarshal(req.Params, &p)
		s.emit(Ev{Ev: "h_start", Inst: p.Inst})
		mode := r.gate("io:handle")
		if mode == "" {
			mode = "sync"
		}
		s.emit(Ev{Ev: "h_end", Inst: p.Inst, Mode: mode})
		if mode == "async" && req.IsCall() {
			s.mu.Lock()
			if p.Inst >= 1 && p.Inst <= len(s.insts) {
				s.insts[p.Inst-1].asyncRet = true
			}
			s.mu.Unlock()
			return nil, jsonrpc2.ErrAsyncResponse
		}
		if req.IsCall() {
			return p.Inst, nil
		}
		return nil, nil
	}
	binder := jsonrpc2.BinderFunc(func(ctx context.Context, c *jsonrpc2.Connection) jsonrpc2.ConnectionOptions {
		return jsonrpc2.ConnectionOptions{Framer: msgFramer{}, Handler: jsonrpc2.HandlerFunc(handlerMode),
			OnInternalError: func(err error) { s.violation("internal-error:"+classify(err.Error()), err.Error()) }}
	})
	conn, err := jsonrpc2.Dial(context.Background(), dialer{s.tr}, binder, nil)
	if err != nil {
		res.Outcome = "harness-bug:dial"
		return
	}
	s.conn = conn
	closeStarted := false
	hung := false

	fail := func(kind, detail string) {
		res.Outcome = kind
		res.Detail = detail
	}
	spawn := func(name string, f func()) {
		s.wg.Add(1)
		go func() {
			defer s.wg.Done()
			r.register(name)
			f()
		}()
	}
	compare := func(st step, ev Ev) string {
		m, g := st.C, ev.St
		var d []string
		chk := func(n string, a, b any) {
			if fmt.Sprint(a) != fmt.Sprint(b) {
				d = append(d, fmt.Sprintf("%s: model=%v code=%v", n, a, b))
			}
		}
		chk("connClosing", m.Cc, g.ConnClosing)
		chk("reading", m.Rd, g.Reading)
		chk("readErr", m.Re, g.ReadErr)
		chk("writeErr", m.We, g.WriteErr)
		chk("closerOpen", m.Co, g.CloserOpen)
		chk("done", m.Dn, g.Done)
		chk("outNotif", m.On, g.OutNotif)
		chk("incoming", m.Inc, g.Incoming)
		chk("handlerRunning", m.Hr, g.HandlerRunning)
		var mo []string
		for _, i := range m.Out {
			mo = append(mo, fmt.Sprintf("i:%d", r.idOf[i]))
		}
		sort.Strings(mo)
		chk("outgoing", mo, g.Outgoing)
		var mb []string
		for id, inst := range m.By {
			if inst != 0 {
				mb = append(mb, "s:"+id)
			}
		}
		sort.Strings(mb)
		chk("incomingByID", mb, g.IncomingByID)
		var mh []string
		for _, inst := range m.Hq {
			id := ""
			if inst >= 1 && inst <= len(r.instID) && r.instID[inst-1] != "" {
				id = "s:" + r.instID[inst-1]
			}
			mh = append(mh, id)
		}
		chk("handlerQueue", mh, g.HandlerQueue)
		return strings.Join(d, "; ")
	}

steps:
	for k, st := range sch.H {
		res.Executed = k
		th := st.thread()
		switch st.K {
		case "env":
			switch st.A {
			case "PeerSend":
				id := st.argStr()
				if id == "none" {
					id = ""
				}
				in := &instInfo{inst: len(s.insts) + 1, id: id, release: make(chan struct{})}
				s.mu.Lock()
				s.insts = append(s.insts, in)
				s.mu.Unlock()
				r.instID = append(r.instID, id)
				params, _ := json.Marshal(handlerParams{Inst: in.inst})
				s.emit(Ev{Ev: "peer_send", Inst: in.inst, ID: id})
				var rid jsonrpc2.ID
				if id != "" {
					rid = jsonrpc2.StringID(id)
				}
				s.tr.push(&jsonrpc2.Request{ID: rid, Method: "h", Params: params})
			case "PeerRespond", "PeerBogus":
				id := r.idOf[st.argInt()]
				raw, _ := json.Marshal(id*10 + 1)
				s.emit(Ev{Ev: "peer_resp", Call: id})
				s.mu.Lock()
				s.answered[id] = true
				s.mu.Unlock()
				s.tr.push(&jsonrpc2.Response{ID: jsonrpc2.Int64ID(id), Result: raw})
			case "PeerHangup":
				hung = true
				s.tr.hangup()
			case "WBreak":
				s.tr.breakWrites()
			}
			continue
		case "auto":
			continue
		}
		// a gated step: make sure the thread exists
		if _, ok := r.pending[th]; !ok {
			switch st.A {
			case "CRegister":
				mi := st.argInt()
				s.ncalls++
				r.idOf[mi] = int64(s.ncalls)
				r.modelOf[int64(s.ncalls)] = mi
				spawn(th, func() {
					ac := conn.Call(context.Background(), "m", mi)
					id, _ := ac.ID().Raw().(int64)
					var out int64
					if err := ac.Await(context.Background(), &out); err != nil {
						s.emit(Ev{Ev: "await_ret", Call: id, Kind: "err"})
					} else {
						s.emit(Ev{Ev: "await_ret", Call: id, Kind: "resp", Payload: out})
					}
				})
			case "NBegin":
				s.nnotifs++
				spawn(th, func() { conn.Notify(context.Background(), "n", nil) })
			case "ARespLookup":
				inst := int(st.argInt())
				id := r.instID[inst-1]
				s.mu.Lock()
				s.insts[inst-1].responded = true
				s.mu.Unlock()
				spawn(th, func() {
					s.emit(Ev{Ev: "respond_start", Inst: inst, ID: id})
					conn.Respond(jsonrpc2.StringID(id), inst, nil)
					s.emit(Ev{Ev: "respond_end", Inst: inst, ID: id})
				})
			case "CloseSet":
				closeStarted = true
				spawn(th, func() {
					s.emit(Ev{Ev: "close_call"})
					conn.Close()
					s.emit(Ev{Ev: "close_ret"})
				})
			case "KLookup":
				id := st.argStr()
				spawn(th, func() { conn.Cancel(jsonrpc2.StringID(id)) })
			}
		}
		q, ok := r.await(th)
		if !ok {
			// The code serialises wire writes with a one-slot writer channel that the design spec folds
			// into atomic write steps: a thread parked at the write gate holds that slot, so another
			// thread's write (or anything after it) cannot be scheduled first.  Not a divergence.
			holder := r.slotHolder(th)
			if holder != "" {
				fail("skipped:writer-slot-order", fmt.Sprintf("step %d %s: %s waits for the writer slot held by %s", k, st.A, th, holder))
				break steps
			}
			fail("diverged:"+st.A+":thread-not-at-gate", fmt.Sprintf("step %d %s: thread %s never reached a gate", k, st.A, th))
			break steps
		}
		switch st.K {
		case "upd":
			if want := siteOf[st.A]; q.site != want {
				fail("diverged:"+st.A+":site="+q.site, fmt.Sprintf("step %d %s: thread %s is at %s, model expects %s", k, st.A, th, q.site, want))
				break steps
			}
			delete(r.pending, th)
			q.grant <- ""
			select {
			case ev := <-r.upds:
				if ev.ID != th {
					fail("diverged:"+st.A+":other-thread-ran", fmt.Sprintf("step %d %s: got upd from %s", k, st.A, ev.ID))
					break steps
				}
				if d := compare(st, ev); d != "" {
					fail("mismatch:"+st.A, fmt.Sprintf("step %d %s: %s", k, st.A, d))
					break steps
				}
			case <-time.After(stepCap):
				fail("diverged:"+st.A+":no-upd", fmt.Sprintf("step %d %s: no updateInFlight event", k, st.A))
				break steps
			}
		case "io":
			wantSite, wantOut, instr := "io:write", "", ""
			switch st.A {
			case "WAcq":
				wantSite = "write:acquire"
			case "CWriteOk", "NWriteOk", "PRWriteOk":
				wantOut = "write-ok"
			case "CWriteFail", "NWriteFail", "PRWriteFail":
				wantOut = "write-fail"
			case "RRead":
				wantSite, wantOut = "io:read", "read-msg"
			case "RReadErr":
				wantSite, wantOut = "io:read", "read-err"
			case "HHandleSync":
				wantSite, instr = "io:handle", "sync"
			case "HHandleAsync":
				wantSite, instr = "io:handle", "async"
			}
			if q.site != wantSite {
				fail("diverged:"+st.A+":site="+q.site, fmt.Sprintf("step %d %s: thread %s is at %s, model expects %s", k, st.A, th, q.site, wantSite))
				break steps
			}
			delete(r.pending, th)
			q.grant <- instr
			if wantOut != "" {
				select {
				case o := <-r.ios:
					if o.what != wantOut {
						fail("diverged:"+st.A+":outcome="+o.what, fmt.Sprintf("step %d %s: real outcome %s", k, st.A, o.what))
						break steps
					}
				case <-time.After(stepCap):
					fail("diverged:"+st.A+":no-io", fmt.Sprintf("step %d %s: I/O did not complete", k, st.A))
					break steps
				}
			}
		}
		res.Executed = k + 1
	}
	if res.Outcome == "" {
		res.Outcome = "ok"
	}

	// ---- free run to the end: everything finishes, then the connection is terminated
	r.openAll()
	go func() { // keep opening gates for late arrivals
		for q := range r.arrivals {
			q.grant <- ""
		}
	}()
	t0 := time.Now()
	quiesce := make(chan struct{})
	go func() {
		s.wg.Wait()
		conn.Wait()
		close(quiesce)
	}()
	terminated := false
	tick := time.NewTicker(200 * time.Microsecond)
	defer tick.Stop()
loop:
	for {
		select {
		case <-quiesce:
			break loop
		case <-tick.C:
			// async responses and peer answers
			s.mu.Lock()
			var todo []*instInfo
			for _, in := range s.insts {
				if in.asyncRet && !in.responded {
					in.responded = true
					todo = append(todo, in)
				}
			}
			var ans []int64
			for id := range s.recvCalls {
				if !s.answered[id] {
					s.answered[id] = true
					ans = append(ans, id)
				}
			}
			s.mu.Unlock()
			for _, in := range todo {
				in := in
				s.wg.Add(1)
				go func() {
					defer s.wg.Done()
					s.emit(Ev{Ev: "respond_start", Inst: in.inst, ID: in.id})
					conn.Respond(jsonrpc2.StringID(in.id), in.inst, nil)
					s.emit(Ev{Ev: "respond_end", Inst: in.inst, ID: in.id})
				}()
			}
			if !hung {
				for _, id := range ans {
					raw, _ := json.Marshal(id*10 + 1)
					s.emit(Ev{Ev: "peer_resp", Call: id})
					s.tr.push(&jsonrpc2.Response{ID: jsonrpc2.Int64ID(id), Result: raw})
				}
			}
			if !terminated && time.Since(t0) > 2*time.Millisecond {
				terminated = true
				if !closeStarted && !hung {
					hung = true
					s.tr.hangup()
				}
			}
			if time.Since(t0) > liveCap {
				res.Overloaded = overloaded()
				if atomic.AddInt32(&hangsSeen, 1) >= 2 {
					liveCap = 2 * time.Second
				}
				s.violation("hang:quiesce", fmt.Sprintf("after replaying %d steps the connection did not become done within %v", res.Executed, liveCap))
				break loop
			}
		}
	}
	// r.arrivals is never closed: a goroutine of a hung connection may still arrive at a gate
	s.mu.Lock()
	sort.Slice(s.evs, func(i, j int) bool { return s.evs[i].Seq < s.evs[j].Seq })
	res.Events = s.evs
	res.Violations = s.viol
	s.mu.Unlock()
	res.NCalls, res.NNotifs, res.NInc = s.ncalls, s.nnotifs, len(s.insts)
	return
}
