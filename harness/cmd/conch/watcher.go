package main

// C40 -- x/watcher Changes: FileChanged / Fetch / EntryDeleted / Ignore.
//
// watcher-stress: free-running goroutines drive the real object; every call start / call end
//   (and the verif gate between Unlock and Broadcast) is logged with a number from one atomic
//   counter; at the end, when all producers have returned and nothing moves any more, a
//   quiesce record lists the fetchers that are still blocked.  TLC validates the traces
//   against specs/conc/WatcherTrace.tla.
// watcher-replay: behaviours exported by specs/conc/WatcherReplay.tla (command sequences with
//   the model's observation after every command) are steered into the real object with the
//   gate hook; the real observation sequence must be one the model allows.

import (
	"fmt"
	"math/rand"
	"os"
	"reflect"
	"runtime"
	"sort"
	"strings"
	"sync"
	"sync/atomic"
	"time"

	"github.com/goplus/xgo/x/watcher"

	"verifharness/hlib"
)

const (
	wakeCap   = 2 * time.Second // "generous cap" for a wake-up / for settling
	settleCap = 10 * time.Second
)

// files known to specs/conc/Watcher.tla (StdDirOf)
var stdFiles = []string{"a/x.go", "a/y.xgo", "b/x.go", "b/s/z.go", "x.go"}

// ------------------------------------------------------------------ gate dispatch

type gateFn func(dir string, n int)

var gates sync.Map    // *watcher.Changes -> gateFn
var prelocks sync.Map // *watcher.Changes -> func(), called before mutex.Lock (only with the prelock hook)

// preLockYield returns a cheap seeded yield for the pre-lock hook.
func preLockYield(mode int) func() {
	var ctr atomic.Uint64
	return func() {
		h := ctr.Add(1) * 0x9E3779B97F4A7C15 >> 40
		switch mode {
		case 1:
			runtime.Gosched()
		case 2:
			if h%3 == 0 {
				runtime.Gosched()
			}
		case 3:
			if h%5 == 0 {
				spin(time.Duration(h%5) * time.Microsecond)
			}
		}
	}
}

func init() {
	watcher.VerifGate = func(p *watcher.Changes, dir string, n int) {
		if f, ok := gates.Load(p); ok {
			f.(gateFn)(dir, n)
		}
	}
}

// changedOf reads p.changed by reflection. Only called when no goroutine can be inside a
// critical section (everything parked, at the gate, or idle). ok=false if the field is gone.
func changedOf(c *watcher.Changes) (dirs []string, ok bool) {
	defer func() {
		if recover() != nil {
			dirs, ok = nil, false
		}
	}()
	f := reflect.ValueOf(c).Elem().FieldByName("changed")
	if !f.IsValid() || f.Kind() != reflect.Map || f.Type().Key().Kind() != reflect.String {
		return nil, false
	}
	dirs = []string{}
	for _, k := range f.MapKeys() {
		dirs = append(dirs, k.String())
	}
	sort.Strings(dirs)
	return dirs, true
}

// ------------------------------------------------------------------ a driven object

type wproc struct {
	name     string
	gid      atomic.Uint64
	buf      *evbuf
	inFetch  atomic.Bool // a Fetch call is in flight
	rets     atomic.Int64
	finished atomic.Bool
}

// settle waits until every consumer with a Fetch in flight has returned or is blocked, and
// returns the blocked ones.  "Blocked" = parked in sync.Cond.Wait, or any non-running state
// that stays the same for 20 ms (a changed implementation may block differently).
func settle(cons []*wproc, cap time.Duration) (blocked []*wproc, ok bool) {
	deadline := time.Now().Add(cap)
	var stableSince time.Time
	var lastSig string
	for i := 0; ; i++ {
		st := gstates()
		blocked = blocked[:0]
		allSettled := true
		needStable := false
		sig := ""
		for _, c := range cons {
			if !c.inFetch.Load() {
				continue
			}
			s := st[c.gid.Load()]
			switch {
			case s == "sync.Cond.Wait":
				blocked = append(blocked, c)
			case isRunningState(s) || s == "sync.Mutex.Lock" || s == "semacquire":
				allSettled = false
			default:
				blocked = append(blocked, c)
				needStable = true
			}
			sig += c.name + "=" + s + fmt.Sprint(c.rets.Load()) + ";"
		}
		if allSettled {
			// re-check that none of them returned in the meantime
			if !needStable {
				return blocked, true
			}
			if sig != lastSig {
				lastSig, stableSince = sig, time.Now()
			} else if time.Since(stableSince) > 20*time.Millisecond {
				return blocked, true
			}
		} else {
			lastSig = ""
		}
		if time.Now().After(deadline) {
			return blocked, false
		}
		if i < 50 {
			for k := 0; k < 20; k++ {
				runtime.Gosched()
			}
		} else {
			time.Sleep(50 * time.Microsecond)
		}
	}
}

// drain releases fetchers that are still parked once the recorded part is over.
func drain(c *watcher.Changes, cons []*wproc) {
	for i := 0; i < 4*len(cons)+4; i++ {
		n := 0
		for _, p := range cons {
			if p.inFetch.Load() {
				n++
			}
		}
		if n == 0 {
			return
		}
		c.FileChanged(fmt.Sprintf("zz%d/f.go", i))
		time.Sleep(100 * time.Microsecond)
	}
}

// ------------------------------------------------------------------ stress

type stressStats struct {
	traces, events, blockedEnd, lostSuspect int
}

func watcherStress(args []string) {
	n := argInt(args, "-n", 300)
	seed := hlib.Seed()
	tf := openTraceFile("wtraces-stress.ndjson")
	defer tf.close()
	rootDir, _ := os.MkdirTemp(os.Getenv("VERIF_SCRATCH_DIR"), "wroot")
	defer os.RemoveAll(rootDir)
	nshort := argInt(args, "-shortbursts", 20)
	nlong := argInt(args, "-bursts", 20)
	blen := argInt(args, "-burstlen", 4000)
	// long bursts: judged on the spot by the statement of C40 (no TLC: thousands of distinct directories)
	reports, fetched, nviol := 0, 0, 0
	for i := 0; i < nlong && nviol < 2; i++ {
		rng := rand.New(rand.NewSource(seed*9000011 + int64(i)))
		r := burstLong(rng, rootDir, blen)
		reports += r.reports
		fetched += r.fetched
		if r.note == "overload" {
			hlib.EmitRaw(map[string]any{"v": "overload", "detail": "burst: the consumer did not settle within the cap while the machine is overloaded"})
			continue
		}
		if r.sig != "" {
			nviol++
			hlib.EmitRaw(map[string]any{"v": "viol", "sig": r.sig, "detail": r.detail, "nt": r.shape, "src": "burst",
				"input": map[string]any{"burst": i, "shape": r.shape}})
			continue
		}
		hlib.Emit(hlib.Result{Idx: i, V: "ok", NT: r.shape, Input: map[string]any{"burst": r.shape},
			Detail: fmt.Sprintf("%d directories reported, each fetched exactly once, consumer finished", r.reports)})
	}
	hlib.EmitRaw(map[string]any{"v": "summary", "burst_reports": reports, "burst_fetches": fetched, "bursts": nlong})
	for i := 0; i < n+nshort; i++ {
		rng := rand.New(rand.NewSource(seed*1000003 + int64(i)))
		evs, shape, note := stressOne(rng, rootDir, i >= n)
		if note == "overload" {
			hlib.EmitRaw(map[string]any{"v": "overload", "detail": "goroutines did not settle within the cap while the machine is overloaded"})
			continue
		}
		id := tf.put(map[string]any{"src": "stress"}, evs)
		hlib.EmitRaw(map[string]any{"v": "trace", "id": id, "src": "stress", "nt": shape, "events": len(evs), "note": note})
	}
}

// stressOne records one free-running history.  burst = short burst profile: 1-2 producers report
// back-to-back against one consumer that fetches in a tight loop until it is blocked for good.
func stressOne(rng *rand.Rand, rootDir string, burst bool) (evs []map[string]any, shape string, note string) {
	c := watcher.NewChanges(rootDir)
	log := &evlog{}
	nP, nC := 1+rng.Intn(3), 1+rng.Intn(4)
	withAux := rng.Intn(3) == 0
	if burst {
		nP, nC, withAux = 1+rng.Intn(2), 1, false
	}
	nfiles := 2 + rng.Intn(len(stdFiles)-1)
	yieldMode := rng.Intn(4) // what the gate does
	type pscript struct {
		files  []string
		delDel []bool // use EntryDeleted(name,false) instead of FileChanged
	}
	var prods, cons []*wproc
	var pscripts []pscript
	var cscripts []int
	reports, fetches := 0, 0
	for i := 0; i < nP; i++ {
		prods = append(prods, &wproc{name: fmt.Sprintf("p%d", i+1), buf: log.buf()})
		var s pscript
		nrep := 1 + rng.Intn(3)
		if burst {
			nrep = 6 + rng.Intn(7)
		}
		for k := nrep; k > 0; k-- {
			s.files = append(s.files, stdFiles[rng.Intn(nfiles)])
			s.delDel = append(s.delDel, rng.Intn(5) == 0)
			reports++
		}
		pscripts = append(pscripts, s)
	}
	for i := 0; i < nC; i++ {
		cons = append(cons, &wproc{name: fmt.Sprintf("c%d", i+1), buf: log.buf()})
		k := 1 + rng.Intn(3)
		if burst {
			k = 1 << 20 // until blocked for good
		}
		cscripts = append(cscripts, k)
		fetches += k
	}
	gidName := sync.Map{}
	gateSeeds := make([]int64, nP)
	for i := range gateSeeds {
		gateSeeds[i] = rng.Int63()
	}
	gates.Store(c, gateFn(func(dir string, n int) {
		v, ok := gidName.Load(goid())
		if !ok {
			return
		}
		p := v.(*wproc)
		log.add(p.buf, map[string]any{"op": "fc", "ph": "gate", "g": p.name, "dir": dir, "n": n})
		switch yieldMode {
		case 1:
			runtime.Gosched()
		case 2:
			spin(time.Duration(5+int(p.rets.Add(1))%40) * time.Microsecond)
		case 3:
			time.Sleep(time.Duration(20+goidHash(p.name)%100) * time.Microsecond)
		}
	}))
	defer gates.Delete(c)
	if havePreLock {
		prelocks.Store(c, preLockYield(rng.Intn(4)))
		defer prelocks.Delete(c)
	}

	start := make(chan struct{})
	var pwg sync.WaitGroup
	var stop atomic.Bool
	delays := func() func() {
		r := rand.New(rand.NewSource(rng.Int63()))
		if burst {
			return func() {}
		}
		return func() {
			switch r.Intn(4) {
			case 0:
				runtime.Gosched()
			case 1:
				spin(time.Duration(r.Intn(30)) * time.Microsecond)
			case 2:
				time.Sleep(time.Duration(r.Intn(150)) * time.Microsecond)
			}
		}
	}
	for i, p := range prods {
		pwg.Add(1)
		d := delays()
		go func(p *wproc, s pscript) {
			defer pwg.Done()
			gidName.Store(goid(), p)
			<-start
			for k, f := range s.files {
				d()
				log.add(p.buf, map[string]any{"op": "fc", "ph": "start", "g": p.name, "file": f})
				if s.delDel[k] {
					c.EntryDeleted(f, false)
				} else {
					c.FileChanged(f)
				}
				log.add(p.buf, map[string]any{"op": "fc", "ph": "end", "g": p.name})
			}
		}(p, pscripts[i])
	}
	if withAux {
		a := &wproc{name: "a1", buf: log.buf()}
		pwg.Add(1)
		d := delays()
		go func() {
			defer pwg.Done()
			<-start
			for k := 0; k < 2; k++ {
				d()
				log.add(a.buf, map[string]any{"op": "aux", "ph": "start", "g": a.name})
				if k == 0 {
					c.Ignore("a/x.go", false)
				} else {
					c.EntryDeleted("a", true)
				}
				log.add(a.buf, map[string]any{"op": "aux", "ph": "end", "g": a.name})
			}
		}()
	}
	for i, p := range cons {
		d := delays()
		go func(p *wproc, k int) {
			p.gid.Store(goid())
			<-start
			for j := 0; j < k && !stop.Load(); j++ {
				d()
				p.inFetch.Store(true)
				log.add(p.buf, map[string]any{"op": "fetch", "ph": "start", "g": p.name})
				dir := c.Fetch(false)
				log.add(p.buf, map[string]any{"op": "fetch", "ph": "end", "g": p.name, "dir": dir})
				p.rets.Add(1)
				p.inFetch.Store(false)
			}
			p.finished.Store(true)
		}(p, cscripts[i])
	}
	for _, p := range cons {
		for p.gid.Load() == 0 {
			runtime.Gosched()
		}
	}
	close(start)
	pwg.Wait()
	// all producers have returned: wait until every consumer is finished or blocked
	// every consumer is finished or inside a Fetch call (nobody between two calls)
	noneBetween := func() bool {
		for _, p := range cons {
			if !p.finished.Load() && !p.inFetch.Load() {
				return false
			}
		}
		return true
	}
	progress := func() (inFlight int, rets int64) {
		for _, p := range cons {
			if p.inFetch.Load() {
				inFlight++
			}
			rets += p.rets.Load()
		}
		return
	}
	// waitDone returns the fetchers that are blocked for good.  The answer is taken only from a
	// stable situation: nobody between two calls before and after the snapshot, no Fetch returned
	// in between, and the in-flight calls are exactly the blocked ones.
	waitDone := func(cap time.Duration) ([]*wproc, bool) {
		deadline := time.Now().Add(cap)
		for {
			if noneBetween() {
				_, r1 := progress()
				blocked, ok := settle(cons, cap)
				if !ok {
					return blocked, false
				}
				n2, r2 := progress()
				if noneBetween() && r1 == r2 && n2 == len(blocked) {
					return blocked, true
				}
			}
			if time.Now().After(deadline) {
				return nil, false
			}
			runtime.Gosched()
		}
	}
	blocked, ok := waitDone(settleCap)
	if !ok {
		if overloaded() {
			return nil, "", "overload"
		}
		note = "not-settled"
	}
	if len(blocked) > 0 {
		// a fetcher blocked although something is pending?  give it the generous cap first
		if dirs, rok := changedOf(c); !rok || len(dirs) > 0 {
			note = "blocked-with-pending"
			t0 := time.Now()
			for time.Since(t0) < wakeCap {
				time.Sleep(20 * time.Millisecond)
				blocked, _ = waitDone(settleCap)
				if len(blocked) == 0 {
					break
				}
				if d2, rok2 := changedOf(c); rok2 && len(d2) == 0 {
					break
				}
				if !rok {
					if time.Since(t0) > 300*time.Millisecond {
						break
					}
				}
			}
			// No overload exemption here: every producer has returned (all broadcasts are done) and the
			// fetcher is parked on the condition variable, so nothing can wake it any more -- the
			// verdict does not depend on timing.  (A run that does not settle at all is exit 2 above.)
		}
	}
	names := []string{}
	for _, p := range blocked {
		names = append(names, p.name)
	}
	sort.Strings(names)
	qb := log.buf()
	log.add(qb, map[string]any{"op": "quiesce", "ph": "-", "blocked": names})
	log.off.Store(true)
	stop.Store(true)
	drain(c, cons)
	evs = log.merged()
	shape = fmt.Sprintf("P%d/C%d/r%d/f%d/aux%v/blocked%d", nP, nC, reports, fetches, withAux, len(names))
	if burst {
		shape = fmt.Sprintf("burst/P%d/r%d", nP, reports)
	}
	return evs, shape, note
}

func goidHash(s string) int {
	h := 0
	for _, c := range s {
		h = h*31 + int(c)
	}
	if h < 0 {
		h = -h
	}
	return h
}

// ------------------------------------------------------------------ replay

type schedItem struct {
	K       string     `json:"k"`
	G       string     `json:"g,omitempty"`
	File    string     `json:"file,omitempty"`
	Parked  []string   `json:"parked,omitempty"`
	Changed []string   `json:"changed,omitempty"`
	Rets    [][]string `json:"rets,omitempty"`
	AtGate  []string   `json:"atgate,omitempty"`
}

type replayCase struct {
	Sched []schedItem `json:"sched"`
}

func obsKey(o schedItem, withChanged bool) string {
	p := append([]string{}, o.Parked...)
	sort.Strings(p)
	g := append([]string{}, o.AtGate...)
	sort.Strings(g)
	var r []string
	for _, x := range o.Rets {
		r = append(r, strings.Join(x, "="))
	}
	sort.Strings(r)
	s := "parked:" + strings.Join(p, ",") + "|rets:" + strings.Join(r, ",") + "|gate:" + strings.Join(g, ",")
	if withChanged {
		ch := append([]string{}, o.Changed...)
		sort.Strings(ch)
		s += "|changed:" + strings.Join(ch, ",")
	}
	return s
}

// The exported behaviours form a tree: obs0 cmd1 obs1 cmd2 obs2 ...  Whether a command is
// legal depends on the outcomes before it, so the harness walks the tree: after every command
// the real observation selects the child to continue in.
type cmdNode struct { // reached after an observation
	next    map[string]*obsNode // by command key
	order   []string
	leafIdx int // index of the CASE record ending here (-1: inner node)
	cmdOf   map[string]schedItem
}

type obsNode struct { // reached after a command: children by observation
	byObs  map[string]*cmdNode // key with p.changed
	byObs2 map[string]*cmdNode // key without p.changed
}

func newCmdNode() *cmdNode {
	return &cmdNode{next: map[string]*obsNode{}, leafIdx: -1, cmdOf: map[string]schedItem{}}
}

func cmdKeyOf(c schedItem) string { return c.K + "(" + c.G + "," + c.File + ")" }

func watcherReplay(args []string) {
	runs := argInt(args, "-runs", 3)
	exhaustive := argInt(args, "-exhaustive", 1) == 1
	tf := openTraceFile("wtraces-replay.ndjson")
	defer tf.close()
	rootDir, _ := os.MkdirTemp(os.Getenv("VERIF_SCRATCH_DIR"), "wroot")
	defer os.RemoveAll(rootDir)

	root := &obsNode{byObs: map[string]*cmdNode{}, byObs2: map[string]*cmdNode{}}
	var leaves [][]schedItem
	hlib.ForEachCase(func(idx int, c *replayCase) {
		leaves = append(leaves, c.Sched)
		on := root
		var cn *cmdNode
		for _, it := range c.Sched {
			if it.K == "obs" {
				k := obsKey(it, true)
				cn = on.byObs[k]
				if cn == nil {
					cn = newCmdNode()
					on.byObs[k] = cn
					on.byObs2[obsKey(it, false)] = cn
				}
			} else {
				k := cmdKeyOf(it)
				on = cn.next[k]
				if on == nil {
					on = &obsNode{byObs: map[string]*cmdNode{}, byObs2: map[string]*cmdNode{}}
					cn.next[k] = on
					cn.order = append(cn.order, k)
					cn.cmdOf[k] = it
				}
			}
		}
		if cn != nil {
			cn.leafIdx = idx
		}
	})
	covered := map[int]bool{}
	nruns, ncand := 0, 0
	for li, path := range leaves {
		if ncand >= 5 {
			break
		}
		for r := 0; r < runs; r++ {
			if r > 0 && covered[li] {
				break // this behaviour was already reproduced exactly
			}
			st := newSteer(rootDir)
			nruns++
			var done []schedItem
			on := root
			var cn *cmdNode
			onPath := true
			pi := 0 // position in path
			mismatch := ""
			stateDrift := ""
			var lastCmd schedItem
			o, ok := st.observe()
			for {
				if !ok {
					mismatch = "not-settled"
					break
				}
				k := obsKey(o, true)
				cn = nil
				if o.Changed != nil {
					cn = on.byObs[k]
				}
				if cn == nil {
					// p.changed is internal state the property does not pin: fall back to what Fetch
					// returned and who is blocked, and report the difference as drift
					if cn = on.byObs2[obsKey(o, false)]; cn != nil && o.Changed != nil && stateDrift == "" {
						stateDrift = fmt.Sprintf("after [%s] p.changed differs from the model: real %q", renderCmds(done), k)
					}
				}
				if cn == nil {
					mismatch = "obs"
					break
				}
				if onPath && (pi >= len(path) || (obsKey(path[pi], true) != k && o.Changed != nil)) {
					onPath = false
				}
				pi++
				if len(cn.order) == 0 || (onPath && pi >= len(path) && cn.leafIdx >= 0) {
					break // terminal (of the whole tree, or of the behaviour being reproduced)
				}
				var ck string
				if onPath && pi < len(path) {
					ck = cmdKeyOf(path[pi])
					pi++
				} else {
					ck = cn.order[(li+r)%len(cn.order)]
				}
				lastCmd = cn.cmdOf[ck]
				done = append(done, lastCmd)
				on = cn.next[ck]
				var note string
				o, ok, note = st.exec(lastCmd)
				if note != "" {
					mismatch = note
					break
				}
			}
			cmdText := renderCmds(done)
			if mismatch == "" && stateDrift != "" {
				st.finish(true)
				hlib.Emit(hlib.Result{Idx: cn.leafIdx, V: "drift", Sig: "replay:state-p.changed", Detail: stateDrift, NT: cmdText})
				continue
			}
			if mismatch == "" {
				evs := st.finish(true)
				covered[cn.leafIdx] = true
				res := hlib.Result{Idx: cn.leafIdx, V: "ok", NT: cmdText, Input: map[string]any{"cmds": cmdText},
					Detail: "steered run reproduced model behaviour " + fmt.Sprint(cn.leafIdx)}
				hlib.Emit(res)
				if nruns%25 == 0 { // a sample of the steered runs is validated by TLC as well
					id := tf.put(map[string]any{"src": "replay", "why": "sample"}, evs)
					hlib.EmitRaw(map[string]any{"v": "trace", "id": id, "src": "replay", "nt": "steered:" + cmdText, "events": len(evs), "note": ""})
				}
				continue
			}
			evs := st.finish(false)
			if mismatch == "not-settled" || strings.HasSuffix(mismatch, "-return") || strings.HasSuffix(mismatch, "-gate") {
				if overloaded() {
					hlib.EmitRaw(map[string]any{"v": "overload", "detail": "replay did not settle within the cap while the machine is overloaded"})
					continue
				}
			}
			// the model does not list this observation after this command prefix: candidate
			// violation, adjudicated by TLC on the steered trace (engine/props/c40.py)
			var want []string
			for k := range on.byObs {
				want = append(want, k)
			}
			sort.Strings(want)
			realK := obsKey(o, o.Changed != nil)
			w0 := ""
			if len(want) > 0 {
				w0 = want[0]
			}
			after := "init"
			if len(done) > 0 {
				after = lastCmd.K
			}
			sig := "replay:after-" + after + ":" + mismatch
			if mismatch == "obs" {
				sig = "replay:after-" + after + ":" + diffClass(realK, w0)
			}
			id := tf.put(map[string]any{"src": "replay", "why": "mismatch"}, evs)
			soft := !exhaustive && mismatch == "obs" // outcome outside the simulated sample: TLC decides
			if !soft {
				ncand++
			}
			hlib.EmitRaw(map[string]any{"v": "cand", "idx": li, "id": id, "src": "replay", "sig": sig, "exhaustive": exhaustive,
				"detail": fmt.Sprintf("after [%s] the real object shows %q; the model allows %q", cmdText, realK, want),
				"input":  map[string]any{"cmds": cmdText}, "nt": cmdText})
			if !soft {
				break
			}
		}
	}
	hlib.EmitRaw(map[string]any{"v": "summary", "replay_behaviours": len(leaves), "replay_runs": nruns,
		"replay_behaviours_reproduced": len(covered)})
}

func renderCmds(cmds []schedItem) string {
	var s []string
	for _, c := range cmds {
		if c.K == "fc" {
			s = append(s, "fc("+c.G+","+c.File+")")
		} else {
			s = append(s, c.K+"("+c.G+")")
		}
	}
	return strings.Join(s, " ")
}

func diffClass(real, want string) string {
	rp, wp := strings.Split(real, "|"), strings.Split(want, "|")
	for i := range rp {
		if i >= len(wp) || rp[i] != wp[i] {
			name := strings.SplitN(rp[i], ":", 2)
			cls := name[0]
			if cls == "rets" {
				if strings.Contains(rp[i], "=,") || strings.HasSuffix(rp[i], "=") {
					return "rets-empty-dir"
				}
				if i < len(wp) && len(rp[i]) > len(wp[i]) {
					return "rets-more"
				}
				if i < len(wp) && len(rp[i]) < len(wp[i]) {
					return "rets-fewer"
				}
				return "rets-other"
			}
			if i < len(wp) {
				if len(rp[i]) > len(wp[i]) {
					return cls + "-more"
				}
				if len(rp[i]) < len(wp[i]) {
					return cls + "-fewer"
				}
			}
			return cls + "-other"
		}
	}
	return "none"
}

type rproc struct {
	wproc
	cmd  chan schedItem
	gate chan struct{} // producers: receives the permission to pass the gate
	at   chan struct{} // producers: signalled on arrival at the gate
	done chan struct{} // call returned
}

// steer drives one fresh Changes object command by command.
type steer struct {
	c      *watcher.Changes
	log    *evlog
	procs  map[string]*rproc
	cons   []*wproc
	atGate map[string]bool
	hb     *evbuf
	retMu  sync.Mutex
	rets   [][]string
	gid    sync.Map
}

func newSteer(rootDir string) *steer {
	st := &steer{c: watcher.NewChanges(rootDir), log: &evlog{}, procs: map[string]*rproc{}, atGate: map[string]bool{}}
	st.hb = st.log.buf()
	gates.Store(st.c, gateFn(func(dir string, n int) {
		v, ok := st.gid.Load(goid())
		if !ok {
			return
		}
		p := v.(*rproc)
		st.log.add(p.buf, map[string]any{"op": "fc", "ph": "gate", "g": p.name, "dir": dir, "n": n})
		p.at <- struct{}{}
		<-p.gate
	}))
	return st
}

func (st *steer) proc(name string, consumer bool) *rproc {
	if p := st.procs[name]; p != nil {
		return p
	}
	c, log := st.c, st.log
	p := &rproc{cmd: make(chan schedItem), gate: make(chan struct{}, 1), at: make(chan struct{}, 1), done: make(chan struct{}, 1)}
	p.name = name
	p.buf = log.buf()
	st.procs[name] = p
	if consumer {
		st.cons = append(st.cons, &p.wproc)
	}
	ready := make(chan struct{})
	go func() {
		id := goid()
		p.gid.Store(id)
		st.gid.Store(id, p)
		close(ready)
		for it := range p.cmd {
			switch it.K {
			case "fc":
				log.add(p.buf, map[string]any{"op": "fc", "ph": "start", "g": p.name, "file": it.File})
				c.FileChanged(it.File)
				log.add(p.buf, map[string]any{"op": "fc", "ph": "end", "g": p.name})
			case "fetch":
				log.add(p.buf, map[string]any{"op": "fetch", "ph": "start", "g": p.name})
				dir := c.Fetch(false)
				log.add(p.buf, map[string]any{"op": "fetch", "ph": "end", "g": p.name, "dir": dir})
				st.retMu.Lock()
				st.rets = append(st.rets, []string{p.name, dir})
				st.retMu.Unlock()
				p.rets.Add(1)
				p.inFetch.Store(false)
			case "aux":
				log.add(p.buf, map[string]any{"op": "aux", "ph": "start", "g": p.name})
				c.Ignore("a/x.go", false)
				log.add(p.buf, map[string]any{"op": "aux", "ph": "end", "g": p.name})
			}
			if it.K != "fetch" {
				p.done <- struct{}{}
			}
		}
	}()
	<-ready
	return p
}

func (st *steer) observe() (schedItem, bool) {
	blocked, ok := settle(st.cons, wakeCap)
	o := schedItem{K: "obs", Parked: []string{}, AtGate: []string{}}
	for _, b := range blocked {
		o.Parked = append(o.Parked, b.name)
		st.log.add(st.hb, map[string]any{"op": "fetch", "ph": "parked", "g": b.name})
	}
	for g := range st.atGate {
		o.AtGate = append(o.AtGate, g)
	}
	st.retMu.Lock()
	o.Rets = st.rets
	st.rets = nil
	st.retMu.Unlock()
	if ok {
		if d, rok := changedOf(st.c); rok {
			o.Changed = d
		}
	}
	return o, ok
}

func waitTok(ch chan struct{}) bool {
	select {
	case <-ch:
		return true
	case <-time.After(wakeCap):
		return false
	}
}

// exec issues one command and returns the observation once nothing moves any more.
func (st *steer) exec(it schedItem) (o schedItem, ok bool, note string) {
	p := st.proc(it.G, it.K == "fetch")
	switch it.K {
	case "fc":
		p.cmd <- it
		if !waitTok(p.at) {
			return o, false, "producer-never-reached-gate"
		}
		st.atGate[it.G] = true
	case "open":
		delete(st.atGate, it.G)
		p.gate <- struct{}{}
		if !waitTok(p.done) {
			return o, false, "filechanged-did-not-return"
		}
	case "fetch":
		if p.inFetch.Load() {
			return o, false, "fetch-still-in-flight"
		}
		p.inFetch.Store(true)
		p.cmd <- it
	case "aux":
		p.cmd <- it
		if !waitTok(p.done) {
			return o, false, "aux-did-not-return"
		}
	}
	o, ok = st.observe()
	return o, ok, ""
}

// finish ends the recorded part (quiesce record if the behaviour is complete), releases
// everything that is still blocked and returns the merged events.
func (st *steer) finish(terminal bool) []map[string]any {
	if terminal && len(st.atGate) == 0 {
		blocked, _ := settle(st.cons, wakeCap)
		names := []string{}
		for _, b := range blocked {
			names = append(names, b.name)
		}
		sort.Strings(names)
		st.log.add(st.hb, map[string]any{"op": "quiesce", "ph": "-", "blocked": names})
	}
	evs := st.log.merged()
	st.log.off.Store(true)
	for g := range st.atGate {
		st.procs[g].gate <- struct{}{}
	}
	drain(st.c, st.cons)
	for _, p := range st.procs {
		if !p.inFetch.Load() {
			close(p.cmd)
		}
	}
	gates.Delete(st.c)
	return evs
}

// ------------------------------------------------------------------ long bursts (S oracle)

type burstResult struct {
	shape, sig, detail, note string
	reports, fetched         int
}

// burstLong: 1-2 producers report `total` distinct directories back-to-back, one consumer fetches in a
// tight loop until it has them all.  The gate hook (after Unlock, before Broadcast) is a seeded yield.
// Judged by the statement itself: every fetched directory was reported before (its FileChanged had
// started), no directory twice (each is reported once), never ""; and once every producer has returned,
// a consumer parked in cond.Wait while directories are still owed is a lost wake-up (nobody is left to
// wake it: no timing involved; the 2 s cap is a courtesy).
func burstLong(rng *rand.Rand, rootDir string, total int) (res burstResult) {
	c := watcher.NewChanges(rootDir)
	nP := 1 + rng.Intn(2)
	total = total/2 + rng.Intn(total/2+1)
	yieldMode := rng.Intn(5)
	prodYield := rng.Intn(3)
	res.shape = fmt.Sprintf("longburst/P%d/gate%d/py%d", nP, yieldMode, prodYield)
	res.reports = total
	var gctr atomic.Uint64
	gates.Store(c, gateFn(func(dir string, n int) {
		h := gctr.Add(1) * 0x9E3779B97F4A7C15 >> 40
		switch yieldMode {
		case 1:
			runtime.Gosched()
		case 2:
			if h%4 == 0 {
				runtime.Gosched()
			}
		case 3:
			if h%8 == 0 {
				spin(time.Duration(h%7) * time.Microsecond)
			}
		}
	}))
	defer gates.Delete(c)
	if havePreLock {
		pm := rng.Intn(4)
		res.shape += fmt.Sprintf("/prelock%d", pm)
		prelocks.Store(c, preLockYield(pm))
		defer prelocks.Delete(c)
	}
	started := make([]atomic.Bool, total)
	var fetchedN = make([]int32, total)
	cons := &wproc{name: "c1"}
	var bad atomic.Value // first structural failure seen by the consumer
	var nfetched atomic.Int64
	var stop atomic.Bool
	start := make(chan struct{})
	var pwg sync.WaitGroup
	for k := 0; k < nP; k++ {
		pwg.Add(1)
		go func(k int) {
			defer pwg.Done()
			<-start
			for i := k; i < total; i += nP {
				started[i].Store(true)
				c.FileChanged(fmt.Sprintf("d%d/f.go", i))
				if prodYield == 1 && i%16 == 0 {
					runtime.Gosched()
				}
			}
		}(k)
	}
	ready := make(chan struct{})
	go func() {
		cons.gid.Store(goid())
		close(ready)
		<-start
		for int(nfetched.Load()) < total && !stop.Load() {
			cons.inFetch.Store(true)
			dir := c.Fetch(false)
			cons.inFetch.Store(false)
			if stop.Load() {
				break
			}
			var i int
			switch {
			case dir == "":
				bad.CompareAndSwap(nil, [2]string{"fetch-returned-empty-dir", "Fetch returned \"\""})
			case len(dir) < 2 || dir[0] != 'd':
				bad.CompareAndSwap(nil, [2]string{"fetch-returned-unreported-dir", "Fetch returned " + dir})
			default:
				if _, err := fmt.Sscanf(dir, "d%d", &i); err != nil || i < 0 || i >= total || !started[i].Load() {
					bad.CompareAndSwap(nil, [2]string{"fetch-returned-unreported-dir", "Fetch returned " + dir + " before any FileChanged for it had started"})
				} else if fetchedN[i]++; fetchedN[i] > 1 {
					bad.CompareAndSwap(nil, [2]string{"fetch-returned-dir-not-pending", "Fetch returned " + dir + " a second time; it was reported once"})
				}
			}
			nfetched.Add(1)
			cons.rets.Add(1)
		}
		cons.finished.Store(true)
	}()
	<-ready
	close(start)
	pwg.Wait()
	// all producers have returned: the consumer must finish; if it parks instead, something is lost
	deadline := time.Now().Add(settleCap)
	var parkedSince time.Time
	for !cons.finished.Load() {
		blocked, ok := settle([]*wproc{cons}, wakeCap)
		if cons.finished.Load() {
			break
		}
		if ok && len(blocked) == 1 {
			if parkedSince.IsZero() {
				parkedSince = time.Now()
			}
			if time.Since(parkedSince) >= wakeCap {
				owed := total - int(nfetched.Load())
				pending, _ := changedOf(c)
				res.sig = "trace:fetcher-blocked-with-pending-dir"
				res.detail = fmt.Sprintf("burst of %d distinct directories by %d producers: every FileChanged has returned, the only consumer has been parked in "+
					"sync.Cond.Wait for %v after fetching %d; %d directories are owed, len(p.changed) = %d", total, nP, wakeCap, nfetched.Load(), owed, len(pending))
				break
			}
			time.Sleep(20 * time.Millisecond)
			continue
		}
		parkedSince = time.Time{}
		if time.Now().After(deadline) {
			if overloaded() {
				res.note = "overload"
			} else {
				res.sig, res.detail = "burst-consumer-neither-done-nor-parked", "consumer still running 10 s after the last FileChanged returned"
			}
			break
		}
		runtime.Gosched()
	}
	res.fetched = int(nfetched.Load())
	if b := bad.Load(); b != nil && res.sig == "" {
		v := b.([2]string)
		res.sig, res.detail = "trace:"+v[0], fmt.Sprintf("burst of %d distinct directories: %s", total, v[1])
	}
	stop.Store(true)
	drain(c, []*wproc{cons})
	return res
}
