package main

import (
	"bufio"
	"bytes"
	"encoding/json"
	"fmt"
	"os"
	"path/filepath"
	"runtime"
	"sort"
	"strconv"
	"strings"
	"sync"
	"sync/atomic"
	"time"
)

// ---------------------------------------------------------------- event log
// One atomic counter numbers every event of a run; each goroutine appends to its own
// buffer, the buffers are merged by sequence number afterwards.

type event struct {
	seq uint64
	m   map[string]any
}

type evbuf struct {
	mu  sync.Mutex // a buffer normally belongs to one goroutine; the underlying streams of C41 are shared
	evs []event
}

type evlog struct {
	ctr  atomic.Uint64
	off  atomic.Bool // logging switched off (after the end of the recorded part)
	mu   sync.Mutex
	bufs []*evbuf
}

func (l *evlog) buf() *evbuf {
	b := &evbuf{}
	l.mu.Lock()
	l.bufs = append(l.bufs, b)
	l.mu.Unlock()
	return b
}

func (l *evlog) add(b *evbuf, m map[string]any) uint64 {
	if l.off.Load() {
		return 0
	}
	b.mu.Lock()
	seq := l.ctr.Add(1)
	b.evs = append(b.evs, event{seq, m})
	b.mu.Unlock()
	return seq
}

func (l *evlog) merged() []map[string]any {
	l.mu.Lock()
	defer l.mu.Unlock()
	var all []event
	for _, b := range l.bufs {
		b.mu.Lock()
		all = append(all, b.evs...)
		b.mu.Unlock()
	}
	sort.Slice(all, func(i, j int) bool { return all[i].seq < all[j].seq })
	out := make([]map[string]any, len(all))
	for i, e := range all {
		out[i] = e.m
	}
	return out
}

// ---------------------------------------------------------------- goroutine states

func goid() uint64 {
	var b [64]byte
	n := runtime.Stack(b[:], false)
	f := bytes.Fields(b[:n])
	if len(f) < 2 {
		return 0
	}
	id, _ := strconv.ParseUint(string(f[1]), 10, 64)
	return id
}

var stackBuf = make([]byte, 4<<20)
var stackMu sync.Mutex

// gstates returns the scheduler state of every goroutine ("running", "runnable",
// "sync.Cond.Wait", "select", "chan receive", ...), taken in one stop-the-world snapshot.
func gstates() map[uint64]string {
	stackMu.Lock()
	defer stackMu.Unlock()
	n := runtime.Stack(stackBuf, true)
	res := map[uint64]string{}
	for _, blk := range bytes.Split(stackBuf[:n], []byte("\n\n")) {
		if !bytes.HasPrefix(blk, []byte("goroutine ")) {
			continue
		}
		eol := bytes.IndexByte(blk, '\n')
		if eol < 0 {
			eol = len(blk)
		}
		hdr := string(blk[len("goroutine "):eol])
		sp := strings.IndexByte(hdr, ' ')
		lb := strings.IndexByte(hdr, '[')
		rb := strings.LastIndexByte(hdr, ']')
		if sp < 0 || lb < 0 || rb < lb {
			continue
		}
		id, err := strconv.ParseUint(hdr[:sp], 10, 64)
		if err != nil {
			continue
		}
		st := hdr[lb+1 : rb]
		if c := strings.IndexByte(st, ','); c >= 0 {
			st = st[:c]
		}
		res[id] = st
	}
	return res
}

func isRunningState(s string) bool {
	return s == "running" || s == "runnable" || s == "syscall" || s == "" || strings.HasPrefix(s, "GC ")
}

// ---------------------------------------------------------------- load

// overloaded reports whether the 1-minute load average exceeds the number of cores.
func overloaded() bool {
	b, err := os.ReadFile("/proc/loadavg")
	if err != nil {
		return false
	}
	f := strings.Fields(string(b))
	if len(f) == 0 {
		return false
	}
	v, err := strconv.ParseFloat(f[0], 64)
	return err == nil && v > float64(runtime.NumCPU())
}

// ---------------------------------------------------------------- trace file

type traceFile struct {
	f *os.File
	w *bufio.Writer
	n int
}

func openTraceFile(name string) *traceFile {
	dir := os.Getenv("VERIF_SCRATCH_DIR")
	if dir == "" {
		dir = "."
	}
	f, err := os.Create(filepath.Join(dir, name))
	if err != nil {
		fmt.Fprintln(os.Stderr, "cannot create trace file:", err)
		os.Exit(3)
	}
	return &traceFile{f: f, w: bufio.NewWriterSize(f, 1<<20)}
}

// put writes one trace (preceded by its reset record) and returns its index in the file.
func (t *traceFile) put(meta map[string]any, evs []map[string]any) int {
	id := t.n
	t.n++
	r := map[string]any{"op": "reset", "ph": "-", "id": id}
	for k, v := range meta {
		r[k] = v
	}
	b, _ := json.Marshal(r)
	t.w.Write(b)
	t.w.WriteByte('\n')
	for _, e := range evs {
		b, _ := json.Marshal(e)
		t.w.Write(b)
		t.w.WriteByte('\n')
	}
	return id
}

func (t *traceFile) close() {
	t.w.Flush()
	t.f.Close()
}

func argInt(args []string, name string, def int) int {
	for i := 0; i+1 < len(args); i++ {
		if args[i] == name {
			if v, err := strconv.Atoi(args[i+1]); err == nil {
				return v
			}
		}
	}
	return def
}

func spin(d time.Duration) {
	t := time.Now()
	for time.Since(t) < d {
	}
}
