//go:build verif && verifprelock

package main

// Optional second hook (hooks/watcher-prelock.diff): verifPreLock(p) immediately before
// p.mutex.Lock() in FileChanged and Fetch.  The engine adds the build tag verifprelock when the
// tree under test has it.  Used as a seeded yield: it widens the window between whatever a
// caller computed before taking the lock and the critical section.

import "github.com/goplus/xgo/x/watcher"

const havePreLock = true

func init() {
	watcher.VerifPreLock = func(p *watcher.Changes) {
		if f, ok := prelocks.Load(p); ok {
			f.(func())()
		}
	}
}
