//go:build !verifprelock

package main

const havePreLock = false
