package main

func fakenetStress(args []string) {}
