package main

// C41 -- x/fakenet Conn: Read / Write (connFeeder.do), the feeder goroutines, Close.
//
// fakenet-stress: seeded runs of a real fakenet connection over underlying streams the harness
// controls (a reader that yields chunks only when released -- or never, like a terminal --, a writer
// that blocks until released; their Close may or may not unblock a pending call).  Writers, readers
// and closers run freely; every call start / end, every call of the underlying streams and every
// underlying Close is logged with a number from one atomic counter.  Checked here (the statement of
// C41, executable): bytes reaching the underlying writer are whole payloads, once, in call order;
// Read data is the stream, in order, nothing twice; a call started after Close returned gives
// (0, EOF); every pending call returns within 2 s of Close returning.  The traces are validated by
// TLC against specs/conc/FakeNetTrace.tla with the channel steps silent.

import (
	"bytes"
	"errors"
	"fmt"
	"io"
	"math/rand"
	"runtime"
	"sort"
	"sync"
	"sync/atomic"
	"time"

	"github.com/goplus/xgo/x/fakenet"

	"verifharness/hlib"
)

const promptCap = 2 * time.Second

var errUnderClosed = errors.New("underlying stream closed")

// ------------------------------------------------------------------ yield hook

var yieldMode atomic.Int64
var yieldCtr atomic.Uint64

func init() {
	fakenet.VerifYield = func(site int) {
		m := yieldMode.Load()
		if m == 0 {
			return
		}
		c := yieldCtr.Add(1)
		h := (c*0x9E3779B97F4A7C15 + uint64(m)*uint64(site+7)) >> 33
		switch h % uint64(3+m%3) {
		case 0:
			runtime.Gosched()
		case 1:
			spin(time.Duration(h%20) * time.Microsecond)
		}
	}
}

// ------------------------------------------------------------------ underlying streams

type under struct {
	log      *evlog
	buf      *evbuf
	rel      chan int      // release tokens
	closedCh chan struct{} // closed by Close when closeUnblocks
	kill     chan struct{} // end of the recorded part
	unblocks bool
	once     sync.Once
	which    string
	inCall   atomic.Bool
}

func (u *under) Close() error {
	u.log.add(u.buf, map[string]any{"op": "uclose", "ph": u.which})
	if u.unblocks {
		u.once.Do(func() { close(u.closedCh) })
	}
	return nil
}

type uReader struct {
	under
	stream []byte
	pos    int
}

func (u *uReader) Read(b []byte) (int, error) {
	u.inCall.Store(true)
	defer u.inCall.Store(false)
	u.log.add(u.buf, map[string]any{"op": "ur", "ph": "enter", "len": len(b)})
	select {
	case want := <-u.rel:
		n := want
		if n > len(b) {
			n = len(b)
		}
		if n > len(u.stream)-u.pos {
			n = len(u.stream) - u.pos
		}
		if n <= 0 {
			if len(b) == 0 {
				u.log.add(u.buf, map[string]any{"op": "ur", "ph": "ret", "n": 0, "err": "nil", "off": u.pos})
				return 0, nil
			}
			u.log.add(u.buf, map[string]any{"op": "ur", "ph": "ret", "n": 0, "err": "eof", "off": 0})
			return 0, io.EOF
		}
		copy(b, u.stream[u.pos:u.pos+n])
		u.log.add(u.buf, map[string]any{"op": "ur", "ph": "ret", "n": n, "err": "nil", "off": u.pos})
		u.pos += n
		return n, nil
	case <-u.closedCh:
		u.log.add(u.buf, map[string]any{"op": "ur", "ph": "ret", "n": 0, "err": "other", "off": 0})
		return 0, errUnderClosed
	case <-u.kill:
		return 0, errUnderClosed
	}
}

type payloadKey struct {
	k, id int
}

type uWriter struct {
	under
	mu       sync.Mutex
	payloads map[payloadKey][]byte
	seen     map[payloadKey]bool
	lastID   map[int]int
	wireBad  []string // S1 failures: structural class
	wireInfo []string
}

func (u *uWriter) Write(b []byte) (int, error) {
	u.inCall.Store(true)
	defer u.inCall.Store(false)
	kname, id := "?", 0
	u.mu.Lock()
	if len(b) >= 2 {
		key := payloadKey{int(b[0]), int(b[1])}
		if full, ok := u.payloads[key]; ok {
			kname, id = fmt.Sprintf("w%d", key.k), key.id
			switch {
			case len(b) > len(full) || !bytes.Equal(b, full[:len(b)]):
				u.wireBad = append(u.wireBad, "modified-payload")
				kname, id = "?", 0
			case len(b) < len(full):
				u.wireBad = append(u.wireBad, "short-payload")
			case u.seen[key]:
				u.wireBad = append(u.wireBad, "duplicate-payload")
			case key.id < u.lastID[key.k]:
				u.wireBad = append(u.wireBad, "out-of-order-payload")
			}
			u.seen[key] = true
			if key.id > u.lastID[key.k] {
				u.lastID[key.k] = key.id
			}
		} else {
			u.wireBad = append(u.wireBad, "unknown-payload")
		}
	} else {
		u.wireBad = append(u.wireBad, "unknown-payload")
	}
	if len(u.wireBad) > len(u.wireInfo) {
		u.wireInfo = append(u.wireInfo, fmt.Sprintf("out.Write got % x", b))
	}
	u.mu.Unlock()
	u.log.add(u.buf, map[string]any{"op": "uw", "ph": "enter", "k": kname, "id": id, "len": len(b)})
	select {
	case <-u.rel:
		u.log.add(u.buf, map[string]any{"op": "uw", "ph": "ret", "n": len(b), "err": "nil"})
		return len(b), nil
	case <-u.closedCh:
		u.log.add(u.buf, map[string]any{"op": "uw", "ph": "ret", "n": 0, "err": "other"})
		return 0, errUnderClosed
	case <-u.kill:
		return 0, errUnderClosed
	}
}

// ------------------------------------------------------------------ one run

type fcall struct {
	g          string
	op         string
	startSeq   uint64
	endSeq     uint64
	n          int
	err        string
	off        int
	dataOK     bool
	returned   bool
	id, length int
}

type fproc struct {
	name  string
	gid   atomic.Uint64
	buf   *evbuf
	calls []*fcall
	mu    sync.Mutex
	done  atomic.Bool
}

func errClass(err error) string {
	switch {
	case err == nil:
		return "nil"
	case err == io.EOF:
		return "eof"
	}
	return "other"
}

func payloadOf(k, id, n int) []byte {
	b := make([]byte, n)
	b[0], b[1] = byte(k), byte(id)
	for i := 2; i < n; i++ {
		b[i] = byte(0x40 + (k*31+id*7+i*3)%0x3f)
	}
	return b
}

type fnResult struct {
	evs    []map[string]any
	shape  string
	viols  [][2]string // (sig, detail)
	note   string
	ncalls int
}

func fakenetOne(rng *rand.Rand) fnResult {
	log := &evlog{}
	nW, nR := 1+rng.Intn(3), 1+rng.Intn(2)
	nX := 1
	if rng.Intn(5) == 0 {
		nX = 2
	}
	yieldMode.Store(int64(rng.Intn(6)))
	streamLen := 4 + rng.Intn(40)
	in := &uReader{stream: make([]byte, streamLen)}
	for i := range in.stream {
		in.stream[i] = byte(i + 1)
	}
	in.under = under{log: log, buf: log.buf(), rel: make(chan int), closedCh: make(chan struct{}), kill: make(chan struct{}), unblocks: rng.Intn(2) == 0, which: "in"}
	out := &uWriter{payloads: map[payloadKey][]byte{}, seen: map[payloadKey]bool{}, lastID: map[int]int{}}
	out.under = under{log: log, buf: log.buf(), rel: make(chan int), closedCh: make(chan struct{}), kill: make(chan struct{}), unblocks: rng.Intn(2) == 0, which: "out"}
	readStall := rng.Intn(3) == 0  // the underlying reader never yields anything (a terminal)
	writeStall := rng.Intn(4) == 0 // the underlying writer blocks for ever after a few writes
	writeBudget := rng.Intn(4)

	var procs []*fproc
	var writers, readers []*fproc
	wscripts := map[string][]int{}
	rscripts := map[string][]int{}
	for i := 1; i <= nW; i++ {
		p := &fproc{name: fmt.Sprintf("w%d", i), buf: log.buf()}
		writers = append(writers, p)
		procs = append(procs, p)
		var lens []int
		for k := 1 + rng.Intn(3); k > 0; k-- {
			lens = append(lens, 3+rng.Intn(6))
		}
		lens = append(lens, 3+rng.Intn(6)) // the last one is issued after Close has returned
		wscripts[p.name] = lens
		for id, n := range lens {
			out.payloads[payloadKey{i, id + 1}] = payloadOf(i, id+1, n)
		}
	}
	for i := 1; i <= nR; i++ {
		p := &fproc{name: fmt.Sprintf("r%d", i), buf: log.buf()}
		readers = append(readers, p)
		procs = append(procs, p)
		var lens []int
		for k := 1 + rng.Intn(3); k > 0; k-- {
			lens = append(lens, 1+rng.Intn(6))
		}
		lens = append(lens, 1+rng.Intn(6))
		rscripts[p.name] = lens
	}

	conn := fakenet.NewConn("verif", in, out)
	start := make(chan struct{})
	closeReturned := make(chan struct{})
	var closeOnce sync.Once
	var closeEndSeq atomic.Uint64
	var wg sync.WaitGroup
	mkDelay := func() func() {
		r := rand.New(rand.NewSource(rng.Int63()))
		return func() {
			switch r.Intn(4) {
			case 0:
				runtime.Gosched()
			case 1:
				spin(time.Duration(r.Intn(40)) * time.Microsecond)
			case 2:
				time.Sleep(time.Duration(r.Intn(200)) * time.Microsecond)
			}
		}
	}
	runCaller := func(p *fproc, isWriter bool, idx int, lens []int, d func()) {
		defer wg.Done()
		defer p.done.Store(true)
		p.gid.Store(goid())
		<-start
		for i, n := range lens {
			if i == len(lens)-1 {
				<-closeReturned // started after Close has returned
			} else {
				d()
			}
			c := &fcall{g: p.name, length: n, id: i + 1}
			p.mu.Lock()
			p.calls = append(p.calls, c)
			p.mu.Unlock()
			if isWriter {
				c.op = "write"
				b := payloadOf(idx, i+1, n)
				c.startSeq = log.add(p.buf, map[string]any{"op": "write", "ph": "start", "g": p.name, "id": i + 1, "len": n})
				m, err := conn.Write(b)
				c.n, c.err = m, errClass(err)
				c.endSeq = log.add(p.buf, map[string]any{"op": "write", "ph": "end", "g": p.name, "n": m, "err": c.err})
			} else {
				c.op = "read"
				b := make([]byte, n)
				c.startSeq = log.add(p.buf, map[string]any{"op": "read", "ph": "start", "g": p.name, "len": n})
				m, err := conn.Read(b)
				c.n, c.err = m, errClass(err)
				c.dataOK = true
				if m > 0 && m <= len(b) {
					c.off = int(b[0]) - 1
					for j := 0; j < m; j++ {
						if int(b[j]) != c.off+j+1 {
							c.dataOK = false
						}
					}
				} else if m != 0 {
					c.dataOK = false
				}
				c.endSeq = log.add(p.buf, map[string]any{"op": "read", "ph": "end", "g": p.name, "n": m, "err": c.err, "off": c.off})
			}
			p.mu.Lock()
			c.returned = true
			p.mu.Unlock()
		}
	}
	for i, p := range writers {
		wg.Add(1)
		go runCaller(p, true, i+1, wscripts[p.name], mkDelay())
	}
	for _, p := range readers {
		wg.Add(1)
		go runCaller(p, false, 0, rscripts[p.name], mkDelay())
	}
	// closers
	closeAfter := uint64(rng.Intn(45)) // Close is called once this many events have been logged
	if rng.Intn(6) == 0 {
		closeAfter = 0
	}
	var closers []*fproc
	closeDone := make(chan struct{}, 2)
	for i := 1; i <= nX; i++ {
		p := &fproc{name: fmt.Sprintf("x%d", i), buf: log.buf()}
		closers = append(closers, p)
		go func(p *fproc, extra time.Duration) {
			p.gid.Store(goid())
			<-start
			for t0 := time.Now(); log.ctr.Load() < closeAfter && time.Since(t0) < 30*time.Millisecond; {
				time.Sleep(10 * time.Microsecond)
			}
			time.Sleep(extra)
			log.add(p.buf, map[string]any{"op": "close", "ph": "start", "g": p.name})
			conn.Close()
			closeEndSeq.CompareAndSwap(0, log.add(p.buf, map[string]any{"op": "close", "ph": "end", "g": p.name}))
			p.done.Store(true)
			closeOnce.Do(func() { close(closeReturned) })
			closeDone <- struct{}{}
		}(p, time.Duration(rng.Intn(50))*time.Microsecond)
	}
	// environment: releases underlying calls
	envStop := make(chan struct{})
	var envWG sync.WaitGroup
	envWG.Add(1)
	envSeed := rng.Int63()
	go func() {
		defer envWG.Done()
		r := rand.New(rand.NewSource(envSeed))
		<-start
		for {
			select {
			case <-envStop:
				return
			default:
			}
			switch r.Intn(3) {
			case 0:
				if !readStall {
					select {
					case in.rel <- 1 + r.Intn(5):
					default:
					}
				}
			case 1:
				if !writeStall || writeBudget > 0 {
					select {
					case out.rel <- 1:
						writeBudget--
					default:
					}
				}
			}
			switch r.Intn(3) {
			case 0:
				runtime.Gosched()
			case 1:
				spin(time.Duration(r.Intn(30)) * time.Microsecond)
			default:
				time.Sleep(time.Duration(r.Intn(100)) * time.Microsecond)
			}
		}
	}()
	for _, p := range procs {
		for p.gid.Load() == 0 {
			runtime.Gosched()
		}
	}
	close(start)

	res := fnResult{}
	fail := func(sig, detail string) { res.viols = append(res.viols, [2]string{sig, detail}) }
	// Close must return
	closedOK := 0
	tmo := time.After(promptCap + time.Second)
	for closedOK < nX {
		select {
		case <-closeDone:
			closedOK++
		case <-tmo:
			st := gstates()
			stuck := false
			for _, p := range closers {
				if !p.done.Load() && !isRunningState(st[p.gid.Load()]) {
					stuck = true
					fail("close-did-not-return:"+st[p.gid.Load()], "Close has not returned after 3 s; goroutine state "+st[p.gid.Load()])
				}
			}
			if !stuck {
				res.note = "overload"
			}
			closedOK = nX
			closeOnce.Do(func() { close(closeReturned) })
		}
	}
	tClose := time.Now()
	// every pending call, and the calls started afterwards, must return promptly
	allDone := make(chan struct{})
	go func() { wg.Wait(); close(allDone) }()
	select {
	case <-allDone:
	case <-time.After(promptCap):
		// A goroutine that close(done) has made runnable but that did not get the CPU shows as
		// running/runnable: that is load, not the connection.  A goroutine that is still parked on a
		// channel 2 s after Close returned was not released by Close.
		time.Sleep(50 * time.Millisecond)
		st := gstates()
		for _, p := range procs {
			if p.done.Load() {
				continue
			}
			s := st[p.gid.Load()]
			p.mu.Lock()
			var cur *fcall
			if len(p.calls) > 0 && !p.calls[len(p.calls)-1].returned {
				cur = p.calls[len(p.calls)-1]
			}
			p.mu.Unlock()
			if cur == nil || isRunningState(s) {
				res.note = "overload"
				continue
			}
			when := "pending"
			if cur.id == len(wscripts[p.name])+len(rscripts[p.name]) {
				when = "started-after-close"
			}
			fail(fmt.Sprintf("not-released:%s:%s:%s", cur.op, when, s),
				fmt.Sprintf("%s %s call #%d has not returned %v after Close returned; goroutine state %q (underlying reader stalls=%v, writer stalls=%v)",
					p.name, cur.op, cur.id, time.Since(tClose).Round(time.Millisecond), s, readStall, writeStall))
		}
	}
	hb := log.buf()
	complete := true
	for _, p := range procs {
		if !p.done.Load() {
			complete = false
		}
	}
	if complete && res.note == "" {
		log.add(hb, map[string]any{"op": "final", "ph": "-"})
	}
	log.off.Store(true)
	close(envStop)
	close(in.kill)
	close(out.kill)
	envWG.Wait()
	res.evs = log.merged()

	// ---- the statement of C41, executable on the recorded calls
	out.mu.Lock()
	for i, b := range out.wireBad {
		fail("wire:"+b, out.wireInfo[i])
	}
	out.mu.Unlock()
	ce := closeEndSeq.Load()
	var reads []*fcall
	for _, p := range procs {
		p.mu.Lock()
		for _, c := range p.calls {
			res.ncalls++
			if !c.returned {
				continue
			}
			if ce != 0 && c.startSeq > ce && !(c.n == 0 && c.err == "eof") {
				cls := "error-" + c.err
				if c.err == "nil" {
					cls = "success"
				}
				fail("after-close:"+c.op+":"+cls, fmt.Sprintf("%s %s #%d started after Close had returned gave (%d, %s)", p.name, c.op, c.id, c.n, c.err))
			}
			if c.op == "write" && c.err == "nil" && c.n != c.length {
				fail("write:short-count", fmt.Sprintf("%s Write #%d of %d bytes returned (%d, nil)", p.name, c.id, c.length, c.n))
			}
			if c.op == "read" {
				if !c.dataOK || c.n > c.length {
					fail("read:corrupt-data", fmt.Sprintf("%s Read #%d returned n=%d with bytes that are not a piece of the stream", p.name, c.id, c.n))
				} else if c.n > 0 {
					reads = append(reads, c)
				}
			}
		}
		p.mu.Unlock()
	}
	sort.Slice(reads, func(i, j int) bool { return reads[i].off < reads[j].off })
	for i := 0; i+1 < len(reads); i++ {
		a, b := reads[i], reads[i+1]
		if a.off+a.n > b.off {
			fail("read:duplicate-bytes", fmt.Sprintf("Reads returned overlapping pieces [%d,%d) and [%d,%d)", a.off, a.off+a.n, b.off, b.off+b.n))
		} else if b.endSeq < a.startSeq {
			fail("read:out-of-order", fmt.Sprintf("a Read that finished earlier got the later piece [%d,%d) vs [%d,%d)", b.off, b.off+b.n, a.off, a.off+a.n))
		}
	}
	res.shape = fmt.Sprintf("W%d/R%d/X%d/rstall=%v/wstall=%v/in-unblocks=%v/out-unblocks=%v", nW, nR, nX, readStall, writeStall, in.unblocks, out.unblocks)
	return res
}

func fakenetStress(args []string) {
	n := argInt(args, "-n", 300)
	seed := hlib.Seed()
	tf := openTraceFile("ftraces-stress.ndjson")
	defer tf.close()
	calls := 0
	for i := 0; i < n; i++ {
		rng := rand.New(rand.NewSource(seed*7000003 + int64(i)))
		r := fakenetOne(rng)
		calls += r.ncalls
		if r.note == "overload" && len(r.viols) == 0 {
			if overloaded() {
				hlib.EmitRaw(map[string]any{"v": "overload", "detail": "calls were runnable but had not returned within the cap while the machine is overloaded"})
				continue
			}
			r.viols = append(r.viols, [2]string{"not-returned-while-runnable", "a call stayed runnable for 2 s on an idle machine"})
		}
		id := tf.put(map[string]any{"src": "stress"}, r.evs)
		if len(r.viols) > 0 {
			seen := map[string]bool{}
			for _, v := range r.viols {
				if seen[v[0]] {
					continue
				}
				seen[v[0]] = true
				hlib.EmitRaw(map[string]any{"v": "viol", "id": id, "sig": v[0], "detail": v[1], "nt": r.shape, "input": map[string]any{"run": i, "shape": r.shape}})
			}
			continue
		}
		hlib.EmitRaw(map[string]any{"v": "trace", "id": id, "src": "stress", "nt": r.shape, "events": len(r.evs)})
	}
	hlib.EmitRaw(map[string]any{"v": "summary", "fakenet_calls": calls})
}
