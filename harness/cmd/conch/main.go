// conch: conformance harness for the concurrency-shaped properties
// (C40 x/watcher Changes, C41 x/fakenet Conn).
package main

import (
	"fmt"
	"os"

	"verifharness/hlib"
)

func main() {
	if len(os.Args) < 2 {
		fmt.Fprintln(os.Stderr, "usage: conch watcher-stress|watcher-replay|fakenet-stress [args] < cases.ndjson")
		os.Exit(3)
	}
	switch os.Args[1] {
	case "watcher-stress":
		watcherStress(os.Args[2:])
	case "watcher-replay":
		watcherReplay(os.Args[2:])
	case "fakenet-stress":
		fakenetStress(os.Args[2:])
	default:
		fmt.Fprintln(os.Stderr, "unknown mode", os.Args[1])
		os.Exit(3)
	}
	hlib.Flush()
}
