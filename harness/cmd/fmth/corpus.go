package main

import (
	"encoding/json"
	"fmt"
	"io/fs"
	"os"
	"path/filepath"
	"sort"

	"github.com/goplus/xgo/token"

	"verifharness/hlib"
)

// corpus mode: every .xgo/.gop/.gox file below root that the parser accepts goes through the same
// judgements as the model-driven cases.  TLC has no part in choosing these files; they are counted
// separately (summary line) and never replace the model-driven enumeration.
func runFmtCorpus(which, root string) {
	if os.Getenv("FMTH_WORKER") != "" {
		base := 0
		fmt.Sscanf(os.Getenv("FMTH_BASE"), "%d", &base)
		hlib.ForEachCase(func(i int, c *corpusCase) {
			r := checkCorpusFile(which, root, c.File)
			r.Idx = base + i
			hlib.Emit(r)
			hlib.Flush()
		})
		return
	}
	var files []string
	filepath.WalkDir(root, func(path string, d fs.DirEntry, err error) error {
		if err != nil {
			return nil
		}
		if d.IsDir() {
			if d.Name() == ".git" {
				return filepath.SkipDir
			}
			return nil
		}
		switch filepath.Ext(path) {
		case ".xgo", ".gop", ".gox":
			files = append(files, path)
		}
		return nil
	})
	sort.Strings(files)
	lines := make([][]byte, len(files))
	for i, f := range files {
		lines[i], _ = json.Marshal(corpusCase{File: f})
	}
	out := superviseChunks(which, "corpus", lines, root)
	n := 0
	for i := range out {
		if out[i].V != "skip" || out[i].Sig != "" {
			n++
		}
		out[i].Idx = -1 // a corpus file is not a CASE record
		hlib.Emit(out[i])
	}
	hlib.EmitRaw(map[string]any{"v": "summary", "corpus_files_seen": len(files), "corpus_files_parsed": n})
}

type corpusCase struct {
	File string `json:"file"`
}

func checkCorpusFile(which, root, path string) hlib.Result {
	rel, _ := filepath.Rel(root, path)
	in := map[string]any{"file": rel}
	src, err := os.ReadFile(path)
	if err != nil {
		return hlib.Result{V: "skip", Detail: rel + ": unreadable"}
	}
	class := filepath.Ext(path) == ".gox"
	r := runFormat(src, class)
	if r.in == nil && r.panicked == "" {
		return hlib.Result{V: "skip", Detail: rel + ": does not parse"}
	}
	res := hlib.Result{V: "ok", Input: in, NT: "corpus:" + rel}
	if r.panicked != "" {
		res.V, res.Sig, res.Detail = "viol", "panic:"+which, rel+": "+r.panicked
		return res
	}
	var vd *verdict
	switch which {
	case "c19":
		vd = judge19(r)
	case "c20":
		vd = judge20(r)
		if vd != nil && vd.sig == "not-idempotent" {
			pl := diffPlace(r)
			vd.sig += ":" + pl.cause("gap")
			vd.detail = "place " + pl.String() + "\n" + vd.detail
		}
	case "c21":
		rt, _ := scanAll(src)
		_, cm := tokensAndComments(rt)
		var blame int
		vd, blame = judge21(r, cm)
		if vd != nil {
			// structural place of the offending comment in the input
			k := 0
			for _, t := range rt {
				if t.tok != token.COMMENT {
					continue
				}
				if k == blame {
					kind := "/*"
					if len(t.lit) > 1 && t.lit[0] == '/' && t.lit[1] == '/' {
						kind = "//"
					} else if len(t.lit) > 0 && t.lit[0] == '#' {
						kind = "#"
					}
					if kind == "#" {
						kind = "//"
					}
					pl := placeAt(src, r.in, r.inFset, t.pos, t.end-t.pos)
					vd.sig += ":" + pl.cause(kind)
					vd.detail = "place " + pl.String() + ":" + kind + "\n" + vd.detail
					break
				}
				k++
			}
		}
	}
	if vd != nil {
		v := vd.v
		if v == "skip" {
			return hlib.Result{V: "skip", Sig: vd.sig, Detail: rel + ": " + vd.detail}
		}
		res.V, res.Sig, res.Detail = v, vd.sig, rel+": "+clip(vd.detail, 3000)
	} else {
		res.Detail = fmt.Sprintf("%d bytes", len(r.out1))
	}
	return res
}
