package main

import (
	"fmt"
	"io/fs"
	"os"
	"path/filepath"
	"sort"

	"github.com/goplus/xgo/token"

	"verifharness/hlib"
)

// corpus mode: every .xgo/.gop/.gox file below root that the parser accepts goes through the same
// judgements as the model-driven cases.  TLC has no part in choosing these files; they are counted
// separately (summary line) and never replace the model-driven enumeration.
func runFmtCorpus(which, root string) {
	var files []string
	filepath.WalkDir(root, func(path string, d fs.DirEntry, err error) error {
		if err != nil {
			return nil
		}
		if d.IsDir() {
			if d.Name() == ".git" {
				return filepath.SkipDir
			}
			return nil
		}
		switch filepath.Ext(path) {
		case ".xgo", ".gop", ".gox":
			files = append(files, path)
		}
		return nil
	})
	sort.Strings(files)
	outs := make([]hlib.Result, len(files))
	parsed := make([]bool, len(files))
	hlib.Parallel(len(files), 8, func(i int) {
		path := files[i]
		rel, _ := filepath.Rel(root, path)
		in := map[string]any{"file": rel}
		src, err := os.ReadFile(path)
		if err != nil {
			outs[i] = hlib.Result{Idx: -1, V: "skip", Detail: rel + ": unreadable"}
			return
		}
		class := filepath.Ext(path) == ".gox"
		r := runFormat(src, class)
		if r.in == nil && r.panicked == "" {
			outs[i] = hlib.Result{Idx: -1, V: "skip", Detail: rel + ": does not parse"}
			return
		}
		parsed[i] = true
		res := hlib.Result{Idx: -1, V: "ok", Input: in, NT: "corpus:" + rel}
		if r.panicked != "" {
			res.V, res.Sig, res.Detail = "viol", "panic:"+which, rel+": "+r.panicked
			outs[i] = res
			return
		}
		var vd *verdict
		switch which {
		case "c19":
			vd = judge19(r)
		case "c20":
			vd = judge20(r)
			if vd != nil && vd.sig == "not-idempotent" {
				vd.sig += ":" + diffPlace(r).String() + ":corpus"
			}
		case "c21":
			rt, _ := scanAll(src)
			_, cm := tokensAndComments(rt)
			var blame int
			vd, blame = judge21(r, cm)
			if vd != nil {
				// structural place of the offending comment in the input
				k := 0
				for _, t := range rt {
					if t.tok != token.COMMENT {
						continue
					}
					if k == blame {
						kind := "/*"
						if len(t.lit) > 1 && t.lit[0] == '/' && t.lit[1] == '/' {
							kind = "//"
						} else if len(t.lit) > 0 && t.lit[0] == '#' {
							kind = "#"
						}
						vd.sig += ":" + placeAt(src, r.in, r.inFset, t.pos, t.end-t.pos).String() + ":" + kind
						break
					}
					k++
				}
			}
		}
		if vd != nil {
			res.V, res.Sig, res.Detail = vd.v, vd.sig, rel+": "+clip(vd.detail, 3000)
		} else {
			res.Detail = fmt.Sprintf("%d bytes", len(r.out1))
		}
		outs[i] = res
	})
	n := 0
	for i, r := range outs {
		if parsed[i] {
			n++
		}
		hlib.Emit(r)
	}
	hlib.EmitRaw(map[string]any{"v": "summary", "corpus_files_seen": len(files), "corpus_files_parsed": n})
}
