package main

import (
	"fmt"
	"reflect"
	"sort"
	"strconv"
	"strings"

	"github.com/goplus/xgo/ast"
	"github.com/goplus/xgo/token"
)

// Canonical form of a syntax tree "modulo positions, comment placement and the order of imports within a
// group" (property C19): a reflection walk over every exported field of every node.  Dropped: token.Pos
// fields (except the few the ast uses as FLAGS, which are printed as 0/1), comments, scopes/objects,
// File.Imports/Comments/Code/ShadowEntry (derived data).  The specs of an import declaration are sorted and
// exact duplicates removed (ast.SortImports may reorder them and drop duplicates: property C23 looks at
// that).  A difference in this form is a structural difference of the trees.

var (
	tPos      = reflect.TypeOf(token.NoPos)
	tTok      = reflect.TypeOf(token.ILLEGAL)
	tCG       = reflect.TypeOf((*ast.CommentGroup)(nil))
	tObj      = reflect.TypeOf((*ast.Object)(nil))
	tScope    = reflect.TypeOf((*ast.Scope)(nil))
	tFile     = reflect.TypeOf(ast.File{})
	tFuncDecl = reflect.TypeOf((*ast.FuncDecl)(nil))
)

// position fields whose validity is syntax, not layout
var flagPos = map[string]bool{
	"CallExpr.NoParenEnd": true, "CallExpr.Ellipsis": true, "SendStmt.Ellipsis": true, "EnvExpr.Rbrace": true,
	"GenDecl.Lparen": true, "TypeSpec.Assign": true,
}

var skipField = map[string]bool{
	"File.Imports": true, "File.Comments": true, "File.Code": true, "File.ShadowEntry": true, "File.Doc": true,
	"File.IsProj": true, "File.IsNormalGox": true, "File.Package": true,
	"EmptyStmt.Implicit": true, "DomainTextLitEx.Raw": true,
}

type canonNode struct {
	kind string
	attr []string
	kids []*canonNode
	fld  string // field of the parent this node sits in
}

func canonOf(n ast.Node) *canonNode {
	c := canonValue(reflect.ValueOf(n), "")
	if c == nil {
		return &canonNode{kind: "_"}
	}
	return c
}

func canonValue(v reflect.Value, fld string) *canonNode {
	switch v.Kind() {
	case reflect.Interface, reflect.Ptr:
		if v.IsNil() {
			return nil
		}
		if v.Kind() == reflect.Ptr {
			switch v.Type() {
			case tCG, tObj, tScope:
				return nil
			}
		}
		return canonValue(v.Elem(), fld)
	case reflect.Struct:
		t := v.Type()
		if t.PkgPath() != "github.com/goplus/xgo/ast" {
			return nil // e.g. a tpl file hanging off a domain text literal: its text is compared as the literal
		}
		c := &canonNode{kind: t.Name(), fld: fld}
		for i := 0; i < t.NumField(); i++ {
			f := t.Field(i)
			if !f.IsExported() {
				continue
			}
			key := t.Name() + "." + f.Name
			if skipField[key] {
				continue
			}
			fv := v.Field(i)
			if f.Type == tCG || f.Type == tObj || f.Type == tScope {
				continue
			}
			if f.Type == tPos {
				if flagPos[key] {
					c.attr = append(c.attr, f.Name+"="+strconv.FormatBool(token.Pos(fv.Int()).IsValid()))
				}
				continue
			}
			canonField(c, fv, f.Name)
		}
		if t.Name() == "GenDecl" && v.FieldByName("Tok").Int() == int64(token.IMPORT) {
			sortImportSpecs(c)
		}
		return c
	}
	return nil
}

func canonField(c *canonNode, fv reflect.Value, name string) {
	switch fv.Kind() {
	case reflect.String:
		c.attr = append(c.attr, name+"="+strconv.Quote(fv.String()))
	case reflect.Bool:
		if fv.Bool() {
			c.attr = append(c.attr, name)
		}
	case reflect.Int, reflect.Int8, reflect.Int16, reflect.Int32, reflect.Int64:
		if fv.Type() == tTok {
			c.attr = append(c.attr, name+"="+token.Token(fv.Int()).String())
		} else {
			c.attr = append(c.attr, name+"="+strconv.FormatInt(fv.Int(), 10))
		}
	case reflect.Uint, reflect.Uint8, reflect.Uint16, reflect.Uint32, reflect.Uint64:
		c.attr = append(c.attr, name+"="+strconv.FormatUint(fv.Uint(), 10))
	case reflect.Slice:
		if fv.Type().Elem().Kind() == reflect.Uint8 {
			return
		}
		for j := 0; j < fv.Len(); j++ {
			ev := fv.Index(j)
			if ev.Kind() == reflect.Slice { // MatrixLit rows
				row := &canonNode{kind: "row", fld: name}
				for k := 0; k < ev.Len(); k++ {
					canonElem(row, ev.Index(k), name)
				}
				c.kids = append(c.kids, row)
				continue
			}
			canonElem(c, ev, name)
		}
	case reflect.Interface, reflect.Ptr, reflect.Struct:
		if k := canonValue(fv, name); k != nil {
			c.kids = append(c.kids, k)
		} else if fv.Kind() != reflect.Struct && fv.IsNil() {
			// absent optional child: keep the slot so that Low/High of a slice expression cannot be confused
			c.kids = append(c.kids, &canonNode{kind: "_", fld: name})
		}
	}
}

func canonElem(c *canonNode, ev reflect.Value, name string) {
	if ev.Kind() == reflect.Interface && !ev.IsNil() && ev.Elem().Kind() == reflect.String {
		c.kids = append(c.kids, &canonNode{kind: "str", fld: name, attr: []string{strconv.Quote(ev.Elem().String())}})
		return
	}
	if k := canonValue(ev, name); k != nil {
		c.kids = append(c.kids, k)
	} else {
		c.kids = append(c.kids, &canonNode{kind: "_", fld: name})
	}
}

func sortImportSpecs(c *canonNode) {
	var specs, rest []*canonNode
	for _, k := range c.kids {
		if k.kind == "ImportSpec" {
			specs = append(specs, k)
		} else {
			rest = append(rest, k)
		}
	}
	// by the import path itself (not its spelling), then by the whole spec
	key := func(c *canonNode) string { return importPathOf(c) + "\x00" + c.String() }
	sort.SliceStable(specs, func(i, j int) bool { return key(specs[i]) < key(specs[j]) })
	var uniq []*canonNode
	for i, s := range specs {
		if i > 0 && s.String() == specs[i-1].String() {
			continue
		}
		uniq = append(uniq, s)
	}
	c.kids = append(rest, uniq...)
}

// litValue is the unquoted value of a canonical BasicLit string node ("" if it is none).
func litValue(c *canonNode) string {
	for _, a := range c.attr {
		if strings.HasPrefix(a, "Value=") {
			if v, err := strconv.Unquote(a[len("Value="):]); err == nil {
				if u, err := strconv.Unquote(v); err == nil {
					return u
				}
			}
		}
	}
	return ""
}

func importPathOf(spec *canonNode) string {
	for _, k := range spec.kids {
		if k.fld == "Path" {
			return litValue(k)
		}
	}
	return ""
}

func (c *canonNode) String() string {
	var b strings.Builder
	c.write(&b)
	return b.String()
}

func (c *canonNode) write(b *strings.Builder) {
	if c.kind == "_" {
		b.WriteString("_")
		return
	}
	b.WriteByte('(')
	b.WriteString(c.kind)
	for _, a := range c.attr {
		b.WriteByte(' ')
		b.WriteString(a)
	}
	for _, k := range c.kids {
		b.WriteByte(' ')
		k.write(b)
	}
	b.WriteByte(')')
}

func (c *canonNode) head() string {
	if c.kind == "_" {
		return "nil"
	}
	s := c.kind
	for _, a := range c.attr {
		if strings.HasPrefix(a, "Op=") || strings.HasPrefix(a, "Tok=") {
			s += "[" + a[strings.Index(a, "=")+1:] + "]"
		}
	}
	return s
}

// firstDiff locates the first structural difference of two canonical trees (preorder):
// a structural signature "<parent kind>.<field>:<kind in>-><kind out>" and a readable detail.
func firstDiff(x, y *canonNode, parent string) (sig, detail string, differ bool) {
	where := parent
	if x.fld != "" {
		where = parent + "." + x.fld
	}
	if x.kind == "ParenExpr" && y.kind != "ParenExpr" {
		// the parentheses are gone (what is inside does not matter for the cause)
		if parent != "ParenExpr" {
			// printer stripParens (controlClause, switch tag, range operand, parameter / result types): one cause
			return "ParenExpr-dropped:stripParens", fmt.Sprintf("at %s: %s became %s", where, clip(x.String(), 200), clip(y.String(), 200)), true
		}
		return "ParenExpr-dropped:double-parentheses", fmt.Sprintf("%s became %s", clip(x.String(), 200), clip(y.String(), 200)), true
	}
	if x.kind != y.kind {
		return fmt.Sprintf("%s:%s->%s", where, x.head(), y.head()), fmt.Sprintf("%s became %s", clip(x.String(), 200), clip(y.String(), 200)), true
	}
	if parent == "ImportSpec" && x.fld == "Path" && strings.Join(x.attr, " ") != strings.Join(y.attr, " ") && litValue(x) != "" && litValue(x) == litValue(y) {
		// same path, other spelling: printer sanitizeImportPath rewrites raw / escaped import paths
		return "ImportSpec.Path:spelling-canonicalised", fmt.Sprintf("import path %v became %v", x.attr, y.attr), true
	}
	if strings.Join(x.attr, " ") != strings.Join(y.attr, " ") {
		return fmt.Sprintf("%s:%s:attr", where, x.kind), fmt.Sprintf("%s %v became %v", x.kind, x.attr, y.attr), true
	}
	n := len(x.kids)
	if len(y.kids) < n {
		n = len(y.kids)
	}
	for i := 0; i < n; i++ {
		if s, d, ok := firstDiff(x.kids[i], y.kids[i], x.kind); ok {
			return s, d, true
		}
	}
	if len(x.kids) != len(y.kids) {
		return fmt.Sprintf("%s:%s:arity", where, x.kind), fmt.Sprintf("%s has %d children, became %d: %s / %s", x.kind, len(x.kids), len(y.kids), clip(x.String(), 200), clip(y.String(), 200)), true
	}
	return "", "", false
}

func clip(s string, n int) string {
	if len(s) > n {
		return s[:n] + "..."
	}
	return s
}

var _ = tFile
var _ = tFuncDecl
