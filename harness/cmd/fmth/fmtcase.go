package main

// CASE RECORD of specs/fmt/Layout.tla (one per presentation explored by TLC):
//
//	{"focus": tree family, "cls": class file?, "base": base layout, "mut": "" | "mutated", "ned": gap deviations,
//	 "t":     <tree>  the abstract tree WITH the parentheses a correct rendering needs (syntree JSON shape),
//	 "toks":  [spelling...]            tokens of t (Flat), separators are ";"
//	 "src":   [string...]              the rendering, item by item (token | white space | comment)
//	 "ik":    ["t"|"w"|"c"|"l"...]     kind of every item (token, white space, general comment, line comment)
//	 "scan":  [spelling...]            what the scanner must deliver for the rendering (model theorem RescanOK)
//	 "spans": [{"k","f","l"}...]       first/last token of every node, preorder
//	 "cms":   [{"b": boundary 0..n, "k": "//"|"/*"|"/*o"|"#", "pre": before the white space?, "tx": text}...]}
//
// The harness joins src, checks the MODEL against the real scanner/parser (a mismatch is a skipped case with
// a drift signature, never a violation), then runs format.Source and judges the property asked for.

import (
	"bufio"
	"bytes"
	"encoding/json"
	"fmt"
	"os"
	"os/exec"
	"regexp"
	"runtime"
	"sort"
	"strings"
	"sync"

	"github.com/goplus/xgo/ast"
	"github.com/goplus/xgo/format"
	"github.com/goplus/xgo/parser"
	"github.com/goplus/xgo/scanner"
	"github.com/goplus/xgo/token"

	"verifharness/hlib"
	"verifharness/syntree"
)

type Span struct {
	K string `json:"k"`
	F int    `json:"f"`
	L int    `json:"l"`
}

type Cm struct {
	B   int    `json:"b"`
	K   string `json:"k"`
	Pre bool   `json:"pre"`
	Tx  string `json:"tx"`
}

type Case struct {
	Focus string        `json:"focus"`
	Cls   bool          `json:"cls"`
	Base  string        `json:"base"`
	Mut   string        `json:"mut"`
	Ned   int           `json:"ned"`
	T     *syntree.Tree `json:"t"`
	Toks  []string      `json:"toks"`
	Src   []string      `json:"src"`
	IK    []string      `json:"ik"`
	Scan  []string      `json:"scan"`
	Spans []Span        `json:"spans"`
	Cms   []Cm          `json:"cms"`
}

// ---------------------------------------------------------------- real scanner helpers

type rtok struct {
	pos, end int
	tok      token.Token
	lit      string
}

// scanAll runs the real scanner (comments included).  Automatic semicolons have lit "\n".
func scanAll(src []byte) (toks []rtok, nerr int) {
	fset := token.NewFileSet()
	f := fset.AddFile("x.xgo", -1, len(src))
	var s scanner.Scanner
	s.Init(f, src, func(token.Position, string) { nerr++ }, scanner.ScanComments)
	for {
		pos, tok, lit := s.Scan()
		if tok == token.EOF {
			break
		}
		off := f.Offset(pos)
		n := len(lit)
		if tok == token.SEMICOLON && lit == "\n" {
			n = 0
		} else if lit == "" {
			n = len(tok.String())
		}
		toks = append(toks, rtok{off, off + n, tok, lit})
		if len(toks) > 4*len(src)+16 {
			break
		}
	}
	return
}

func (t rtok) spelling() string {
	if t.tok == token.SEMICOLON {
		return ";"
	}
	if t.lit != "" {
		switch t.tok {
		case token.CSTRING:
			return "c" + t.lit
		case token.PYSTRING:
			return "py" + t.lit
		}
		return t.lit
	}
	return t.tok.String()
}

// kindName is the structural name of a token: its class for literals, its spelling otherwise.
func (t rtok) kindName() string {
	if t.tok.IsLiteral() || t.tok == token.COMMENT {
		return t.tok.String()
	}
	if t.tok == token.SEMICOLON {
		return ";"
	}
	return t.tok.String()
}

// tokensAndComments splits a scan into the token spellings (UNIT suffix glued to its number, as the model
// counts `3ms` as one token) and the comment texts.
func tokensAndComments(rt []rtok) (toks []string, cmts []string) {
	for _, t := range rt {
		switch {
		case t.tok == token.COMMENT:
			cmts = append(cmts, t.lit)
		case t.tok == token.UNIT && len(toks) > 0:
			toks[len(toks)-1] += t.lit
		default:
			toks = append(toks, t.spelling())
		}
	}
	return
}

func eqStrings(a, b []string) bool {
	if len(a) != len(b) {
		return false
	}
	for i := range a {
		if a[i] != b[i] {
			return false
		}
	}
	return true
}

// ---------------------------------------------------------------- formatting pipeline

type fmtRun struct {
	src      []byte
	class    bool
	name     string
	in       *ast.File
	inFset   *token.FileSet
	out1     []byte
	out2     []byte
	err1     error // format.Source(src)
	err2     error // format.Source(out1)
	outFile  *ast.File
	outErr   error // parse of out1
	panicked string
}

func parseSrc(src []byte, class bool, name string) (*token.FileSet, *ast.File, error) {
	fset := token.NewFileSet()
	mode := parser.ParseComments
	if class {
		mode |= parser.ParseGoPlusClass
	}
	f, err := parser.ParseFile(fset, name, src, mode)
	return fset, f, err
}

// runFormat parses src, formats it twice and re-parses the first output.  A panic inside the code under
// test is caught and reported in panicked (the caller decides what it means for its property).
func runFormat(src []byte, class bool) (r *fmtRun) {
	name := "case.xgo"
	if class {
		name = "case.gox"
	}
	r = &fmtRun{src: src, class: class, name: name}
	defer func() {
		if e := recover(); e != nil {
			r.panicked = fmt.Sprint(e)
		}
	}()
	var err error
	r.inFset, r.in, err = parseSrc(src, class, name)
	if err != nil {
		r.in = nil
		r.err1 = err
		return
	}
	r.out1, r.err1 = format.Source(src, class, name)
	if r.err1 != nil {
		return
	}
	_, r.outFile, r.outErr = parseSrc(r.out1, class, name)
	r.out2, r.err2 = format.Source(r.out1, class, name)
	return
}

// ---------------------------------------------------------------- locating a place structurally

// place describes a source position by structure only: innermost enclosing node kind and the kinds of the
// (non-comment) tokens on both sides.
type place struct{ encl, left, right string }

func (p place) String() string {
	l, r := p.left, p.right
	// right after a statement boundary: what matters is "start of a statement / declaration", not its first token
	if l == ";" || l == "BOF" {
		r = "<start>"
	}
	return p.encl + ":" + l + "|" + r
}

// cause names the ROOT CAUSE class of a failure at a place, for signatures: one printing routine per node
// kind, so "a comment / a line break inside a <Kind>" is what a maintainer would call one bug.  The only
// cause that is not tied to a node kind is go/printer's heuristic for a general comment that leads a line.
// kind: "/*", "//" or "gap" (no comment involved).  The exact place goes into the detail text.
func (p place) cause(kind string) string {
	if kind == "gap" {
		return "layout-in-" + p.encl
	}
	stmtCtx := p.encl == "File" || p.encl == "BlockStmt" || p.encl == "CaseClause" || p.encl == "CommClause"
	if kind == "/*" && stmtCtx && (p.left == ";" || p.left == "BOF" || p.left == "{") {
		return "leading-general-comment-before-statement"
	}
	return "comment-in-" + p.encl
}

// placeAt finds the structural place of byte offset off (and the following n bytes) in src.
func placeAt(src []byte, file *ast.File, fset *token.FileSet, off, n int) place {
	rt, _ := scanAll(src)
	p := place{encl: "File", left: "BOF", right: "EOF"}
	lend, rstart := -1, -1
	for _, t := range rt {
		if t.tok == token.COMMENT || (t.tok == token.SEMICOLON && t.lit == "\n") {
			continue
		}
		if t.end <= off {
			p.left = t.kindName()
			lend = t.end
		} else if t.pos >= off+n && rstart < 0 {
			p.right = t.kindName()
			rstart = t.pos
		}
	}
	if file == nil || lend < 0 || rstart < 0 {
		return p
	}
	var tf *token.File
	fset.Iterate(func(f *token.File) bool { tf = f; return false })
	if tf == nil {
		return p
	}
	offOf := func(pos token.Pos) int {
		if !pos.IsValid() || int(pos) < tf.Base() || int(pos) > tf.Base()+tf.Size() {
			return -1
		}
		return tf.Offset(pos)
	}
	best := -1
	var rec func(n ast.Node)
	rec = func(n ast.Node) {
		s, e := offOf(n.Pos()), offOf(n.End())
		if _, isFile := n.(*ast.File); !isFile {
			if s < 0 || e < 0 {
				return
			}
			// the node must contain the token on the left and the token on the right
			if !(s < lend && e > rstart) {
				// children of a node that does not contain the place cannot contain it either,
				// except when End() is unreliable; keep descending only through containing nodes
				return
			}
			if best < 0 || e-s <= best {
				best = e - s
				p.encl = syntree.KindOf(n)
			}
		}
		for _, c := range syntree.Children(n) {
			if _, isCG := c.Node.(*ast.CommentGroup); isCG {
				continue
			}
			if _, isC := c.Node.(*ast.Comment); isC {
				continue
			}
			rec(c.Node)
		}
	}
	func() {
		defer func() { recover() }()
		rec(file)
	}()
	return p
}

// ---------------------------------------------------------------- judgements shared by cases and corpus

type verdict struct {
	v, sig, detail string
}

func normComment(s string) string {
	lines := strings.Split(s, "\n")
	for i := range lines {
		lines[i] = strings.TrimSpace(lines[i])
	}
	return strings.Join(lines, "\n")
}

// judge19: the output parses and has the same tree.
func judge19(r *fmtRun) *verdict {
	if r.err1 != nil {
		return &verdict{"viol", "format-error", fmt.Sprintf("format.Source fails on a source the parser accepts: %v", r.err1)}
	}
	if r.outErr != nil {
		sig := "reparse-error"
		if el, ok := r.outErr.(scanner.ErrorList); ok && len(el) > 0 {
			pl := placeAt(r.out1, nil, nil, el[0].Pos.Offset, 0)
			// the token in front of the place the parser gives up at names the construct that was misprinted
			sig += ":after-" + pl.left
			return &verdict{"viol", sig, fmt.Sprintf("formatted output does not parse (at %s|%s): %v\n--- input\n%s--- output\n%s", pl.left, pl.right, r.outErr, r.src, r.out1)}
		}
		return &verdict{"viol", sig, fmt.Sprintf("formatted output does not parse: %v\n--- input\n%s--- output\n%s", r.outErr, r.src, r.out1)}
	}
	a, b := canonOf(r.in), canonOf(r.outFile)
	if s, d, ok := firstDiff(a, b, ""); ok {
		return &verdict{"viol", "tree-diff:" + s, fmt.Sprintf("%s\n--- input\n%s--- output\n%s", d, r.src, r.out1)}
	}
	return nil
}

// judge20: formatting the output again changes nothing.
func judge20(r *fmtRun) *verdict {
	if r.err1 != nil {
		return nil // C19's business
	}
	if r.err2 != nil {
		// the first output is not a valid source: that is a failure of C19 (output must parse), and the
		// statement of C20 quantifies over valid sources only
		return &verdict{"skip", "pass1-output-invalid", fmt.Sprintf("format.Source fails on its own output (C19's business): %v", r.err2)}
	}
	if bytes.Equal(r.out1, r.out2) {
		return nil
	}
	return &verdict{"viol", "not-idempotent", fmt.Sprintf("--- input\n%s--- pass 1\n%s--- pass 2\n%s", r.src, r.out1, r.out2)}
}

// diffPlace locates the first difference between the two passes in pass 1 (for layout-only cases).
func diffPlace(r *fmtRun) place {
	i := 0
	for i < len(r.out1) && i < len(r.out2) && r.out1[i] == r.out2[i] {
		i++
	}
	fset, f, err := parseSrc(r.out1, r.class, r.name)
	if err != nil {
		f = nil
	}
	return placeAt(r.out1, f, fset, i, 0)
}

// judge21: the comment texts of the output are those of the input, once each, in order.
// Returns the verdict and the index (in the input's comment list) of the first offending comment.
func judge21(r *fmtRun, inCm []string) (*verdict, int) {
	if r.err1 != nil {
		return nil, -1
	}
	rt, _ := scanAll(r.out1)
	_, outCm := tokensAndComments(rt)
	a := make([]string, len(inCm))
	for i, c := range inCm {
		a[i] = normComment(c)
	}
	b := make([]string, len(outCm))
	for i, c := range outCm {
		b[i] = normComment(c)
	}
	if eqStrings(a, b) {
		return nil, -1
	}
	cnt := map[string]int{}
	for _, c := range b {
		cnt[c]++
	}
	inCnt := map[string]int{}
	for _, c := range a {
		inCnt[c]++
	}
	detail := fmt.Sprintf("comments in:  %q\ncomments out: %q\n--- input\n%s--- output\n%s", inCm, outCm, r.src, r.out1)
	for i, c := range a {
		if cnt[c] < inCnt[c] {
			return &verdict{"viol", "comment-lost", detail}, i
		}
	}
	for i, c := range a {
		if cnt[c] > inCnt[c] {
			return &verdict{"viol", "comment-dup", detail}, i
		}
	}
	for _, c := range b {
		if inCnt[c] == 0 {
			// a comment text that was not in the input: some input comment was altered
			for i, c0 := range a {
				if cnt[c0] == 0 {
					return &verdict{"viol", "comment-lost", detail}, i
				}
			}
			return &verdict{"viol", "comment-altered", detail}, 0
		}
	}
	// same multiset, different order: blame the first position that differs
	for i := range a {
		if i >= len(b) || a[i] != b[i] {
			return &verdict{"viol", "comment-order", detail}, i
		}
	}
	return &verdict{"viol", "comment-order", detail}, 0
}

// ---------------------------------------------------------------- Layout.tla cases

// comment kind in a signature: general comment or line comment ("#" fails the same way as "//" here,
// otherwise the sharp-comment signature is used)
func cmKindName(k string) string {
	if k == "/*o" {
		return "/*"
	}
	if k == "#" {
		return "//"
	}
	return k
}

// render joins the items; dropping comment item `drop` (>= 0) merges the white space around it.
func render(c *Case, drop map[int]bool) []byte { return renderSub(c, drop, false) }

// renderSub: with sharpAsSlash every "# text" comment is written "// text" (same place, same text).
func renderSub(c *Case, drop map[int]bool, sharpAsSlash bool) []byte {
	var b bytes.Buffer
	strong := func(x, y string) string {
		if strings.Count(y, "\n") > strings.Count(x, "\n") || (x == "" && y != "") {
			return y
		}
		return x
	}
	pending := ""
	havePending := false
	for i, s := range c.Src {
		k := c.IK[i]
		if drop[i] {
			continue
		}
		if k == "w" {
			if havePending {
				pending = strong(pending, s)
			} else {
				pending, havePending = s, true
			}
			continue
		}
		if havePending {
			b.WriteString(pending)
			pending, havePending = "", false
		}
		if sharpAsSlash && k == "l" && strings.HasPrefix(s, "#") {
			s = "//" + s[1:]
		}
		b.WriteString(s)
	}
	if havePending {
		b.WriteString(pending)
	}
	return b.Bytes()
}

// commentItems lists the item indexes of the comments, in order.
func commentItems(c *Case) []int {
	var r []int
	for i, k := range c.IK {
		if k == "c" || k == "l" {
			r = append(r, i)
		}
	}
	return r
}

// modelPlace is the structural place of boundary b of the model: innermost node whose tokens lie on both
// sides, kinds of the neighbouring tokens.
func modelPlace(c *Case, b int) place {
	p := place{encl: "File", left: "BOF", right: "EOF"}
	kind := func(s string) string {
		rt, _ := scanAll([]byte(s))
		if len(rt) == 0 {
			return s
		}
		return rt[0].kindName()
	}
	n := len(c.Toks)
	if b >= 1 && b <= n {
		p.left = kind(c.Toks[b-1])
	}
	if b+1 <= n {
		p.right = kind(c.Toks[b])
	}
	best := -1
	for _, s := range c.Spans {
		if s.F <= b && b+1 <= s.L && s.K != "File" {
			if best < 0 || s.L-s.F <= best {
				best = s.L - s.F
				p.encl = s.K
			}
		}
	}
	return p
}

type caseOut struct {
	res hlib.Result
}

func inputOf(c *Case, src []byte) map[string]any {
	return map[string]any{"focus": c.Focus, "base": c.Base, "src": string(src), "class": c.Cls, "cms": len(c.Cms), "ned": c.Ned}
}

// checkCase runs one Layout.tla case for property which.
func checkCase(which string, idx int, c *Case) hlib.Result {
	src := render(c, nil)
	res := hlib.Result{Idx: idx, V: "ok", Input: inputOf(c, src)}
	skip := func(sig, detail string) hlib.Result {
		res.V, res.Sig, res.Detail = "skip", sig, detail
		return res
	}
	// ---- the model against the real scanner: token stream and comment sequence of the rendering
	rt, nerr := scanAll(src)
	toks, cmts := tokensAndComments(rt)
	if nerr > 0 || !eqStrings(toks, c.Scan) {
		return skip("model-scan-mismatch", fmt.Sprintf("scanner: %q\nmodel:   %q\nsrc: %q", toks, c.Scan, src))
	}
	want := make([]string, len(c.Cms))
	for i, m := range c.Cms {
		want[i] = m.Tx
	}
	if !eqStrings(cmts, want) {
		return skip("model-comments-mismatch", fmt.Sprintf("scanner: %q model: %q src: %q", cmts, want, src))
	}
	// ---- the model against the real parser: the rendering is valid and denotes the model's tree
	r := runFormat(src, c.Cls)
	if r.in == nil && r.panicked == "" {
		return skip("model-input-unparsable:"+c.Focus, fmt.Sprintf("%v\nsrc: %q", r.err1, src))
	}
	if r.in != nil && !syntree.Equal(syntree.Project(r.in), c.T) {
		return skip("model-tree-mismatch:"+c.Focus, fmt.Sprintf("parser: %s\nmodel:  %s\nsrc: %q", syntree.Project(r.in), c.T, src))
	}
	if r.panicked != "" {
		res.V, res.Sig, res.Detail = "viol", "panic:"+which, fmt.Sprintf("panic while formatting %q: %s", src, r.panicked)
		return res
	}
	res.NT = c.Focus + "|" + syntree.Project(r.in).String() + "|" + layoutKey(c)
	var vd *verdict
	blame := -1
	switch which {
	case "c19":
		vd = judge19(r)
	case "c20":
		vd = judge20(r)
	case "c21":
		vd, blame = judge21(r, cmts)
	}
	if vd == nil {
		res.Detail = clip(string(r.out1), 160)
		return res
	}
	if vd.v == "skip" {
		return skip(vd.sig, vd.detail)
	}
	// ---- structural signature: which comment / which place is to blame
	judgeSrc := func(s []byte) bool { // does the reduced rendering still fail (same class of failure)?
		rr := runFormat(s, c.Cls)
		if rr.in == nil || rr.panicked != "" {
			return false
		}
		if !syntree.Equal(syntree.Project(rr.in), c.T) {
			return false
		}
		switch which {
		case "c19":
			return judge19(rr) != nil
		case "c20":
			return judge20(rr) != nil
		default:
			rt2, _ := scanAll(s)
			_, cm2 := tokensAndComments(rt2)
			v, _ := judge21(rr, cm2)
			return v != nil
		}
	}
	cis := commentItems(c)
	sig := vd.sig
	hasSharp := false
	for _, m := range c.Cms {
		if m.K == "#" {
			hasSharp = true
		}
	}
	if hasSharp && !judgeSubst(which, c) {
		// the same comments written with "//" are handled correctly: the cause is the "#" spelling itself
		res.V, res.Sig, res.Detail = vd.v, strings.SplitN(vd.sig, ":", 2)[0]+":sharp-comment", vd.detail
		return res
	}
	switch {
	case len(cis) == 0:
		if which == "c20" {
			pl := diffPlace(r)
			sig += ":" + pl.cause("gap")
			vd.detail = "place " + pl.String() + "\n" + vd.detail
		}
	default:
		// try every single comment alone; the first that fails alone carries the blame
		blamed := -1
		if len(cis) == 1 {
			blamed = 0
		} else {
			for j := range cis {
				drop := map[int]bool{}
				for k, ci := range cis {
					if k != j {
						drop[ci] = true
					}
				}
				if judgeSrc(render(c, drop)) {
					blamed = j
					break
				}
			}
		}
		noCm := map[int]bool{}
		for _, ci := range cis {
			noCm[ci] = true
		}
		if which != "c21" && judgeSrc(render(c, noCm)) {
			// fails without any comment: the comments are not the cause
			if which == "c20" {
				pl := diffPlace(runFormat(render(c, noCm), c.Cls))
				sig += ":" + pl.cause("gap")
				vd.detail = "place " + pl.String() + " (fails without the comments too)\n" + vd.detail
			}
			break
		}
		if which == "c19" {
			sig = "comment-breaks-code"
		}
		if blamed >= 0 {
			m := c.Cms[blamed]
			pl := modelPlace(c, m.B)
			sig += ":" + pl.cause(cmKindName(m.K))
			vd.detail = "place " + pl.String() + ":" + cmKindName(m.K) + "\n" + vd.detail
		} else {
			// only the combination fails
			j := 0
			if blame >= 0 && blame < len(c.Cms) {
				j = blame
			}
			var parts, places []string
			seen := map[string]bool{}
			for mi, m := range c.Cms {
				if which == "c21" && j != mi {
					// C21 knows which comment is missing: its place alone names the cause
					places = append(places, modelPlace(c, m.B).String()+":"+cmKindName(m.K))
					continue
				}
				pl := modelPlace(c, m.B)
				places = append(places, pl.String()+":"+cmKindName(m.K))
				if cs := pl.cause(cmKindName(m.K)); !seen[cs] {
					seen[cs] = true
					parts = append(parts, cs)
				}
			}
			_ = j
			sort.Strings(parts)
			sig += ":pair:" + strings.Join(parts, "+")
			vd.detail = "places " + strings.Join(places, " + ") + "\n" + vd.detail
		}
	}
	res.V, res.Sig, res.Detail = vd.v, sig, vd.detail
	return res
}

// judgeSubst: does the case still fail when its "#" comments are written as "//" comments?
func judgeSubst(which string, c *Case) bool {
	s := renderSub(c, nil, true)
	rr := runFormat(s, c.Cls)
	if rr.in == nil || rr.panicked != "" || !syntree.Equal(syntree.Project(rr.in), c.T) {
		return true // cannot tell: keep the place-based signature
	}
	switch which {
	case "c19":
		return judge19(rr) != nil
	case "c20":
		return judge20(rr) != nil
	default:
		rt2, _ := scanAll(s)
		_, cm2 := tokensAndComments(rt2)
		v, _ := judge21(rr, cm2)
		return v != nil
	}
}

func layoutKey(c *Case) string {
	var b strings.Builder
	for i, k := range c.IK {
		switch k {
		case "w":
			b.WriteString(strings.ReplaceAll(strings.ReplaceAll(c.Src[i], "\n", "n"), " ", "_"))
		case "t":
			b.WriteByte('.')
		default:
			b.WriteString(c.Src[i][:2])
		}
	}
	return b.String()
}

// runFmt is the SUPERVISOR: the code under test can end the process (printer/nodes.go expr1 calls log.Fatalf on
// a node it does not expect), so the cases are judged by worker subprocesses, one chunk each, sequentially
// inside a worker.  A worker that dies has died on the case after its last result: that case gets the
// verdict "fatal-exit" (C19: the formatter does not return on a valid source; C20/C21: outside their domain)
// and a fresh worker takes the rest of the chunk.
func runFmt(which string) {
	switch which {
	case "c19", "c20", "c21":
	default:
		fmt.Fprintln(os.Stderr, "unknown property", which)
		os.Exit(3)
	}
	if os.Getenv("FMTH_WORKER") != "" {
		runFmtWorker(which)
		return
	}
	var lines [][]byte
	sc := bufio.NewScanner(os.Stdin)
	sc.Buffer(make([]byte, 1<<20), 1<<28)
	for sc.Scan() {
		if len(sc.Bytes()) > 0 {
			lines = append(lines, append([]byte(nil), sc.Bytes()...))
		}
	}
	out := superviseChunks(which, "fmt", lines)
	emitWithDrift(out)
	hlib.EmitRaw(map[string]any{"v": "summary", "model_cases": len(lines)})
}

// emitWithDrift writes the results; model/code mismatches (skips) are summarised as one drift line per signature.
func emitWithDrift(out []hlib.Result) {
	skips := map[string]int{}
	for _, r := range out {
		if r.V == "skip" && r.Sig != "" {
			skips[r.Sig]++
		}
		hlib.Emit(r)
	}
	var keys []string
	for k := range skips {
		keys = append(keys, k)
	}
	sort.Strings(keys)
	for _, k := range keys {
		for _, r := range out {
			if r.V == "skip" && r.Sig == k {
				hlib.Emit(hlib.Result{Idx: r.Idx, V: "drift", Sig: k, Detail: fmt.Sprintf("%d cases; first: %s", skips[k], r.Detail)})
				break
			}
		}
	}
}

// superviseChunks runs `fmth <mode> <which>` workers over chunks of input lines; line i gets result index i.
func superviseChunks(which, mode string, lines [][]byte, extra ...string) []hlib.Result {
	n := len(lines)
	out := make([]hlib.Result, n)
	have := make([]bool, n)
	type chunk struct{ lo, hi int }
	var queue []chunk
	const size = 400
	for i := 0; i < n; i += size {
		e := i + size
		if e > n {
			e = n
		}
		queue = append(queue, chunk{i, e})
	}
	w := runtime.NumCPU()
	if w > 8 {
		w = 8
	}
	var mu sync.Mutex
	next := func() (chunk, bool) {
		mu.Lock()
		defer mu.Unlock()
		if len(queue) == 0 {
			return chunk{}, false
		}
		c := queue[0]
		queue = queue[1:]
		return c, true
	}
	self, _ := os.Executable()
	var failed []string
	var wg sync.WaitGroup
	for k := 0; k < w; k++ {
		wg.Add(1)
		go func() {
			defer wg.Done()
			for {
				c, ok := next()
				if !ok {
					return
				}
				lo := c.lo
				for lo < c.hi {
					cmd := exec.Command(self, append([]string{mode, which}, extra...)...)
					cmd.Env = append(os.Environ(), "FMTH_WORKER=1", fmt.Sprintf("FMTH_BASE=%d", lo))
					var in bytes.Buffer
					for _, l := range lines[lo:c.hi] {
						in.Write(l)
						in.WriteByte('\n')
					}
					cmd.Stdin = &in
					var errb bytes.Buffer
					cmd.Stderr = &errb
					stdout, _ := cmd.StdoutPipe()
					if err := cmd.Start(); err != nil {
						mu.Lock()
						failed = append(failed, err.Error())
						mu.Unlock()
						return
					}
					last := lo - 1
					rs := bufio.NewScanner(stdout)
					rs.Buffer(make([]byte, 1<<20), 1<<28)
					for rs.Scan() {
						var r hlib.Result
						if json.Unmarshal(rs.Bytes(), &r) != nil {
							continue
						}
						if r.Idx >= lo && r.Idx < c.hi {
							out[r.Idx], have[r.Idx] = r, true
							if r.Idx > last {
								last = r.Idx
							}
						}
					}
					err := cmd.Wait()
					if err == nil && last == c.hi-1 {
						break
					}
					if ee, ok := err.(*exec.ExitError); ok && (ee.ExitCode() == 3 || ee.ExitCode() == 4) {
						// the harness itself gave up (usage / undecodable case), not the code under test
						mu.Lock()
						failed = append(failed, "worker: "+lastLine(errb.String()))
						mu.Unlock()
						return
					}
					// the worker ended early: the case after its last result ended the process
					off := last + 1
					if off >= c.hi {
						break
					}
					msg := lastLine(errb.String())
					r := hlib.Result{Idx: off, Input: map[string]any{"case": clip(string(lines[off]), 300)}}
					if which == "c19" {
						r.V, r.Sig = "viol", "fatal-exit:"+fatalClass(msg)
						r.Detail = "the formatter ended the process instead of returning (" + msg + ")"
					} else {
						r.V, r.Sig, r.Detail = "skip", "format-fatal-exit", "the formatter ended the process (C19's business): "+msg
					}
					out[off], have[off] = r, true
					lo = off + 1
				}
			}
		}()
	}
	wg.Wait()
	if len(failed) > 0 {
		fmt.Fprintln(os.Stderr, "cannot run workers:", failed[0])
		os.Exit(4)
	}
	for i := range have {
		if !have[i] {
			fmt.Fprintf(os.Stderr, "no result for case %d\n", i)
			os.Exit(4)
		}
	}
	return out
}

func lastLine(s string) string {
	l := strings.Split(strings.TrimSpace(s), "\n")
	return clip(l[len(l)-1], 300)
}

var reStamp = regexp.MustCompile(`^\d{4}/\d{2}/\d{2} \d{2}:\d{2}:\d{2} `)

// fatalClass: the message of the fatal log line without its time stamp (it names the unexpected node type)
func fatalClass(msg string) string {
	m := reStamp.ReplaceAllString(msg, "")
	if strings.HasPrefix(m, "panic:") || strings.HasPrefix(m, "fatal error:") || strings.Contains(m, "goroutine") {
		return "crash"
	}
	return strings.TrimSpace(m)
}

// runFmtWorker judges the cases of one chunk one after the other, flushing every result.
func runFmtWorker(which string) {
	base := 0
	fmt.Sscanf(os.Getenv("FMTH_BASE"), "%d", &base)
	hlib.ForEachCase(func(i int, c *Case) {
		hlib.Emit(checkCase(which, base+i, c))
		hlib.Flush()
	})
}
