package main

// C13: the parser never panics or hangs and reports sorted errors; nil error => no Bad node.
//
// CASE RECORD of specs/fmt/TokenSoup.tla: {"toks": [spelling...], "seps": [separator in front of token i...]}.
// The text is the concatenation seps[1] toks[1] seps[2] toks[2] ...
//
// Every input goes through the entry points
//
//	file   parser.ParseFile(fset, "soup.xgo", src, mode)
//	class  parser.ParseFile(fset, "soup.gox", src, mode|ParseGoPlusClass)
//	expr   parser.ParseExprFrom(fset, "", src, mode)
//	entry  parser.ParseEntry(fset, "soup.xgo" / "soup.gox" / "main.spx", src, Config{Mode: mode})
//
// under each mode flag of {0, ParseComments, AllErrors, DeclarationErrors, ImportsOnly, PackageClauseOnly,
// ParseGoAsGoPlus}.  The parsing is done by WORKER SUBPROCESSES (a Go stack overflow cannot be recovered and
// would kill the harness): the driver hands each worker a batch, the worker reports BEGIN/END per input; a
// worker that makes no progress for the cap or dies is killed, the input it was working on is re-run alone
// (long cap) and only then judged a hang / a fatal panic.

import (
	"bufio"
	"encoding/json"
	"fmt"
	"io"
	"io/fs"
	"math/rand"
	"os"
	"os/exec"
	"path/filepath"
	"reflect"
	"regexp"
	"runtime"
	"runtime/debug"
	"sort"
	"strings"
	"sync"
	"time"

	"github.com/goplus/xgo/ast"
	"github.com/goplus/xgo/parser"
	"github.com/goplus/xgo/scanner"
	"github.com/goplus/xgo/token"

	"verifharness/hlib"
)

type SoupCase struct {
	Toks []string `json:"toks"`
	Seps []string `json:"seps"`
}

func (c *SoupCase) text() string {
	var b strings.Builder
	for i, t := range c.Toks {
		if i < len(c.Seps) {
			b.WriteString(c.Seps[i])
		}
		b.WriteString(t)
	}
	return b.String()
}

// one input handed to a worker
type soupIn struct {
	ID    int    `json:"id"`
	Src   string `json:"src"`
	Small bool   `json:"small"` // also try the expression entry point
}

// what a worker says about one input
type soupOut struct {
	ID     int      `json:"id"`
	Probs  []string `json:"probs,omitempty"` // "sig\tdetail"
	Drift  []string `json:"drift,omitempty"`
	Parses int      `json:"parses"`
	Errs   int      `json:"errs"` // how many parses returned an error
	NT     string   `json:"nt"`
}

var soupModes = []struct {
	name string
	m    parser.Mode
}{
	{"0", 0}, {"ParseComments", parser.ParseComments}, {"AllErrors", parser.AllErrors},
	{"DeclarationErrors", parser.DeclarationErrors}, {"ImportsOnly", parser.ImportsOnly},
	{"PackageClauseOnly", parser.PackageClauseOnly}, {"ParseGoAsGoPlus", parser.ParseGoAsGoPlus},
}

var tNode = reflect.TypeOf((*ast.Node)(nil)).Elem()

// findBad walks the tree by reflection (ast.Walk itself is under test elsewhere and panics on some nodes).
func findBad(n any) string {
	seen := map[uintptr]bool{}
	var rec func(v reflect.Value, depth int) string
	rec = func(v reflect.Value, depth int) string {
		if depth > 100000 {
			return ""
		}
		switch v.Kind() {
		case reflect.Interface:
			if v.IsNil() {
				return ""
			}
			return rec(v.Elem(), depth+1)
		case reflect.Ptr:
			if v.IsNil() {
				return ""
			}
			switch v.Type() {
			case tObj, tScope:
				return ""
			}
			if seen[v.Pointer()] {
				return ""
			}
			seen[v.Pointer()] = true
			switch v.Interface().(type) {
			case *ast.BadExpr:
				return "BadExpr"
			case *ast.BadStmt:
				return "BadStmt"
			case *ast.BadDecl:
				return "BadDecl"
			}
			return rec(v.Elem(), depth+1)
		case reflect.Struct:
			if v.Type().PkgPath() != "github.com/goplus/xgo/ast" {
				return ""
			}
			for i := 0; i < v.NumField(); i++ {
				if !v.Type().Field(i).IsExported() {
					continue
				}
				if s := rec(v.Field(i), depth+1); s != "" {
					return s
				}
			}
		case reflect.Slice:
			if v.Type().Elem().Kind() == reflect.Uint8 {
				return ""
			}
			for i := 0; i < v.Len(); i++ {
				if s := rec(v.Index(i), depth+1); s != "" {
					return s
				}
			}
		}
		return ""
	}
	return rec(reflect.ValueOf(n), 0)
}

var reParserFrame = regexp.MustCompile(`github\.com/goplus/xgo/(parser|scanner|ast|token)\.(\(\*?[A-Za-z]+\)\.)?([A-Za-z0-9_]+)`)

// panicSite is the innermost frame of the code under test in a stack trace: a structural name of the cause.
func panicSite(stack string) string {
	for _, line := range strings.Split(stack, "\n") {
		if strings.Contains(line, "runtime/") || strings.Contains(line, "panic(") {
			continue
		}
		if m := reParserFrame.FindStringSubmatch(line); m != nil {
			if strings.Contains(line, ".func") && (m[3] == "parseFile" || m[3] == "ParseExprFrom" || m[3] == "ParseExprEx") {
				continue // the deferred recover of the entry point re-panics: not the site
			}
			recv := strings.TrimSuffix(strings.TrimPrefix(strings.TrimPrefix(m[2], "(*"), "("), ").")
			if recv != "" && recv != "parser" && recv != "Scanner" {
				return m[1] + "." + recv + "." + m[3]
			}
			return m[1] + "." + m[3]
		}
	}
	return "unknown"
}

// checkResult applies the obligations of the contract to one return of an entry point.
func checkResult(entry string, tree any, treeNil bool, err error, o *soupOut, src string, mode string) {
	o.Parses++
	if err != nil {
		o.Errs++
		el, ok := err.(scanner.ErrorList)
		if !ok {
			o.Drift = append(o.Drift, "error-not-a-list:"+entry+"\t"+fmt.Sprintf("%T %v", err, err))
			return
		}
		for i := 1; i < len(el); i++ {
			a, b := el[i-1].Pos, el[i].Pos
			less := a.Filename < b.Filename || (a.Filename == b.Filename && (a.Line < b.Line || (a.Line == b.Line && a.Column <= b.Column)))
			if !less {
				o.Probs = append(o.Probs, "errors-unsorted:"+entry+"\t"+fmt.Sprintf("mode %s: error %d at %v comes after %v; src %q", mode, i, b, a, src))
				break
			}
		}
		if treeNil {
			// a bailout (more than 10 errors) leaves ParseExpr without a tree; the statement says "returns an AST
			// (possibly partial)" -- recorded, not judged
			o.Drift = append(o.Drift, "nil-tree-with-error:"+entry+"\t"+fmt.Sprintf("mode %s src %q", mode, clip(src, 200)))
		}
		return
	}
	if treeNil {
		o.Probs = append(o.Probs, "nil-tree-without-error:"+entry+"\t"+fmt.Sprintf("mode %s src %q", mode, clip(src, 200)))
		return
	}
	if bad := findBad(tree); bad != "" {
		o.Probs = append(o.Probs, "bad-node-without-error:"+bad+":"+entry+"\t"+fmt.Sprintf("mode %s: nil error but the tree contains a %s; src %q", mode, bad, clip(src, 300)))
	}
}

// parseAll runs one input through every entry point and mode (inside a worker).
func parseAll(in *soupIn) *soupOut {
	o := &soupOut{ID: in.ID}
	src := []byte(in.Src)
	guard := func(entry, mode string, f func()) {
		defer func() {
			if e := recover(); e != nil {
				site := panicSite(string(debug.Stack()))
				o.Probs = append(o.Probs, "parse-panic:"+site+"\t"+fmt.Sprintf("entry %s, mode %s: panic %v; src %q", entry, mode, e, clip(in.Src, 300)))
			}
		}()
		f()
	}
	for _, md := range soupModes {
		md := md
		guard("file", md.name, func() {
			f, err := parser.ParseFile(token.NewFileSet(), "soup.xgo", src, md.m)
			checkResult("file", f, f == nil, err, o, in.Src, md.name)
		})
		guard("class", md.name, func() {
			f, err := parser.ParseFile(token.NewFileSet(), "soup.gox", src, md.m|parser.ParseGoPlusClass)
			checkResult("class", f, f == nil, err, o, in.Src, md.name)
		})
		if in.Small {
			guard("expr", md.name, func() {
				e, err := parser.ParseExprFrom(token.NewFileSet(), "", src, md.m)
				checkResult("expr", e, e == nil, err, o, in.Src, md.name)
			})
		}
		for _, name := range []string{"soup.xgo", "soup.gox", "main.spx"} {
			name := name
			guard("entry", md.name, func() {
				f, err := parser.ParseEntry(token.NewFileSet(), name, src, parser.Config{Mode: md.m})
				checkResult("entry", f, f == nil, err, o, in.Src, md.name)
			})
		}
	}
	if in.Small {
		guard("expr", "ParseExpr", func() {
			e, err := parser.ParseExpr(in.Src)
			checkResult("expr", e, e == nil, err, o, in.Src, "ParseExpr")
		})
	}
	sort.Strings(o.Probs)
	return o
}

// runSoupWorker: stdin = soupIn lines, stdout = "B <id>" before and "E <json>" after every input.
func runSoupWorker() {
	debug.SetMaxStack(256 << 20)
	in := bufio.NewScanner(os.Stdin)
	in.Buffer(make([]byte, 1<<20), 1<<28)
	out := bufio.NewWriter(os.Stdout)
	for in.Scan() {
		var c soupIn
		if err := json.Unmarshal(in.Bytes(), &c); err != nil {
			fmt.Fprintln(os.Stderr, "bad worker input:", err)
			os.Exit(3)
		}
		fmt.Fprintf(out, "B %d\n", c.ID)
		out.Flush()
		o := parseAll(&c)
		b, _ := json.Marshal(o)
		out.WriteString("E ")
		out.Write(b)
		out.WriteByte('\n')
		out.Flush()
	}
}

// ---------------------------------------------------------------- driver

type soupJob struct {
	in      soupIn
	kinds   string // first two token kinds (detail only)
	caseIdx int
	input   any
}

const (
	batchCap = 10 * time.Second  // no progress for this long: the worker is killed and its input re-run alone
	aloneCap = 120 * time.Second // an input that does not finish alone within this is a hang
)

type workerEnd struct {
	outs     []soupOut
	stuck    int // id of the input that was being parsed when the worker stalled / died (-1: none)
	died     bool
	stalled  bool
	stderr   string
	startErr error
}

// runWorker feeds jobs to one fresh worker process.
func runWorker(jobs []soupJob, cap time.Duration) workerEnd {
	we := workerEnd{stuck: -1}
	self, _ := os.Executable()
	cmd := exec.Command(self, "soupworker")
	stdin, _ := cmd.StdinPipe()
	stdout, _ := cmd.StdoutPipe()
	var errb strings.Builder
	cmd.Stderr = &limitedWriter{b: &errb, n: 1 << 16}
	if err := cmd.Start(); err != nil {
		we.startErr = err
		return we
	}
	go func() {
		w := bufio.NewWriter(stdin)
		for _, j := range jobs {
			b, _ := json.Marshal(j.in)
			w.Write(b)
			w.WriteByte('\n')
		}
		w.Flush()
		stdin.Close()
	}()
	lines := make(chan string, 64)
	go func() {
		sc := bufio.NewScanner(stdout)
		sc.Buffer(make([]byte, 1<<20), 1<<28)
		for sc.Scan() {
			lines <- sc.Text()
		}
		close(lines)
	}()
	cur := -1
	timer := time.NewTimer(cap)
loop:
	for {
		select {
		case l, ok := <-lines:
			if !ok {
				break loop
			}
			if !timer.Stop() {
				select {
				case <-timer.C:
				default:
				}
			}
			timer.Reset(cap)
			if strings.HasPrefix(l, "B ") {
				fmt.Sscanf(l[2:], "%d", &cur)
			} else if strings.HasPrefix(l, "E ") {
				var o soupOut
				if json.Unmarshal([]byte(l[2:]), &o) == nil {
					we.outs = append(we.outs, o)
					cur = -1
				}
			}
		case <-timer.C:
			we.stalled = true
			we.stuck = cur
			cmd.Process.Kill()
			break loop
		}
	}
	err := cmd.Wait()
	we.stderr = errb.String()
	if !we.stalled && err != nil {
		we.died = true
		we.stuck = cur
	}
	return we
}

type limitedWriter struct {
	b *strings.Builder
	n int
}

func (w *limitedWriter) Write(p []byte) (int, error) {
	if w.b.Len() < w.n {
		w.b.Write(p)
	}
	return len(p), nil
}

var _ io.Writer = (*limitedWriter)(nil)

// drive runs all jobs through worker processes and emits one result per job.
func drive(jobs []soupJob, level string) {
	byID := map[int]*soupJob{}
	for i := range jobs {
		byID[jobs[i].in.ID] = &jobs[i]
	}
	results := map[int]*hlib.Result{}
	var mu sync.Mutex
	record := func(j *soupJob, o *soupOut, sig, detail string) {
		r := &hlib.Result{Idx: j.caseIdx, V: "ok", Input: j.input}
		if o != nil {
			r.NT = fmt.Sprintf("%s|errs=%d/%d", j.kinds, o.Errs, o.Parses)
			r.Detail = fmt.Sprintf("%d parses, %d with errors", o.Parses, o.Errs)
			if len(o.Probs) > 0 {
				p := strings.SplitN(o.Probs[0], "\t", 2)
				r.V, r.Sig, r.Detail = "viol", p[0], p[1]
			} else if len(o.Drift) > 0 {
				p := strings.SplitN(o.Drift[0], "\t", 2)
				r.V, r.Sig, r.Detail = "drift", p[0], p[1]
			}
		} else {
			r.V, r.Sig, r.Detail = "viol", sig, detail
		}
		if r.V == "viol" && j.caseIdx < 0 {
			// a corpus mutant has no CASE record: keep the whole text so that the replay file can re-run it
			if m, ok := r.Input.(map[string]any); ok {
				m["src"] = j.in.Src
			}
		}
		mu.Lock()
		results[j.in.ID] = r
		mu.Unlock()
	}
	const batch = 1500
	var queue [][]soupJob
	for i := 0; i < len(jobs); i += batch {
		e := i + batch
		if e > len(jobs) {
			e = len(jobs)
		}
		queue = append(queue, jobs[i:e])
	}
	var inconclusive []string
	hangs := 0
	const maxHangs = 3
	w := runtime.NumCPU() / 2
	if w > 6 {
		w = 6
	}
	if w < 1 {
		w = 1
	}
	var qmu sync.Mutex
	next := func() []soupJob {
		qmu.Lock()
		defer qmu.Unlock()
		if len(queue) == 0 {
			return nil
		}
		b := queue[0]
		queue = queue[1:]
		return b
	}
	var wg sync.WaitGroup
	for k := 0; k < w; k++ {
		wg.Add(1)
		go func() {
			defer wg.Done()
			for {
				b := next()
				if b == nil {
					return
				}
				mu.Lock()
				stop := hangs >= maxHangs
				mu.Unlock()
				if stop {
					// the violation is established; every further hang would cost batchCap + aloneCap
					for i := range b {
						j := &b[i]
						mu.Lock()
						results[j.in.ID] = &hlib.Result{Idx: j.caseIdx, V: "skip", Sig: "not-run-after-hangs", Detail: "not run: the run already has confirmed hangs"}
						mu.Unlock()
					}
					continue
				}
				we := runWorker(b, batchCap)
				if we.startErr != nil {
					mu.Lock()
					inconclusive = append(inconclusive, "cannot start worker: "+we.startErr.Error())
					mu.Unlock()
					return
				}
				done := map[int]bool{}
				for i := range we.outs {
					o := we.outs[i]
					done[o.ID] = true
					record(byID[o.ID], &o, "", "")
				}
				if !we.stalled && !we.died {
					continue
				}
				// the offender alone, with the long cap
				var rest []soupJob
				for _, j := range b {
					if !done[j.in.ID] && j.in.ID != we.stuck {
						rest = append(rest, j)
					}
				}
				if we.stuck >= 0 {
					j := byID[we.stuck]
					alone := runWorker([]soupJob{*j}, aloneCap)
					switch {
					case len(alone.outs) == 1:
						record(j, &alone.outs[0], "", "") // it was the batch (load), not the input
					case alone.stalled:
						mu.Lock()
						hangs++
						mu.Unlock()
						record(j, nil, "parse-hang:"+j.kinds, fmt.Sprintf("no return within %v (alone, fresh process); src %q", aloneCap, clip(j.in.Src, 300)))
					case alone.died:
						site := panicSite(alone.stderr)
						record(j, nil, "parse-panic:fatal:"+site, fmt.Sprintf("the process died (unrecoverable, e.g. stack overflow): %s; src %q", clip(firstLines(alone.stderr, 3), 300), clip(j.in.Src, 300)))
					default:
						mu.Lock()
						inconclusive = append(inconclusive, "worker ended without result for input "+fmt.Sprint(j.in.ID))
						mu.Unlock()
					}
				} else if we.died {
					mu.Lock()
					inconclusive = append(inconclusive, "worker died between inputs: "+clip(we.stderr, 300))
					mu.Unlock()
				}
				if len(rest) > 0 {
					qmu.Lock()
					queue = append(queue, rest)
					qmu.Unlock()
				}
			}
		}()
	}
	wg.Wait()
	if len(inconclusive) > 0 {
		fmt.Fprintln(os.Stderr, "inconclusive:", strings.Join(inconclusive, "; "))
		hlib.Flush()
		os.Exit(4)
	}
	ids := make([]int, 0, len(results))
	for id := range results {
		ids = append(ids, id)
	}
	sort.Ints(ids)
	for _, id := range ids {
		hlib.Emit(*results[id])
	}
	if len(results) != len(jobs) {
		fmt.Fprintf(os.Stderr, "inconclusive: %d of %d inputs have no result\n", len(jobs)-len(results), len(jobs))
		hlib.Flush()
		os.Exit(4)
	}
	hlib.EmitRaw(map[string]any{"v": "summary", level + "_inputs": len(jobs)})
}

func firstLines(s string, n int) string {
	l := strings.SplitN(s, "\n", n+1)
	if len(l) > n {
		l = l[:n]
	}
	return strings.Join(l, " | ")
}

func kindsOf(src string) (res string) {
	defer func() {
		if recover() != nil { // the scanner itself panics on some inputs (they are judged in the workers)
			res = "scanner-panic"
		}
	}()
	rt, _ := scanAll([]byte(src))
	var k []string
	for _, t := range rt {
		if len(k) == 2 {
			break
		}
		k = append(k, t.kindName())
	}
	return strings.Join(k, " ")
}

// runSoup: TokenSoup.tla cases.
func runSoup() {
	cases := hlib.ReadAllCases[SoupCase]()
	jobs := make([]soupJob, len(cases))
	for i := range cases {
		src := cases[i].text()
		jobs[i] = soupJob{in: soupIn{ID: i, Src: src, Small: true}, kinds: kindsOf(src), caseIdx: i, input: map[string]any{"src": src}}
	}
	drive(jobs, "soup")
}

// ---------------------------------------------------------------- corpus mutants (exploration)

// mutate applies n (1..2) token edits: delete / duplicate / swap with the next / replace by a token of the pool.
func mutate(src []byte, rnd *rand.Rand, n int) (string, string) {
	rt, _ := scanAll(src)
	var toks []rtok
	for _, t := range rt {
		if !(t.tok == token.SEMICOLON && t.lit == "\n") {
			toks = append(toks, t)
		}
	}
	if len(toks) < 2 {
		return string(src), "none"
	}
	pool := []string{"(", ")", "{", "}", "[", "]", ",", ";", ":", "=>", "?", "!", "...", "for", "func", "if", "else", "case", "x", "1", "\"s\"", "<-", ":=", "=", "*", "&", ".", "$", "in", "range", "var", "type", "import", "package", "->", "<>", "~"}
	type edit struct {
		pos, end int
		text     string
	}
	var edits []edit
	var names []string
	for k := 0; k < n; k++ {
		i := rnd.Intn(len(toks))
		t := toks[i]
		switch rnd.Intn(4) {
		case 0:
			edits = append(edits, edit{t.pos, t.end, ""})
			names = append(names, "delete")
		case 1:
			edits = append(edits, edit{t.end, t.end, " " + string(src[t.pos:t.end])})
			names = append(names, "duplicate")
		case 2:
			if i+1 < len(toks) {
				u := toks[i+1]
				edits = append(edits, edit{t.pos, u.end, string(src[u.pos:u.end]) + " " + string(src[t.pos:t.end])})
				names = append(names, "swap")
			} else {
				edits = append(edits, edit{t.pos, t.end, ""})
				names = append(names, "delete")
			}
		default:
			edits = append(edits, edit{t.pos, t.end, pool[rnd.Intn(len(pool))]})
			names = append(names, "replace")
		}
	}
	sort.Slice(edits, func(a, b int) bool { return edits[a].pos > edits[b].pos })
	out := append([]byte(nil), src...)
	last := len(out) + 1
	for _, e := range edits {
		if e.end > last { // overlapping edits: keep the later one only
			continue
		}
		out = append(out[:e.pos], append([]byte(e.text), out[e.end:]...)...)
		last = e.pos
	}
	return string(out), strings.Join(names, "+")
}

// runMutants: <= 2-edit token mutants of the corpus files (seeded), file-level entry points only.
func runMutants(root string) {
	var files []string
	filepath.WalkDir(root, func(path string, d fs.DirEntry, err error) error {
		if err != nil {
			return nil
		}
		if d.IsDir() {
			if d.Name() == ".git" {
				return filepath.SkipDir
			}
			return nil
		}
		switch filepath.Ext(path) {
		case ".xgo", ".gop", ".gox":
			files = append(files, path)
		}
		return nil
	})
	sort.Strings(files)
	rnd := rand.New(rand.NewSource(hlib.Seed()))
	per := 4
	maxFiles := 250
	if hlib.Tier() == "thorough" {
		per, maxFiles = 12, 100000
	}
	rnd.Shuffle(len(files), func(i, j int) { files[i], files[j] = files[j], files[i] })
	if len(files) > maxFiles {
		files = files[:maxFiles]
	}
	sort.Strings(files)
	var jobs []soupJob
	for _, path := range files {
		src, err := os.ReadFile(path)
		if err != nil || len(src) > 64<<10 {
			continue
		}
		rel, _ := filepath.Rel(root, path)
		// the unmutated file first
		jobs = append(jobs, soupJob{in: soupIn{ID: len(jobs), Src: string(src)}, kinds: "corpus", caseIdx: -1, input: map[string]any{"file": rel, "edits": "none"}})
		for k := 0; k < per; k++ {
			m, what := mutate(src, rnd, 1+k%2)
			jobs = append(jobs, soupJob{in: soupIn{ID: len(jobs), Src: m, Small: len(m) < 200}, kinds: "mutant:" + what, caseIdx: -1,
				input: map[string]any{"file": rel, "edits": what, "src": clip(m, 400)}})
		}
	}
	drive(jobs, "mutant")
}
