// fmth: conformance harness of the formatter / parser-robustness family
// (specs/fmt/Layout.tla, specs/fmt/TokenSoup.tla).
//
//	fmth fmt c19|c20|c21 < cases.ndjson          Layout.tla CASE records through format.Source
//	fmth corpus c19|c20|c21 <root>               every .xgo/.gop/.gox file below root that parses
//	fmth soup < cases.ndjson                     TokenSoup.tla CASE records through the parser entry points (C13)
//	fmth mutants <root>                          <= 2-edit token mutants of corpus files (C13, exploration)
//	fmth soupworker                              internal: one worker process of soup / mutants
package main

import (
	"fmt"
	"os"

	"verifharness/hlib"
)

func main() {
	if len(os.Args) < 2 {
		fmt.Fprintln(os.Stderr, "usage: fmth fmt c19|c20|c21 | corpus <prop> <root> | soup | mutants <root>")
		os.Exit(3)
	}
	switch os.Args[1] {
	case "fmt":
		if len(os.Args) < 3 {
			fmt.Fprintln(os.Stderr, "usage: fmth fmt c19|c20|c21")
			os.Exit(3)
		}
		runFmt(os.Args[2])
	case "corpus":
		if len(os.Args) < 4 {
			fmt.Fprintln(os.Stderr, "usage: fmth corpus c19|c20|c21 <root>")
			os.Exit(3)
		}
		runFmtCorpus(os.Args[2], os.Args[3])
	case "soup":
		runSoup()
	case "mutants":
		if len(os.Args) < 3 {
			fmt.Fprintln(os.Stderr, "usage: fmth mutants <root>")
			os.Exit(3)
		}
		runMutants(os.Args[2])
	case "soupworker":
		runSoupWorker()
	default:
		fmt.Fprintln(os.Stderr, "unknown mode", os.Args[1])
		os.Exit(3)
	}
	hlib.Flush()
}
