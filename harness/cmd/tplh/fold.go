package main

// C30 -- TPL result helpers fold lists left to right.
// specs/tpl/TplFold.tla exports two kinds of CASE records:
//   {lr, rec, fold, order}  a list result (flat or nested), the documented left fold as a symbolic term,
//                           and the elements in source order  -> List / ListOp / RangeOp / BinaryOp(R|NR) /
//                           BinaryExpr(R|NR) are called directly on the synthesized []any structure;
//   {expr, val, lr}         an arithmetic expression (tokens), its value by the model (= precedence
//                           climbing = tree value) -> evaluated by a calculator compiled from the README
//                           grammar with BinaryOp(true, ...); a Go precedence-climbing evaluator is the
//                           second oracle (model and second oracle disagreeing is a tool failure).

import (
	"encoding/json"
	"fmt"
	"os"
	"strconv"
	"strings"

	"github.com/goplus/xgo/tpl"
	"github.com/goplus/xgo/tpl/ast"
	"github.com/goplus/xgo/tpl/scanner"
	"github.com/goplus/xgo/tpl/token"

	"verifharness/hlib"
)

// lrNode is the model's element: atom [k="at", v] or list result [k="lr", hd=<<h>>, tl=<<[op,x]..>>].
type lrNode struct {
	K  string          `json:"k"`
	V  json.RawMessage `json:"v"`
	Hd []*lrNode       `json:"hd"`
	Tl []struct {
		Op string  `json:"op"`
		X  *lrNode `json:"x"`
	} `json:"tl"`
}

type foldCase struct {
	LR    *lrNode  `json:"lr"`
	Rec   bool     `json:"rec"`
	Fold  string   `json:"fold"`
	Order []string `json:"order"`
	Expr  []string `json:"expr"`
	Val   int      `json:"val"`
	// ReadOnly: the model's action property [][obj' = obj]: no helper may change the structure it is given
	ReadOnly bool `json:"readonly"`
}

// dumpAny renders any value structurally (used to compare a match result before and after a helper call).
func dumpAny(v any) string {
	switch v := v.(type) {
	case nil:
		return "nil"
	case string:
		return v
	case *tpl.Token:
		return v.String()
	case *ast.Ident:
		return v.Name
	case []any:
		parts := make([]string, len(v))
		for i, x := range v {
			parts[i] = dumpAny(x)
		}
		return "[" + strings.Join(parts, " ") + "]"
	}
	return fmt.Sprintf("<%T>", v)
}

func (n *lrNode) atom() string {
	var s string
	if json.Unmarshal(n.V, &s) == nil {
		return s
	}
	return string(n.V)
}

func opToken(op string) *tpl.Token {
	return &tpl.Token{Tok: token.Token(op[0]), Lit: ""}
}

// build synthesizes the []any structure Compiler.Match would return for `R % sep`; atoms are made by leaf.
func (n *lrNode) build(leaf func(string) any) any {
	if n.K == "at" {
		return leaf(n.atom())
	}
	tail := make([]any, len(n.Tl))
	for i, p := range n.Tl {
		tail[i] = []any{opToken(p.Op), p.X.build(leaf)}
	}
	return []any{n.Hd[0].build(leaf), tail}
}

func (n *lrNode) nested() bool {
	if n.K == "at" {
		return false
	}
	if n.Hd[0].K != "at" {
		return true
	}
	for _, p := range n.Tl {
		if p.X.K != "at" {
			return true
		}
	}
	return false
}

func (n *lrNode) shape() string {
	if n.K == "at" {
		return "_"
	}
	s := "[" + n.Hd[0].shape()
	for _, p := range n.Tl {
		s += p.X.shape()
	}
	return s + "]"
}

// showAny renders a value the way Show of TplFold.tla renders an element.
func showAny(v any) string {
	switch v := v.(type) {
	case string:
		return v
	case *tpl.Token:
		return v.String()
	case *ast.Ident:
		return v.Name
	case *ast.BinaryExpr:
		return "(" + showAny(v.X) + v.Op.String() + showAny(v.Y) + ")"
	case ast.Expr:
		return fmt.Sprintf("<%T>", v)
	case []any:
		if len(v) == 2 {
			if tail, ok := v[1].([]any); ok {
				s := "[" + showAny(v[0])
				for _, p := range tail {
					pp, ok := p.([]any)
					if !ok || len(pp) != 2 {
						return fmt.Sprintf("<bad %v>", v)
					}
					s += " " + showAny(pp[0]) + showAny(pp[1])
				}
				return s + "]"
			}
		}
		return fmt.Sprintf("<list %v>", v)
	case nil:
		return "nil"
	}
	return fmt.Sprintf("<%T>", v)
}

func symFn(op *tpl.Token, x, y any) any {
	return "(" + showAny(x) + op.String() + showAny(y) + ")"
}

func strLeaf(s string) any { return s }
func identLeaf(s string) any {
	return &ast.Ident{Name: s}
}

// foldDiff classifies a wrong fold: right-assoc, dropped element, order, other.
func foldDiff(want, got string) string {
	strip := func(s string) string {
		return strings.NewReplacer("(", "", ")", "", "[", "", "]", "", " ", "").Replace(s)
	}
	switch {
	case strings.Contains(got, "[") && !strings.Contains(want, "["):
		return "nested-list-not-folded"
	case strip(want) == strip(got):
		return "association"
	case len(strip(got)) < len(strip(want)):
		return "dropped"
	case len(strip(got)) > len(strip(want)):
		return "extra"
	}
	return "order"
}

// orderDiff classifies a wrong element list.
func orderDiff(want, got string) string {
	if d := foldDiff(want, got); d != "association" {
		return d
	}
	return "order"
}

func runFold() {
	var calc *tpl.Compiler
	hlib.ForEachCase(func(idx int, c *foldCase) {
		if c.Expr != nil {
			if calc == nil {
				calc = newCalculator()
			}
			checkCalc(idx, c, calc)
			return
		}
		res := hlib.Result{Idx: idx, V: "ok"}
		variant := "NR"
		if c.Rec {
			variant = "R"
		}
		res.Input = map[string]any{"result": showAny(c.LR.build(strLeaf)), "variant": variant}
		res.NT = variant + ":" + c.LR.shape()
		fail := func(sig, d string) {
			if res.V != "viol" {
				res.V, res.Sig, res.Detail = "viol", sig, d
			}
		}
		guard := func(name string, f func()) {
			defer func() {
				if e := recover(); e != nil {
					fail("helper-panic:"+name, fmt.Sprintf("%s(%s) panics: %v", name, showAny(c.LR.build(strLeaf)), e))
				}
			}()
			f()
		}
		// One structure is shared by all calls, every helper is called more than once and in both orders, and the
		// structure is compared with its snapshot after every call: the helpers only read a match result.
		in := c.LR.build(strLeaf).([]any)
		snap := dumpAny(in)
		src := showAny(in)
		unchanged := func(name string) {
			if !c.ReadOnly {
				return
			}
			if now := dumpAny(in); now != snap {
				fail(name+":modifies-input", fmt.Sprintf("%s(%s) changed the match result it was given: now %s", name, snap, now))
				in = c.LR.build(strLeaf).([]any) // go on with a fresh copy
			}
		}
		binop := func(name string, call func() any) {
			guard(name, func() {
				got := showAny(call())
				if got != c.Fold {
					fail("BinaryOp"+variant+":"+foldDiff(c.Fold, got), fmt.Sprintf("%s(%s): got %s, left fold is %s", name, src, got, c.Fold))
				}
			})
			unchanged("BinaryOp" + variant)
		}
		// BinaryOp: left fold, separators in order (twice through the dispatcher, once directly)
		binop("BinaryOp", func() any { return tpl.BinaryOp(c.Rec, in, symFn) })
		if c.Rec {
			binop("BinaryOpR", func() any { return tpl.BinaryOpR(in, symFn) })
		} else {
			binop("BinaryOpNR", func() any { return tpl.BinaryOpNR(in, symFn) })
		}
		binop("BinaryOp", func() any { return tpl.BinaryOp(c.Rec, in, symFn) })
		// BinaryExpr: the same fold as an expression tree (NR needs expression elements: flat lists only)
		if c.Rec || !c.LR.nested() {
			inE := c.LR.build(identLeaf).([]any)
			snapE := dumpAny(inE)
			for round := 0; round < 2; round++ {
				guard("BinaryExpr", func() {
					got := showAny(tpl.BinaryExpr(c.Rec, inE))
					if got != c.Fold {
						fail("BinaryExpr"+variant+":"+foldDiff(c.Fold, got), fmt.Sprintf("BinaryExpr(%v, %s): got %s, left fold is %s", c.Rec, src, got, c.Fold))
					}
				})
				if now := dumpAny(inE); c.ReadOnly && now != snapE {
					fail("BinaryExpr"+variant+":modifies-input", fmt.Sprintf("BinaryExpr(%s) changed the match result it was given: now %s", snapE, now))
					break
				}
			}
		}
		// List / ListOp / RangeOp: the elements in source order -- each twice, interleaved in both orders
		if !c.Rec {
			want := strings.Join(c.Order, " ; ")
			list := func() {
				guard("List", func() {
					var got []string
					for _, v := range tpl.List(in) {
						got = append(got, showAny(v))
					}
					if g := strings.Join(got, " ; "); g != want {
						fail("List:"+orderDiff(want, g), fmt.Sprintf("List(%s): got %s, source order is %s", src, g, want))
					}
				})
				unchanged("List")
			}
			listOp := func() {
				guard("ListOp", func() {
					got := tpl.ListOp(in, func(v any) string { return showAny(v) })
					if g := strings.Join(got, " ; "); g != want {
						fail("ListOp:"+orderDiff(want, g), fmt.Sprintf("ListOp(%s): got %s, source order is %s", src, g, want))
					}
				})
				unchanged("ListOp")
			}
			rangeOp := func() {
				guard("RangeOp", func() {
					var got []string
					tpl.RangeOp(in, func(v any) { got = append(got, showAny(v)) })
					if g := strings.Join(got, " ; "); g != want {
						fail("RangeOp:"+orderDiff(want, g), fmt.Sprintf("RangeOp(%s): visited %s, source order is %s", src, g, want))
					}
				})
				unchanged("RangeOp")
			}
			list()
			rangeOp()
			list()
			listOp()
			rangeOp()
			listOp()
			binop("BinaryOp", func() any { return tpl.BinaryOp(c.Rec, in, symFn) }) // and a fold after the list helpers
		}
		if res.V == "ok" {
			res.Detail = c.Fold
		}
		hlib.Emit(res)
	})
}

// ---------------------------------------------------------------------------------- calculator

const calcGrammar = `
expr = operand % "*" % ("+" | "-") % ("<" | ">")
operand = basicLit | unaryExpr | parenExpr
unaryExpr = "-" operand
parenExpr = "(" expr ")"
basicLit = INT
`

func newCalculator() *tpl.Compiler {
	tpl.ShowConflict(false)
	fn := func(op *tpl.Token, x, y any) any {
		switch op.Tok {
		case '+':
			return x.(float64) + y.(float64)
		case '-':
			return x.(float64) - y.(float64)
		case '*':
			return x.(float64) * y.(float64)
		case '<':
			if x.(float64) < y.(float64) {
				return 1.0
			}
			return 0.0
		case '>':
			if x.(float64) > y.(float64) {
				return 1.0
			}
			return 0.0
		}
		panic("unexpected operator")
	}
	cl, err := tpl.New(calcGrammar,
		"expr", func(self []any) any { return tpl.BinaryOp(true, self, fn) },
		"unaryExpr", func(self []any) any { return -(self[1].(float64)) },
		"parenExpr", func(self []any) any { return self[1] },
		"basicLit", func(self any) any {
			v, err := strconv.ParseFloat(self.(*tpl.Token).Lit, 64)
			if err != nil {
				panic(err)
			}
			return v
		})
	if err != nil {
		fmt.Fprintln(os.Stderr, "calculator grammar does not compile:", err)
		hlib.Flush()
		os.Exit(3)
	}
	return &cl
}

// refEval: precedence climbing over the tokens (second oracle).
type refParser struct {
	toks []string
	i    int
}

func (p *refParser) peek() string {
	if p.i < len(p.toks) {
		return p.toks[p.i]
	}
	return ""
}
func prec(op string) int {
	switch op {
	case "*":
		return 3
	case "+", "-":
		return 2
	case "<", ">":
		return 1
	}
	return 0
}
func (p *refParser) primary() float64 {
	t := p.peek()
	p.i++
	switch t {
	case "-":
		return -p.primary()
	case "(":
		v := p.expr(1)
		p.i++ // ")"
		return v
	}
	v, _ := strconv.ParseFloat(t, 64)
	return v
}
func (p *refParser) expr(minPrec int) float64 {
	lhs := p.primary()
	for {
		op := p.peek()
		pr := prec(op)
		if pr == 0 || pr < minPrec {
			return lhs
		}
		p.i++
		rhs := p.expr(pr + 1)
		switch op {
		case "+":
			lhs += rhs
		case "-":
			lhs -= rhs
		case "*":
			lhs *= rhs
		case "<":
			if lhs < rhs {
				lhs = 1
			} else {
				lhs = 0
			}
		case ">":
			if lhs > rhs {
				lhs = 1
			} else {
				lhs = 0
			}
		}
	}
}

func exprShape(toks []string) string {
	var b strings.Builder
	for _, t := range toks {
		switch t {
		case "+", "-", "*", "<", ">", "(", ")":
			b.WriteString(t)
		default:
			b.WriteByte('n')
		}
	}
	return b.String()
}

func checkCalc(idx int, c *foldCase, calc *tpl.Compiler) {
	text := strings.Join(c.Expr, " ")
	res := hlib.Result{Idx: idx, V: "ok", Input: map[string]any{"expr": text}, NT: "calc:" + exprShape(c.Expr)}
	ref := (&refParser{toks: c.Expr}).expr(1)
	if ref != float64(c.Val) {
		fmt.Fprintf(os.Stderr, "oracles disagree on %q: model %d, reference evaluator %v\n", text, c.Val, ref)
		hlib.Flush()
		os.Exit(3)
	}
	func() {
		defer func() {
			if e := recover(); e != nil {
				res.V, res.Sig, res.Detail = "viol", "calc:panic", fmt.Sprintf("%s: panic %v", text, e)
			}
		}()
		got, err := calc.ParseExpr(text, &tpl.Config{ScanMode: scanner.NoInsertSemis})
		switch {
		case err != nil:
			res.V, res.Sig, res.Detail = "viol", "calc:error", fmt.Sprintf("%s: %v (reference value %d)", text, err, c.Val)
		default:
			f, ok := got.(float64)
			if !ok || f != float64(c.Val) {
				kind := "value"
				res.V, res.Sig = "viol", "calc:"+kind
				res.Detail = fmt.Sprintf("%s = %v by the calculator built from %% and BinaryOp, %d by precedence climbing", text, got, c.Val)
			} else {
				res.Detail = fmt.Sprintf("= %d", c.Val)
			}
		}
	}()
	hlib.Emit(res)
}
