package main

// Shared by C28 (term) and C29 (match): the model's grammars / inputs / values of
// specs/tpl/TplMatch.tla, their rendering as TPL text, and the projection of real results.

import (
	"sort"
	"strings"

	"github.com/goplus/xgo/tpl/types"
)

// mnode is a grammar node [k, v, xs] of TplMatch.tla.
type mnode struct {
	K  string   `json:"k"`
	V  string   `json:"v"`
	Xs []*mnode `json:"xs"`
}

// mval is a result value [t, l]: token spelling, "nil", or "list".
type mval struct {
	T string  `json:"t"`
	L []*mval `json:"l"`
}

type mtok struct {
	Tok string `json:"tok"`
	Gap bool   `json:"gap"`
}

// matchCase is one halted behaviour of the model.
type matchCase struct {
	G     []*mnode `json:"g"`
	Inp   []mtok   `json:"inp"`
	Pc    string   `json:"pc"` // done | hang | rejected
	St    string   `json:"st"` // ok | fail
	N     int      `json:"n"`
	Val   *mval    `json:"val"`
	Undoc bool     `json:"undoc"`
	Code  bool     `json:"code"`
	Why   string   `json:"why"`
	Acc   bool     `json:"acc"`  // today's compile-time analysis accepts the grammar
	Accg  bool     `json:"accg"` // the repaired analysis accepts it
	Steps int      `json:"steps"`
}

var ruleNames = []string{"doc", "r2"}

func isIdentTok(v string) bool { return v == "a" || v == "b" || v == "c" }

func (t *mnode) leaf() bool { return len(t.Xs) == 0 }

func (t *mnode) text() string {
	switch t.K {
	case "tok":
		if t.V == "IDENT" {
			return "IDENT"
		}
		return `"` + t.V + `"`
	case "eps":
		return `""`
	case "ref":
		return t.V
	case "opt":
		return "?" + t.Xs[0].operand()
	case "star":
		return "*" + t.Xs[0].operand()
	case "plus":
		return "+" + t.Xs[0].operand()
	}
	sep := " "
	switch t.K {
	case "alt":
		sep = " | "
	case "list":
		sep = " % "
	case "adj":
		sep = " ++ "
	}
	parts := make([]string, len(t.Xs))
	for i, x := range t.Xs {
		parts[i] = x.operand()
	}
	return strings.Join(parts, sep)
}

// operand parenthesises every composite operand: the grammar's structure is explicit, independent of
// operator precedence (which is C31's subject).
func (t *mnode) operand() string {
	if t.leaf() {
		return t.text()
	}
	return "(" + t.text() + ")"
}

func grammarText(g []*mnode) string {
	var b strings.Builder
	for i, r := range g {
		b.WriteString(ruleNames[i])
		b.WriteString(" = ")
		b.WriteString(r.text())
		b.WriteByte('\n')
	}
	return b.String()
}

// shape erases the token names of a grammar: the structural key of a case.
func (t *mnode) shape() string {
	switch t.K {
	case "tok":
		if t.V == "IDENT" {
			return "I"
		}
		return "t"
	case "eps":
		return "e"
	case "ref":
		return "@" + t.V
	}
	s := t.K + "("
	for i, x := range t.Xs {
		if i > 0 {
			s += ","
		}
		s += x.shape()
	}
	return s + ")"
}

func grammarShape(g []*mnode) string {
	parts := make([]string, len(g))
	for i, r := range g {
		parts[i] = r.shape()
	}
	return strings.Join(parts, ";")
}

func (t *mnode) size() int {
	n := 1
	for _, x := range t.Xs {
		n += x.size()
	}
	return n
}

func grammarSize(g []*mnode) int {
	n := 0
	for _, r := range g {
		n += r.size()
	}
	return n
}

func (t *mnode) ops(set map[string]bool) {
	if !t.leaf() {
		set[t.K] = true
	}
	for _, x := range t.Xs {
		x.ops(set)
	}
}

func grammarOps(g []*mnode) string {
	set := map[string]bool{}
	for _, r := range g {
		r.ops(set)
	}
	var ks []string
	for k := range set {
		ks = append(ks, k)
	}
	sort.Strings(ks)
	return strings.Join(ks, "+")
}

func inputText(inp []mtok) string {
	var b strings.Builder
	for i, t := range inp {
		if i > 0 && t.Gap {
			b.WriteByte(' ')
		}
		b.WriteString(t.Tok)
	}
	return b.String()
}

func (v *mval) String() string {
	if v == nil {
		return "?"
	}
	switch v.T {
	case "list":
		parts := make([]string, len(v.L))
		for i, x := range v.L {
			parts[i] = x.String()
		}
		return "[" + strings.Join(parts, " ") + "]"
	}
	return v.T
}

// projectResult renders a real match result the way mval.String renders the model's.
func projectResult(r any) string {
	switch r := r.(type) {
	case nil:
		return "nil"
	case *types.Token:
		if r == nil {
			return "nil"
		}
		return r.String()
	case []any:
		parts := make([]string, len(r))
		for i, x := range r {
			parts[i] = projectResult(x)
		}
		return "[" + strings.Join(parts, " ") + "]"
	}
	return "<?>"
}
