package main

// C28 -- grammar matching always terminates.
// Every CASE of specs/tpl/TplMatch.tla is a (grammar, input) pair with the model's verdict: rejected at
// compile time, halts with a result, or diverges (why).  The real tpl.New decides accept/reject; every
// accepted pair is run through Match, Parse and ParseExpr in a watchdog child process.
// Alarm iff a real match does not return (time cap, unbounded heap growth, stack overflow).

import (
	"fmt"
	"os"
	"sort"

	"verifharness/hlib"
)

const hangSamplesPerCause = 3 // predicted divergences actually executed per cause once they are confirmed

type termKey struct {
	gram, input string
	shape       string
	idx         int // first CASE line of this (grammar, input)
	hang        bool
	why         string
	rejected    bool
	acc, accg   bool
	size        int
}

func runTerm() {
	keys := map[string]*termKey{}
	var order []*termKey
	hlib.ForEachCase(func(idx int, c *matchCase) {
		gt, it := grammarText(c.G), inputText(c.Inp)
		k := keys[gt+"\x00"+it]
		if k == nil {
			k = &termKey{gram: gt, input: it, shape: grammarShape(c.G), idx: idx, acc: c.Acc, accg: c.Accg, size: grammarSize(c.G)}
			keys[gt+"\x00"+it] = k
			order = append(order, k)
		}
		switch c.Pc {
		case "hang":
			k.hang = true
		case "rejected":
			k.rejected = true
		}
		switch {
		case c.Why != "":
			// the model diverges here (old dialect) or needed the zero-progress guard (repaired dialect)
			k.why = c.Why
		case c.Acc && !c.Accg && k.why == "":
			// only the left-recursion check of the repaired compiler rejects this grammar
			k.why = "left-recursion"
		}
	})
	sort.SliceStable(order, func(i, j int) bool {
		if order[i].size != order[j].size {
			return order[i].size < order[j].size
		}
		if order[i].gram != order[j].gram {
			return order[i].gram < order[j].gram
		}
		return order[i].input < order[j].input
	})
	jobs := make([]job, len(order))
	for i, k := range order {
		jobs[i] = job{ID: i, Gram: k.gram, Input: k.input}
	}
	confirmed := map[string]int{} // cause -> real divergences seen
	unpredicted := 0
	skip := func(i int) bool {
		k := order[i]
		if k.why != "" {
			return confirmed[k.why] >= hangSamplesPerCause
		}
		return unpredicted >= 40
	}
	nrun, nrej, nhang, nskip := 0, 0, 0, 0
	runJobs(jobs, skip, func(i int, o outcome) {
		k := order[i]
		res := hlib.Result{Idx: k.idx, V: "ok", Input: map[string]any{"grammar": k.gram, "input": k.input}}
		model := "halts"
		if k.rejected {
			model = "rejected"
		} else if k.hang {
			model = "diverges:" + k.why
		} else if k.why != "" && k.why != "left-recursion" {
			model = "halts thanks to the zero-progress guard (" + k.why + ")"
		}
		switch o.Kind {
		case "not-run":
			nskip++
			res.V = "skip"
			res.Detail = "model: " + model + "; this cause of divergence has already been demonstrated on the real code, not executed"
		case "rejected":
			nrej++
			res.NT = "rejected:" + k.shape
			switch {
			case !k.acc:
				res.Detail = "rejected at compile time (model: rejected)"
			case !k.accg:
				res.Detail = "rejected at compile time (model: rejected by the left-recursion check of the repaired design)"
			default:
				res.V, res.Sig = "drift", "model-accepts-code-rejects"
				res.Detail = fmt.Sprintf("%q: %s", k.gram, o.Res.Err)
			}
		case "result":
			nrun++
			res.NT = fmt.Sprintf("%s/%d", k.shape, len(k.input))
			res.Detail = fmt.Sprintf("model: %s; real: returns (match ok=%v n=%d %s)", model, o.Res.Ok, o.Res.N, o.Res.Val)
			switch {
			case o.Res.Panic != "":
				res.V, res.Sig = "drift", "match-panics"
				res.Detail = fmt.Sprintf("%q on %q: panic %s", k.gram, k.input, o.Res.Panic)
			case !k.accg:
				res.V, res.Sig = "drift", "model-rejects-code-accepts"
			}
		case "loop", "stack-overflow":
			nhang++
			if k.why != "" {
				confirmed[k.why]++
				res.V, res.Sig = "viol", "hang:"+k.why
			} else {
				unpredicted++
				res.V, res.Sig = "viol", "hang:unpredicted:"+o.Kind
			}
			res.NT = fmt.Sprintf("%s/%d", k.shape, len(k.input))
			res.Detail = fmt.Sprintf("grammar %q accepted by tpl.New, input %q: the match does not return: %s (model: %s)",
				k.gram, k.input, o.Note, model)
		default:
			fmt.Fprintf(os.Stderr, "child crashed on grammar %q input %q: %s\n", k.gram, k.input, o.Note)
			hlib.Flush()
			os.Exit(3)
		}
		hlib.Emit(res)
	})
	hlib.EmitRaw(map[string]any{"v": "summary", "pairs_executed": nrun, "grammars_pairs_rejected": nrej,
		"real_divergences": nhang, "predicted_divergences_not_executed": nskip})
}
