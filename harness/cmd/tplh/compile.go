package main

// C27 -- grammar compilation never panics.
// Every CASE of specs/tpl/TplGrammar.tla (SpecGen) is a grammar source at token level (1..2 rules,
// well formed or not, atoms swept over every byte value / token spelling / malformed literal).
// The source is rendered and compiled through every public entry point under recover:
// tpl.New, tpl.NewEx (what a tpl`...` literal compiles to), and parser.ParseFile + cl.NewEx.
// Alarm iff a panic escapes.  The model's verdict (ok / err / any) is compared for drift only.

import (
	"fmt"
	"runtime"
	"strconv"
	"strings"

	"github.com/goplus/xgo/tpl"
	"github.com/goplus/xgo/tpl/ast"
	"github.com/goplus/xgo/tpl/cl"
	"github.com/goplus/xgo/tpl/parser"
	"github.com/goplus/xgo/tpl/token"

	"verifharness/hlib"
)

var namedAtoms = map[string]string{
	"@emptychar": `''`, "@twochar": `'ab'`, "@badesc": `'\q'`, "@badhex": `'\x4'`, "@badoct": `'\400'`,
	"@badstresc": `"\q"`, "@unterminated": `"abc`, "@untermchar": `'a`, "@untermraw": "`abc",
	"@nulbyte": "\x00", "@badutf8": "\xff", "@mbchar": `'é'`, "@mbstr": `"é"`, "@uchar": `'é'`,
	"@ustr": `"é"`, "@bigchar": `'\U0001F600'`, "@number": "12", "@float": "1.5",
}

// genAtomText renders one generator token; cls is its structural class (used in nt keys).
func genAtomText(t string) (text, cls string) {
	if t == "NL" {
		return "\n", "NL"
	}
	if s, ok := namedAtoms[t]; ok {
		return s, t
	}
	if len(t) >= 2 && t[1] == ':' {
		body := t[2:]
		switch t[0] {
		case 'c', 'o', 's', 'r':
			n, err := strconv.Atoi(body)
			if err != nil || n < 0 || n > 255 {
				return t, "?"
			}
			switch t[0] {
			case 'c':
				return fmt.Sprintf(`'\x%02x'`, n), "c"
			case 'o':
				return fmt.Sprintf(`'\%03o'`, n), "o"
			case 's':
				return fmt.Sprintf(`"\x%02x"`, n), "s"
			default:
				return "'" + string([]byte{byte(n)}) + "'", "r"
			}
		case 'q':
			return `"` + body + `"`, "q"
		case 'k':
			return "'" + body + "'", "k"
		case 'b':
			return "`" + body + "`", "b"
		}
	}
	switch t {
	case "*", "+", "?", "++", "%", "|", "(", ")", "=", "=>", "{", "}", "[", "]", ",", ";":
		return t, t
	}
	return t, "n"
}

func renderSource(toks []string) (src, key string) {
	var b, k strings.Builder
	for i, t := range toks {
		s, c := genAtomText(t)
		if i > 0 && s != "\n" && toks[i-1] != "NL" {
			b.WriteByte(' ')
		}
		b.WriteString(s)
		k.WriteString(c)
	}
	b.WriteByte('\n')
	return b.String(), k.String()
}

// panicSite names the innermost function of the tree under test on the panicking stack.
func panicSite() string {
	pcs := make([]uintptr, 64)
	n := runtime.Callers(3, pcs)
	frames := runtime.CallersFrames(pcs[:n])
	for {
		f, more := frames.Next()
		if strings.HasPrefix(f.Function, "github.com/goplus/xgo/") {
			fn := strings.TrimPrefix(f.Function, "github.com/goplus/xgo/")
			// strip closure suffixes: func1, func1.2 ...
			for {
				i := strings.LastIndex(fn, ".func")
				if i < 0 {
					break
				}
				fn = fn[:i]
			}
			return fn
		}
		if !more {
			return "unknown"
		}
	}
}

func panicClass(e any) string {
	switch v := e.(type) {
	case runtime.Error:
		s := v.Error()
		switch {
		case strings.Contains(s, "index out of range"), strings.Contains(s, "slice bounds out of range"):
			return "bounds"
		case strings.Contains(s, "nil pointer"):
			return "nil-deref"
		case strings.Contains(s, "interface conversion"):
			return "type-assert"
		}
		return "runtime"
	case string:
		return "string"
	case error:
		return "error"
	}
	return fmt.Sprintf("%T", e)
}

type callOutcome struct {
	panicked bool
	sig      string
	msg      string
	err      error
}

func guarded(entry string, f func() error) (o callOutcome) {
	defer func() {
		if e := recover(); e != nil {
			o.panicked = true
			o.sig = "panic:" + entry + ":" + panicSite() + ":" + panicClass(e)
			o.msg = fmt.Sprint(e)
		}
	}()
	o.err = f()
	return
}

type compileCase struct {
	Src []string `json:"src"`
	Exp string   `json:"exp"`
}

func noConflict(fset *token.FileSet, c *ast.Choice, firsts [][]any, i, at int) {}

func runCompile() {
	tpl.ShowConflict(false)
	partialASTPanics := 0
	defer func() {
		hlib.EmitRaw(map[string]any{"v": "summary", "cl_newex_panics_on_partial_ast_of_rejected_source_not_judged": partialASTPanics})
	}()
	hlib.ForEachCase(func(idx int, c *compileCase) {
		src, key := renderSource(c.Src)
		res := hlib.Result{Idx: idx, V: "ok", Input: map[string]any{"src": src}}
		fail := func(o callOutcome) {
			if res.V != "viol" {
				res.V, res.Sig = "viol", o.sig
				res.Detail = fmt.Sprintf("grammar source %q: %s", src, o.msg)
			}
		}
		oNew := guarded("New", func() error { _, err := tpl.New(src); return err })
		if oNew.panicked {
			fail(oNew)
		}
		oEx := guarded("NewEx", func() error { _, err := tpl.NewEx(src, "g.xgo", 3, 5); return err })
		if oEx.panicked {
			fail(oEx)
		}
		fset := token.NewFileSet()
		var f *ast.File
		oParse := guarded("ParseFile", func() (err error) { f, err = parser.ParseFile(fset, "", src, nil); return })
		if oParse.panicked {
			fail(oParse)
		}
		var oCl callOutcome
		if !oParse.panicked && f != nil {
			oCl = guarded("cl.NewEx", func() error {
				_, err := cl.NewEx(&cl.Config{OnConflict: noConflict}, fset, f)
				return err
			})
			if oCl.panicked {
				if oParse.err == nil {
					fail(oCl)
				} else {
					// The partial AST of a source the parser rejected is not a grammar source, and no entry point that
					// takes a source (tpl.New / NewEx / FromFile) hands it to cl.NewEx: outside the statement, counted only.
					partialASTPanics++
				}
			}
		}
		outcome := "err"
		if !oNew.panicked && oNew.err == nil {
			outcome = "ok"
		}
		if res.V == "ok" {
			switch {
			case c.Exp == "ok" && outcome == "err":
				res.V, res.Sig = "drift", "model-ok-code-err"
				res.Detail = fmt.Sprintf("%q: %v", src, oNew.err)
			case c.Exp == "err" && outcome == "ok":
				res.V, res.Sig = "drift", "model-err-code-ok"
				res.Detail = fmt.Sprintf("%q compiles", src)
			case !oEx.panicked && (oEx.err == nil) != (oNew.err == nil):
				res.V, res.Sig = "drift", "new-newex-disagree"
				res.Detail = fmt.Sprintf("%q: New err=%v NewEx err=%v", src, oNew.err, oEx.err)
			default:
				res.Detail = outcome
			}
		}
		res.NT = key + ":" + c.Exp
		hlib.Emit(res)
	})
}
