package main

// Watchdog execution of real matches.  A match that does not terminate cannot be interrupted inside
// a Go process (and unbounded recursion is a fatal stack overflow), so every real match runs in a
// child process `tplh termrun <file> <from>`: the child prints "#<id>" before a case and
// "=<id> <json>" after it; the parent watches the stream.  The child stops itself when one case
// exceeds the time cap or allocates without bound; the parent restarts it behind the culprit.

import (
	"bufio"
	"encoding/json"
	"fmt"
	"os"
	"os/exec"
	"path/filepath"
	"runtime"
	"runtime/debug"
	"strconv"
	"strings"
	"sync"
	"sync/atomic"
	"syscall"
	"time"

	"github.com/goplus/xgo/tpl"
	"github.com/goplus/xgo/tpl/scanner"
)

const (
	cpuCap      = 2 * time.Second   // CPU time one case may burn in the child (a starved child burns none)
	wallCap     = 300 * time.Second // wall-clock backstop of one case in the child
	heapRunaway = 96 << 20          // a match over <= 4 tokens that holds this much heap is not going to return
	childStack  = 8 << 20           // goroutine stack limit of the child: unbounded recursion dies quickly
	exitTimeout = 41
	exitRunaway = 42
	parentGrace = 600 * time.Second // parent-side silence cap (the child's own monitor fires long before)
	runnerChunk = 4000
	runnerProcs = 4
)

func cpuTime() time.Duration {
	var ru syscall.Rusage
	if syscall.Getrusage(syscall.RUSAGE_SELF, &ru) != nil {
		return 0
	}
	return time.Duration(ru.Utime.Nano() + ru.Stime.Nano())
}

// job is one real execution: compile gram, match input.
type job struct {
	ID    int    `json:"id"`
	Gram  string `json:"gram"`
	Input string `json:"input"`
}

// outcome of a job as observed by the parent.
type outcome struct {
	Kind string // "result" | "rejected" | "loop" | "stack-overflow" | "crash" | "not-run"
	Res  realResult
	Note string
}

// realResult is what the child reports for a terminated case.
type realResult struct {
	Rejected bool   `json:"rejected,omitempty"`
	Err      string `json:"err,omitempty"`   // compile error text (informative only)
	Panic    string `json:"panic,omitempty"` // a panic escaped a match (recovered in the child)
	Ok       bool   `json:"ok"`
	N        int    `json:"n"`
	Val      string `json:"val"`
	ParseOk  bool   `json:"parse_ok"`
	ExprOk   bool   `json:"expr_ok"`
	ParseVal string `json:"parse_val"`
	ExprVal  string `json:"expr_val"`
}

// ---------------------------------------------------------------------------------- child

func runTermChild() {
	if len(os.Args) < 4 {
		fmt.Fprintln(os.Stderr, "usage: tplh termrun <file> <from>")
		os.Exit(3)
	}
	from, _ := strconv.Atoi(os.Args[3])
	f, err := os.Open(os.Args[2])
	if err != nil {
		fmt.Fprintln(os.Stderr, err)
		os.Exit(3)
	}
	debug.SetMaxStack(childStack)
	tpl.ShowConflict(false)
	var started atomic.Int64 // unix nanos of the running case, 0 = idle
	var startCPU atomic.Int64
	go func() {
		var ms runtime.MemStats
		for {
			time.Sleep(10 * time.Millisecond)
			t := started.Load()
			if t == 0 {
				continue
			}
			if cpuTime()-time.Duration(startCPU.Load()) > cpuCap || time.Since(time.Unix(0, t)) > wallCap {
				if started.Load() == t {
					os.Exit(exitTimeout)
				}
				continue
			}
			runtime.ReadMemStats(&ms)
			if ms.HeapAlloc > heapRunaway && started.Load() == t {
				os.Exit(exitRunaway)
			}
		}
	}()
	out := bufio.NewWriter(os.Stdout)
	sc := bufio.NewScanner(f)
	sc.Buffer(make([]byte, 1<<20), 1<<26)
	var lastGram string
	var cl tpl.Compiler
	var clErr error
	line := 0
	for sc.Scan() {
		if line++; line <= from {
			continue
		}
		var j job
		if err := json.Unmarshal(sc.Bytes(), &j); err != nil {
			fmt.Fprintln(os.Stderr, "bad job:", err)
			os.Exit(3)
		}
		fmt.Fprintf(out, "#%d\n", j.ID)
		out.Flush()
		startCPU.Store(int64(cpuTime()))
		started.Store(time.Now().UnixNano())
		var r realResult
		if j.Gram != lastGram {
			lastGram = j.Gram
			cl, clErr = compileGuarded(j.Gram)
		}
		if clErr != nil {
			r.Rejected, r.Err = true, clErr.Error()
		} else {
			r = matchAll(&cl, j.Input)
		}
		started.Store(0)
		b, _ := json.Marshal(r)
		fmt.Fprintf(out, "=%d %s\n", j.ID, b)
	}
	out.Flush()
}

func compileGuarded(gram string) (cl tpl.Compiler, err error) {
	defer func() {
		if e := recover(); e != nil {
			err = fmt.Errorf("panic: %v", e)
		}
	}()
	return tpl.New(gram)
}

func matchAll(cl *tpl.Compiler, input string) (r realResult) {
	conf := &tpl.Config{ScanMode: scanner.NoInsertSemis}
	func() {
		defer func() {
			if e := recover(); e != nil {
				r.Panic = fmt.Sprint(e)
			}
		}()
		ms, res, err := cl.Match("", input, conf)
		if err == nil {
			r.Ok, r.N, r.Val = true, ms.N, projectResult(res)
		}
		res, err = cl.Parse("", input, conf)
		r.ParseOk, r.ParseVal = err == nil, projectResult(res)
		res, err = cl.ParseExpr(input, conf)
		r.ExprOk, r.ExprVal = err == nil, projectResult(res)
	}()
	return
}

// ---------------------------------------------------------------------------------- parent

// runJobs executes all jobs in watchdog children and returns one outcome per job (indexed like jobs).
// skip(i) is asked before job i is handed to a child (adaptive: classes already shown to hang).
func runJobs(jobs []job, skip func(i int) bool, report func(i int, o outcome)) {
	dir := os.Getenv("VERIF_SCRATCH_DIR")
	if dir == "" {
		dir, _ = os.MkdirTemp(os.Getenv("HOME"), "tplh-")
		defer os.RemoveAll(dir)
	}
	self, err := os.Executable()
	if err != nil {
		fmt.Fprintln(os.Stderr, "cannot find own executable:", err)
		os.Exit(3)
	}
	type chunk struct{ lo, hi int }
	var chunks []chunk
	for lo := 0; lo < len(jobs); lo += runnerChunk {
		hi := lo + runnerChunk
		if hi > len(jobs) {
			hi = len(jobs)
		}
		chunks = append(chunks, chunk{lo, hi})
	}
	var mu sync.Mutex
	var wg sync.WaitGroup
	next := 0
	for w := 0; w < runnerProcs; w++ {
		wg.Add(1)
		go func(w int) {
			defer wg.Done()
			for {
				mu.Lock()
				if next >= len(chunks) {
					mu.Unlock()
					return
				}
				c := chunks[next]
				next++
				mu.Unlock()
				runChunk(self, dir, w, jobs, c.lo, c.hi, skip, func(i int, o outcome) {
					mu.Lock()
					report(i, o)
					mu.Unlock()
				})
			}
		}(w)
	}
	wg.Wait()
}

func runChunk(self, dir string, w int, jobs []job, lo, hi int, skip func(int) bool, report func(int, outcome)) {
	pos := lo
	skipped := map[int]bool{}
	for pos < hi {
		// write the jobs still to run (skips are decided now, so a class that has just been shown to hang is dropped)
		path := filepath.Join(dir, fmt.Sprintf("jobs-%d.ndjson", w))
		f, err := os.Create(path)
		if err != nil {
			fmt.Fprintln(os.Stderr, err)
			os.Exit(3)
		}
		bw := bufio.NewWriter(f)
		var ids []int
		for i := pos; i < hi; i++ {
			if skipped[i] {
				continue
			}
			if skip != nil && skip(i) {
				skipped[i] = true
				report(i, outcome{Kind: "not-run"})
				continue
			}
			b, _ := json.Marshal(jobs[i])
			bw.Write(b)
			bw.WriteByte('\n')
			ids = append(ids, i)
		}
		bw.Flush()
		f.Close()
		if len(ids) == 0 {
			return
		}
		done := runChild(self, path, jobs, ids, report)
		if done >= len(ids) {
			return
		}
		// ids[done] is the culprit and has been reported; go on behind it
		pos = ids[done] + 1
	}
}

// runChild runs one child over the job file; returns how many of ids completed normally.  If the
// child died / was stopped inside a case, that case has been reported as loop / stack-overflow / crash.
func runChild(self, path string, jobs []job, ids []int, report func(int, outcome)) int {
	cmd := exec.Command(self, "termrun", path, "0")
	cmd.Env = append(os.Environ(), "GOTRACEBACK=single")
	stdout, _ := cmd.StdoutPipe()
	var stderr tailBuf
	cmd.Stderr = &stderr
	if err := cmd.Start(); err != nil {
		fmt.Fprintln(os.Stderr, "cannot start child:", err)
		os.Exit(3)
	}
	lines := make(chan string, 1024)
	go func() {
		sc := bufio.NewScanner(stdout)
		sc.Buffer(make([]byte, 1<<20), 1<<26)
		for sc.Scan() {
			lines <- sc.Text()
		}
		close(lines)
	}()
	byID := map[int]int{}
	for k, i := range ids {
		byID[jobs[i].ID] = k
	}
	done := 0
	running := -1 // index into ids of the case announced by "#id"
	timer := time.NewTimer(parentGrace)
	killed := false
loop:
	for {
		select {
		case ln, ok := <-lines:
			if !ok {
				break loop
			}
			if !timer.Stop() {
				select {
				case <-timer.C:
				default:
				}
			}
			timer.Reset(parentGrace)
			if strings.HasPrefix(ln, "#") {
				id, _ := strconv.Atoi(ln[1:])
				running = byID[id]
			} else if strings.HasPrefix(ln, "=") {
				sp := strings.IndexByte(ln, ' ')
				id, _ := strconv.Atoi(ln[1:sp])
				var r realResult
				if err := json.Unmarshal([]byte(ln[sp+1:]), &r); err != nil {
					fmt.Fprintln(os.Stderr, "bad child line:", ln)
					os.Exit(3)
				}
				k := byID[id]
				kind := "result"
				if r.Rejected {
					kind = "rejected"
				}
				report(ids[k], outcome{Kind: kind, Res: r})
				done = k + 1
				running = -1
			}
		case <-timer.C:
			cmd.Process.Kill()
			killed = true
		}
	}
	err := cmd.Wait()
	if done >= len(ids) && err == nil {
		return done
	}
	if running < 0 {
		// died between cases: tool failure
		fmt.Fprintf(os.Stderr, "child died outside a case: %v\n%s\n", err, stderr.String())
		os.Exit(3)
	}
	code := -1
	if ee, ok := err.(*exec.ExitError); ok {
		code = ee.ExitCode()
	}
	es := stderr.String()
	o := outcome{Kind: "crash", Note: fmt.Sprintf("exit %d: %.300s", code, es)}
	switch {
	case killed || code == exitTimeout:
		o = outcome{Kind: "loop", Note: fmt.Sprintf("no result after %v of CPU time", cpuCap)}
	case code == exitRunaway:
		o = outcome{Kind: "loop", Note: fmt.Sprintf("heap grew beyond %d MiB while matching", heapRunaway>>20)}
	case strings.Contains(es, "stack overflow") || strings.Contains(es, "goroutine stack exceeds"):
		o = outcome{Kind: "stack-overflow", Note: fmt.Sprintf("goroutine stack exceeded %d MiB (unbounded recursion)", childStack>>20)}
	}
	report(ids[running], o)
	return running
}

// tailBuf keeps the head of what is written (the first lines of a Go fatal error say what happened).
type tailBuf struct {
	mu sync.Mutex
	b  []byte
}

func (t *tailBuf) Write(p []byte) (int, error) {
	t.mu.Lock()
	if len(t.b) < 4096 {
		n := 4096 - len(t.b)
		if n > len(p) {
			n = len(p)
		}
		t.b = append(t.b, p[:n]...)
	}
	t.mu.Unlock()
	return len(p), nil
}

func (t *tailBuf) String() string {
	t.mu.Lock()
	defer t.mu.Unlock()
	return string(t.b)
}
