package main

// C29 -- grammar matching follows the documented TPL semantics.
// The halted behaviours of specs/tpl/TplMatch.tla are grouped per (grammar, input): the set of outcomes
// the README allows (success, tokens consumed, result tree).  The real Compiler.Match runs in a
// watchdog child; its outcome must be one of the allowed ones.  Pairs the model rejects or diagnoses
// as diverging are C28's domain and skipped here.

import (
	"fmt"
	"os"
	"sort"
	"strings"

	"verifharness/hlib"
)

type allowed struct {
	ok    bool
	n     int
	val   string
	undoc bool
	code  bool
}

func (a allowed) String() string {
	if !a.ok {
		return "no match"
	}
	return fmt.Sprintf("match n=%d %s", a.n, a.val)
}

type matchKey struct {
	gram, input string
	shape, ops  string
	idx         int
	size        int
	ntoks       int
	outOfDomain bool
	accg        bool
	outs        []allowed
}

type matchFail struct {
	k      *matchKey
	kind   string
	detail string
}

func runMatch() {
	keys := map[string]*matchKey{}
	var order []*matchKey
	hlib.ForEachCase(func(idx int, c *matchCase) {
		gt, it := grammarText(c.G), inputText(c.Inp)
		k := keys[gt+"\x00"+it]
		if k == nil {
			k = &matchKey{gram: gt, input: it, shape: grammarShape(c.G), ops: grammarOps(c.G), idx: idx,
				size: grammarSize(c.G), ntoks: len(c.Inp), accg: c.Accg}
			keys[gt+"\x00"+it] = k
			order = append(order, k)
		}
		if c.Pc != "done" {
			k.outOfDomain = true
			return
		}
		a := allowed{ok: c.St == "ok", undoc: c.Undoc, code: c.Code}
		if a.ok {
			a.n, a.val = c.N, c.Val.String()
		}
		for j := range k.outs {
			b := &k.outs[j]
			if b.ok == a.ok && b.n == a.n && b.val == a.val {
				b.code = b.code || a.code
				b.undoc = b.undoc && a.undoc
				return
			}
		}
		k.outs = append(k.outs, a)
	})
	sort.SliceStable(order, func(i, j int) bool {
		if order[i].size != order[j].size {
			return order[i].size < order[j].size
		}
		if order[i].gram != order[j].gram {
			return order[i].gram < order[j].gram
		}
		return order[i].input < order[j].input
	})
	var jobs []job
	var jobKey []*matchKey
	nskip := 0
	for _, k := range order {
		if k.outOfDomain {
			nskip++
			hlib.Emit(hlib.Result{Idx: k.idx, V: "skip", Detail: "the model rejects the grammar or diagnoses divergence: C28's domain"})
			continue
		}
		jobs = append(jobs, job{ID: len(jobs), Gram: k.gram, Input: k.input})
		jobKey = append(jobKey, k)
	}
	var fails []matchFail
	nhang := 0
	runJobs(jobs, func(i int) bool { return nhang >= 40 }, func(i int, o outcome) {
		k := jobKey[i]
		res := hlib.Result{Idx: k.idx, V: "ok", Input: map[string]any{"grammar": k.gram, "input": k.input},
			NT: fmt.Sprintf("%s/%d", k.shape, k.ntoks)}
		var want []string
		allUndoc := true
		for _, a := range k.outs {
			want = append(want, a.String())
			allUndoc = allUndoc && a.undoc
		}
		wants := strings.Join(want, " | ")
		switch o.Kind {
		case "not-run":
			res.V, res.Detail = "skip", "too many non-returning matches already reported"
		case "rejected":
			if !k.accg {
				// a left-recursive rule the match never reaches: the repaired compile-time analysis rejects the grammar
				res.V, res.Detail = "skip", "grammar rejected at compile time (left-recursive rule): outside C29's domain on this tree"
			} else {
				res.V, res.Sig = "drift", "model-accepts-code-rejects"
				res.Detail = fmt.Sprintf("%q: %s", k.gram, o.Res.Err)
			}
		case "result":
			if o.Res.Panic != "" {
				fails = append(fails, matchFail{k, "panic", fmt.Sprintf("grammar %q input %q: Match panics: %s; README: %s",
					k.gram, k.input, o.Res.Panic, wants)})
				return
			}
			got := allowed{ok: o.Res.Ok, n: o.Res.N, val: o.Res.Val}
			if !got.ok {
				got.n, got.val = 0, ""
			}
			var hit *allowed
			for j := range k.outs {
				a := &k.outs[j]
				if a.ok == got.ok && a.n == got.n && a.val == got.val {
					hit = a
				}
			}
			switch {
			case hit != nil && !hit.code:
				res.V, res.Sig = "drift", "allowed-but-not-the-stops-rule"
				res.Detail = fmt.Sprintf("grammar %q input %q: real %s", k.gram, k.input, got)
			case hit != nil:
				res.Detail = got.String()
			case allUndoc:
				res.V, res.Sig = "drift", "undocumented-situation"
				res.Detail = fmt.Sprintf("grammar %q input %q: real %s, model (README silent) %s", k.gram, k.input, got, wants)
			default:
				kind := "tree"
				anyOk := false
				sameN := false
				for _, a := range k.outs {
					anyOk = anyOk || a.ok
					sameN = sameN || (a.ok && a.n == got.n)
				}
				switch {
				case got.ok && !anyOk:
					kind = "accepts"
				case !got.ok && anyOk:
					kind = "rejects"
				case !sameN:
					kind = "consumed"
				}
				fails = append(fails, matchFail{k, kind, fmt.Sprintf("grammar %q input %q: real %s; README semantics: %s",
					k.gram, k.input, got, wants)})
				return
			}
		case "loop", "stack-overflow":
			nhang++
			fails = append(fails, matchFail{k, "no-return", fmt.Sprintf("grammar %q input %q: Match does not return (%s); README semantics: %s",
				k.gram, k.input, o.Note, wants)})
			return
		default:
			fmt.Fprintf(os.Stderr, "child crashed on grammar %q input %q: %s\n", k.gram, k.input, o.Note)
			hlib.Flush()
			os.Exit(3)
		}
		hlib.Emit(res)
	})
	// one signature per kind of disagreement, named after the smallest grammar that shows it
	sort.SliceStable(fails, func(i, j int) bool {
		a, b := fails[i].k, fails[j].k
		if a.size != b.size {
			return a.size < b.size
		}
		if a.ntoks != b.ntoks {
			return a.ntoks < b.ntoks
		}
		if a.gram != b.gram {
			return a.gram < b.gram
		}
		return a.input < b.input
	})
	minShape := map[string]string{}
	for _, f := range fails {
		if _, ok := minShape[f.kind]; !ok {
			minShape[f.kind] = f.k.shape
		}
	}
	for _, f := range fails {
		hlib.Emit(hlib.Result{Idx: f.k.idx, V: "viol", Sig: "match:" + f.kind + ":" + minShape[f.kind], Detail: f.detail,
			Input: map[string]any{"grammar": f.k.gram, "input": f.k.input}, NT: fmt.Sprintf("%s/%d", f.k.shape, f.k.ntoks)})
	}
	hlib.EmitRaw(map[string]any{"v": "summary", "pairs_outside_domain": nskip})
}
