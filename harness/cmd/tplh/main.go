// tplh: conformance harness for the TPL grammar-engine properties (C27..C31).
//
//	tplh parse   < cases   C31  TplGrammar.tla (Spec)     -> tpl/parser.ParseFile
//	tplh compile < cases   C27  TplGrammar.tla (SpecGen)  -> tpl.New / tpl.NewEx / cl.NewEx under recover
//	tplh term    < cases   C28  TplMatch.tla              -> accept/reject + watchdog subprocesses
//	tplh termrun <file>         (child of `term`: runs Parse/ParseExpr/Match, prints progress marks)
//	tplh match   < cases   C29  TplMatch.tla              -> Compiler.Match result trees
//	tplh fold    < cases   C30  TplFold.tla               -> List/ListOp/RangeOp/BinaryOp/BinaryExpr, calculator
package main

import (
	"fmt"
	"os"

	"verifharness/hlib"
)

func main() {
	if len(os.Args) < 2 {
		fmt.Fprintln(os.Stderr, "usage: tplh parse|compile|term|termrun|match|fold < cases.ndjson")
		os.Exit(3)
	}
	switch os.Args[1] {
	case "parse":
		runParse()
	case "compile":
		runCompile()
	case "term":
		runTerm()
	case "termrun":
		runTermChild()
	case "match":
		runMatch()
	case "fold":
		runFold()
	default:
		fmt.Fprintln(os.Stderr, "unknown mode", os.Args[1])
		os.Exit(3)
	}
	hlib.Flush()
}
