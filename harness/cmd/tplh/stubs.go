package main

func runFold() {}
