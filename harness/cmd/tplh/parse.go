package main

// C31 -- TPL grammar text parses with the documented precedence.
// Every CASE of specs/tpl/TplGrammar.tla (Spec) is a token sequence with the model parser's verdict:
// the tree it denotes, or "error".  The text is rendered (two layouts), parsed by the real
// tpl/parser.ParseFile as the rule `doc = <text>`, the AST is projected back to the model's tree
// form and compared.

import (
	"fmt"
	"strings"

	"github.com/goplus/xgo/tpl/ast"
	"github.com/goplus/xgo/tpl/parser"
	"github.com/goplus/xgo/tpl/token"

	"verifharness/hlib"
)

// gtree is the model's node [k, v, xs].
type gtree struct {
	K  string   `json:"k"`
	V  string   `json:"v"`
	Xs []*gtree `json:"xs"`
}

func (t *gtree) sexpr() string {
	if t == nil {
		return "<nil>"
	}
	switch t.K {
	case "atom":
		return t.V
	case "err":
		return "<error>"
	}
	var b strings.Builder
	b.WriteByte('(')
	if t.K == "seq" || t.K == "alt" {
		b.WriteString(t.K)
	} else {
		b.WriteString(t.V)
	}
	for _, x := range t.Xs {
		b.WriteByte(' ')
		b.WriteString(x.sexpr())
	}
	b.WriteByte(')')
	return b.String()
}

// head is the structural label of a node used in signatures.
func (t *gtree) head() string {
	if t == nil {
		return "nil"
	}
	switch t.K {
	case "atom":
		return "x"
	case "seq", "alt":
		return t.K
	case "un":
		return "unary"
	}
	return t.V
}

// atom spellings of the model -> grammar text (injective)
var atomText = map[string]string{"S": `"x"`, "C": `'c'`, "T": "`y`"}
var textAtom = map[string]string{`"x"`: "S", `'c'`: "C", "`y`": "T"}

func tokText(t string) string {
	if s, ok := atomText[t]; ok {
		return s
	}
	return t
}

// project maps a tpl/ast expression to the model's tree form.
func project(e ast.Expr) *gtree {
	switch e := e.(type) {
	case nil:
		return nil
	case *ast.Ident:
		return &gtree{K: "atom", V: e.Name}
	case *ast.BasicLit:
		if a, ok := textAtom[e.Value]; ok {
			return &gtree{K: "atom", V: a}
		}
		return &gtree{K: "atom", V: e.Value}
	case *ast.UnaryExpr:
		return &gtree{K: "un", V: e.Op.String(), Xs: []*gtree{project(e.X)}}
	case *ast.BinaryExpr:
		return &gtree{K: "bin", V: e.Op.String(), Xs: []*gtree{project(e.X), project(e.Y)}}
	case *ast.Sequence:
		t := &gtree{K: "seq"}
		for _, x := range e.Items {
			t.Xs = append(t.Xs, project(x))
		}
		return t
	case *ast.Choice:
		t := &gtree{K: "alt"}
		for _, x := range e.Options {
			t.Xs = append(t.Xs, project(x))
		}
		return t
	}
	return &gtree{K: "atom", V: fmt.Sprintf("<%T>", e)}
}

// firstDiff walks both trees and names the first node where they differ.
func firstDiff(want, got *gtree) string {
	if want == nil || got == nil {
		return "want=" + want.head() + ":got=" + got.head()
	}
	if want.K != got.K || want.V != got.V || len(want.Xs) != len(got.Xs) {
		return "want=" + want.head() + ":got=" + got.head()
	}
	for i := range want.Xs {
		if d := firstDiff(want.Xs[i], got.Xs[i]); d != "" {
			return d
		}
	}
	return ""
}

// defective reports the kind of hole an accepted tree contains (the "empty rule" of the statement).
func defective(t *gtree) string {
	if t == nil {
		return "nil-operand"
	}
	if (t.K == "seq" || t.K == "alt") && len(t.Xs) == 0 {
		return "empty-" + t.K
	}
	for _, x := range t.Xs {
		if d := defective(x); d != "" {
			return d
		}
	}
	return ""
}

func isWord(c byte) bool {
	return c == '_' || c >= '0' && c <= '9' || c >= 'a' && c <= 'z' || c >= 'A' && c <= 'Z'
}
func isOpCh(c byte) bool { return strings.IndexByte("*+?%|=<>!&^-/:.", c) >= 0 }

// render joins tokens; tight=false: one blank between tokens; tight=true: a blank only where two
// tokens would otherwise fuse (word+word, operator+operator).
func render(toks []string, tight bool) string {
	var b strings.Builder
	for i, t := range toks {
		s := tokText(t)
		if i > 0 {
			prev := b.String()
			l, r := prev[len(prev)-1], s[0]
			if !tight || isWord(l) && isWord(r) || isOpCh(l) && isOpCh(r) {
				b.WriteByte(' ')
			}
		}
		b.WriteString(s)
	}
	return b.String()
}

type parseCase struct {
	Toks []string `json:"toks"`
	Ok   bool     `json:"ok"`
	T    *gtree   `json:"t"`
	Mut  string   `json:"mut"`
	At   int      `json:"at"`
}

// parseRuleText parses `doc = <text>` and returns the projected expression of the first rule.
func parseRuleText(text string) (t *gtree, nrules int, err error) {
	fset := token.NewFileSet()
	f, err := parser.ParseFile(fset, "", "doc = "+text+"\n", nil)
	if f != nil {
		nrules = len(f.Decls)
		if nrules > 0 {
			if r, ok := f.Decls[0].(*ast.Rule); ok {
				t = project(r.Expr)
			}
		}
	}
	return
}

func runParse() {
	hlib.ForEachCase(func(idx int, c *parseCase) {
		res := hlib.Result{Idx: idx, V: "ok"}
		fail := func(sig, d string) {
			if res.V != "viol" {
				res.V, res.Sig, res.Detail = "viol", sig, d
			}
		}
		want := "<error>"
		if c.Ok {
			want = c.T.sexpr()
		}
		for _, tight := range []bool{false, true} {
			text := render(c.Toks, tight)
			res.Input = map[string]any{"rule": "doc = " + text, "mut": c.Mut}
			func() {
				defer func() {
					if e := recover(); e != nil {
						fail("parser-panic", fmt.Sprintf("doc = %s: panic %v", text, e))
					}
				}()
				got, nrules, err := parseRuleText(text)
				switch {
				case c.Ok && err != nil:
					fail("valid-rejected:"+c.T.head(), fmt.Sprintf("doc = %s: want %s, got error %v", text, want, err))
				case c.Ok && (nrules != 1 || got == nil):
					fail("valid-rejected:"+c.T.head(), fmt.Sprintf("doc = %s: want %s, got %d rules", text, want, nrules))
				case c.Ok:
					if d := firstDiff(c.T, got); d != "" {
						fail("tree:"+d, fmt.Sprintf("doc = %s: want %s, got %s", text, want, got.sexpr()))
					}
				case err == nil:
					kind := "other"
					if nrules == 0 {
						kind = "no-rule"
					} else if d := defective(got); d != "" {
						kind = d
					}
					fail("malformed-accepted:"+kind, fmt.Sprintf("doc = %s: the documented grammar has no such expression (%s at token %d), "+
						"but ParseFile returned no error; tree %s", text, c.Mut, c.At, got.sexpr()))
				}
			}()
		}
		if c.Ok {
			res.NT = c.Mut + ":" + shape(c.T)
		} else {
			res.NT = c.Mut + ":err:" + strings.Join(kinds(c.Toks), "")
		}
		if res.V == "ok" {
			res.Detail = want
		}
		hlib.Emit(res)
	})
}

// shape erases atom names: distinct shapes are what makes cases distinct.
func shape(t *gtree) string {
	if t == nil {
		return "nil"
	}
	if t.K == "atom" {
		return "_"
	}
	s := "(" + t.head()
	if t.K == "un" {
		s = "(" + t.V
	}
	for _, x := range t.Xs {
		s += shape(x)
	}
	return s + ")"
}

func kinds(toks []string) []string {
	r := make([]string, len(toks))
	for i, t := range toks {
		switch t {
		case "*", "+", "?", "++", "%", "|", "(", ")":
			r[i] = t
		default:
			r[i] = "_"
		}
	}
	return r
}
