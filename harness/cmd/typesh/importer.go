package main

// A gc-export-data importer whose export files are located by ONE `go list -export -deps` call
// (gogen's packages.Importer runs one `go list -export` per imported package, which dominates
// the run time on a loaded machine).  Packages outside the prefetched set fall back to a single
// `go list -export` each.

import (
	"bytes"
	"fmt"
	"go/types"
	"io"
	"os"
	"os/exec"
	"strings"
	"sync"

	"github.com/goplus/gogen/packages"
	"github.com/goplus/xgo/token"

	"verifharness/xgolib"
)

type exportCache struct {
	mu  sync.Mutex
	m   map[string]string
	dir string
}

func goListEnv() []string {
	return append(os.Environ(), "GOFLAGS=-mod=mod", "GOPROXY=off", "GOSUMDB=off", "GOTOOLCHAIN=local")
}

func (c *exportCache) prefetch(roots ...string) {
	args := append([]string{"list", "-export", "-deps", "-f", "{{.ImportPath}}\t{{.Export}}"}, roots...)
	cmd := exec.Command("go", args...)
	cmd.Dir = c.dir
	cmd.Env = goListEnv()
	out, err := cmd.Output()
	if err != nil {
		return // fall back to per-package lookups
	}
	c.mu.Lock()
	defer c.mu.Unlock()
	for _, l := range strings.Split(string(out), "\n") {
		if i := strings.IndexByte(l, '\t'); i > 0 && len(l) > i+1 {
			c.m[l[:i]] = l[i+1:]
		}
	}
}

// Find implements packages.Cache.
func (c *exportCache) Find(dir, pkgPath string) (io.ReadCloser, error) {
	c.mu.Lock()
	p, ok := c.m[pkgPath]
	c.mu.Unlock()
	if !ok {
		cmd := exec.Command("go", "list", "-export", "-f", "{{.Export}}", pkgPath)
		cmd.Dir = c.dir
		cmd.Env = goListEnv()
		out, err := cmd.Output()
		if err != nil {
			return nil, fmt.Errorf("go list -export %s: %v", pkgPath, err)
		}
		p = string(bytes.TrimSpace(out))
		c.mu.Lock()
		c.m[pkgPath] = p
		c.mu.Unlock()
	}
	if p == "" {
		return nil, fmt.Errorf("no export data for %s", pkgPath)
	}
	return os.Open(p)
}

var (
	fastOnce sync.Once
	fastImp  *packages.Importer
)

// fastImporter returns the process-wide importer (not safe for concurrent use: callers serialise).
func fastImporter() types.Importer {
	fastOnce.Do(func() {
		dir := xgolib.RepoDir()
		c := &exportCache{m: map[string]string{}, dir: dir}
		// what cl.NewPackage loads for every XGo package, plus what the generated programs import
		c.prefetch("fmt", "os", "strconv", "strings", "errors", "reflect", "math/big",
			"github.com/qiniu/x/xgo", "github.com/qiniu/x/xgo/ng", "github.com/qiniu/x/stringutil",
			"github.com/qiniu/x/stringslice", "github.com/qiniu/x/osx", "github.com/qiniu/x/errors")
		fastImp = packages.NewImporter(token.NewFileSet(), dir)
		fastImp.SetCache(c)
	})
	return fastImp
}
