package main

// Observation of recorded type information: the text is checked once through
// x/typesutil (as an XGo file) and, for Go-compatible programs, once through go/types;
// both results are projected onto position-keyed tables.

import (
	"fmt"
	goast "go/ast"
	goparser "go/parser"
	gotoken "go/token"
	"go/types"
	"reflect"
	"sort"
	"strings"
	"sync"

	"github.com/goplus/mod/xgomod"
	"github.com/goplus/xgo/ast"
	"github.com/goplus/xgo/parser"
	"github.com/goplus/xgo/token"
	"github.com/goplus/xgo/x/typesutil"

)

// One importer per process: warming it up costs a `go list -export` per imported package, and
// gogen initialises imported XGo packages in place, so checks through x/typesutil are serialised
// (like xgolib.Compile).  go/types on import-free programs runs outside the lock.
var (
	impOnce sync.Once
	impMu   sync.Mutex
	theImp  types.Importer
)

func getImporter() types.Importer {
	impMu.Lock()
	impOnce.Do(func() {
		theImp = fastImporter()
	})
	return theImp
}

func putImporter(types.Importer) { impMu.Unlock() }

type pos struct{ Line, Col int }

func (p pos) String() string { return fmt.Sprintf("%d:%d", p.Line, p.Col) }

// objObs is the projection of a types.Object the property talks about.
type objObs struct {
	Name string
	Kind string // Var Const Func TypeName PkgName Builtin Nil Label
	Type string
	Pos  pos  // declaration position (0:0 = no position, e.g. universe / imported)
	InFile bool // declared inside the checked file
}

func kindOf(o types.Object) string {
	switch v := o.(type) {
	case nil:
		return "nil"
	case *types.Var:
		if v.IsField() {
			return "Field"
		}
		return "Var"
	case *types.Const:
		return "Const"
	case *types.Func:
		return "Func"
	case *types.TypeName:
		return "TypeName"
	case *types.PkgName:
		return "PkgName"
	case *types.Builtin:
		return "Builtin"
	case *types.Label:
		return "Label"
	case *types.Nil:
		return "Nil"
	}
	return fmt.Sprintf("%T", o)
}

func typeStr(o types.Object) string {
	if o == nil || o.Type() == nil {
		return "<nil>"
	}
	return types.TypeString(o.Type(), func(p *types.Package) string { return p.Name() })
}

// identObs: what the maps say about one identifier of the file.
type identObs struct {
	Pos    pos
	Name   string
	InDefs bool    // key present in Defs
	Def    *objObs // nil: Defs[id] == nil (or absent)
	Use    *objObs // nil: absent from Uses
}

type foreignNode struct {
	Map  string // Types Scopes Implicits Selections Defs Uses
	Kind string // node kind, e.g. *ast.Ident
	Why  string // unreachable | outside-range | nil-node
}

type infoObs struct {
	Err      error  // error of Checker.Files / parse
	Stage    string // parse | check | ok
	Panic    any
	Idents   map[pos]*identObs
	Order    []pos
	Foreign  []foreignNode
	NTypes   int
	NScopes  int
	ScopeKinds map[string]int
	File     *ast.File
	Fset     *token.FileSet
	Info     *typesutil.Info
	IdentAt  map[pos]*ast.Ident
	ScopeAt  map[string]int // "<NodeKind>@line:col" -> count
}

func nodeKind(n any) string {
	if n == nil {
		return "nil"
	}
	return strings.TrimPrefix(reflect.TypeOf(n).String(), "*ast.")
}

// checkXGo runs the text through typesutil.Checker as one XGo file.
func checkXGo(filename, src string) (out *infoObs) {
	imp := getImporter()
	defer putImporter(imp)
	out = &infoObs{Stage: "parse", Idents: map[pos]*identObs{}, ScopeKinds: map[string]int{},
		IdentAt: map[pos]*ast.Ident{}, ScopeAt: map[string]int{}}
	defer func() {
		if r := recover(); r != nil {
			out.Panic = r
		}
	}()
	fset := token.NewFileSet()
	out.Fset = fset
	f, err := parser.ParseEntry(fset, filename, src, parser.Config{Mode: parser.ParseComments})
	if err != nil {
		out.Err = err
		return
	}
	out.File = f
	out.Stage = "check"
	var errs []error
	conf := &types.Config{Importer: imp, Error: func(e error) { errs = append(errs, e) }}
	opts := &typesutil.Config{Types: types.NewPackage("main", f.Name.Name), Fset: fset, Mod: xgomod.Default}
	info := &typesutil.Info{
		Types:      make(map[ast.Expr]types.TypeAndValue),
		Defs:       make(map[*ast.Ident]types.Object),
		Uses:       make(map[*ast.Ident]types.Object),
		Implicits:  make(map[ast.Node]types.Object),
		Selections: make(map[*ast.SelectorExpr]*types.Selection),
		Scopes:     make(map[ast.Node]*types.Scope),
		Overloads:  make(map[*ast.Ident]types.Object),
	}
	out.Info = info
	ginfo := &types.Info{
		Types: make(map[goast.Expr]types.TypeAndValue),
		Defs:  make(map[*goast.Ident]types.Object),
		Uses:  make(map[*goast.Ident]types.Object),
	}
	err = typesutil.NewChecker(conf, opts, ginfo, info).Files(nil, []*ast.File{f})
	if err != nil {
		out.Err = err
		return
	}
	if len(errs) > 0 {
		out.Err = errs[0]
		return
	}
	out.Stage = "ok"
	tf := fset.File(f.Pos())
	// every node reachable from the file root
	reach := map[ast.Node]bool{}
	reachable(reflect.ValueOf(f), reach, map[uintptr]bool{})
	inFile := func(p token.Pos) bool {
		return p.IsValid() && fset.File(p) == tf
	}
	toPos := func(p token.Pos) pos {
		if !p.IsValid() {
			return pos{}
		}
		pp := fset.Position(p)
		return pos{pp.Line, pp.Column}
	}
	obs := func(o types.Object) *objObs {
		if o == nil {
			return nil
		}
		r := &objObs{Name: o.Name(), Kind: kindOf(o), Type: typeStr(o)}
		if inFile(o.Pos()) {
			r.Pos, r.InFile = toPos(o.Pos()), true
		} else if o.Pos().IsValid() {
			r.Pos = pos{-1, -1}
		}
		return r
	}
	foreign := func(m string, n ast.Node) {
		switch {
		case n == nil || isNilNode(n):
			out.Foreign = append(out.Foreign, foreignNode{m, nodeKind(n), "nil-node"})
		case !reach[n]:
			out.Foreign = append(out.Foreign, foreignNode{m, nodeKind(n), "unreachable"})
		case !(inFile(n.Pos()) && n.Pos() >= f.Pos() && n.End() <= token.Pos(tf.Base()+tf.Size())+1):
			out.Foreign = append(out.Foreign, foreignNode{m, nodeKind(n), "outside-range"})
		}
	}
	get := func(id *ast.Ident) *identObs {
		p := toPos(id.Pos())
		io := out.Idents[p]
		if io == nil {
			io = &identObs{Pos: p, Name: id.Name}
			out.Idents[p] = io
			out.Order = append(out.Order, p)
		}
		return io
	}
	ast.Inspect(f, func(n ast.Node) bool {
		if id, ok := n.(*ast.Ident); ok && id != nil {
			get(id)
			out.IdentAt[toPos(id.Pos())] = id
		}
		return true
	})
	inWalk := map[ast.Node]bool{}
	ast.Inspect(f, func(n ast.Node) bool {
		if n != nil {
			inWalk[n] = true
		}
		return true
	})
	for id, o := range info.Defs {
		foreign("Defs", id)
		if !inWalk[id] {
			continue
		}
		io := get(id)
		io.InDefs = true
		io.Def = obs(o)
	}
	for id, o := range info.Uses {
		foreign("Uses", id)
		if !inWalk[id] {
			continue
		}
		io := get(id)
		io.Use = obs(o)
		if io.Use == nil {
			io.Use = &objObs{Kind: "nil"}
		}
	}
	for e := range info.Types {
		foreign("Types", e)
	}
	for n := range info.Scopes {
		foreign("Scopes", n)
		out.ScopeKinds[nodeKind(n)]++
		if n != nil && !isNilNode(n) {
			out.ScopeAt[nodeKind(n)+"@"+toPos(n.Pos()).String()]++
		}
	}
	for n := range info.Implicits {
		foreign("Implicits", n)
	}
	for n := range info.Selections {
		foreign("Selections", n)
	}
	for id := range info.Overloads {
		foreign("Overloads", id)
	}
	out.NTypes, out.NScopes = len(info.Types), len(info.Scopes)
	sort.Slice(out.Order, func(i, j int) bool {
		a, b := out.Order[i], out.Order[j]
		return a.Line < b.Line || a.Line == b.Line && a.Col < b.Col
	})
	sort.Slice(out.Foreign, func(i, j int) bool {
		a, b := out.Foreign[i], out.Foreign[j]
		return a.Map+a.Kind+a.Why < b.Map+b.Kind+b.Why
	})
	return
}

var nodeType = reflect.TypeOf((*ast.Node)(nil)).Elem()

// reachable collects every ast.Node that can be reached from v through struct fields, slices and
// pointers (ast.Walk deliberately skips the name and type of the shadow `main`; they still belong
// to the file).  *ast.Object / *ast.Scope links are not followed.
func reachable(v reflect.Value, acc map[ast.Node]bool, seen map[uintptr]bool) {
	switch v.Kind() {
	case reflect.Interface:
		if !v.IsNil() {
			reachable(v.Elem(), acc, seen)
		}
	case reflect.Ptr:
		if v.IsNil() {
			return
		}
		switch v.Interface().(type) {
		case *ast.Object, *ast.Scope:
			return
		}
		if seen[v.Pointer()] {
			return
		}
		seen[v.Pointer()] = true
		if v.Type().Implements(nodeType) {
			acc[v.Interface().(ast.Node)] = true
		}
		reachable(v.Elem(), acc, seen)
	case reflect.Struct:
		for i := 0; i < v.NumField(); i++ {
			if v.Type().Field(i).IsExported() {
				reachable(v.Field(i), acc, seen)
			}
		}
	case reflect.Slice, reflect.Array:
		for i := 0; i < v.Len(); i++ {
			reachable(v.Index(i), acc, seen)
		}
	case reflect.Map:
		it := v.MapRange()
		for it.Next() {
			reachable(it.Value(), acc, seen)
		}
	}
}

func isNilNode(n ast.Node) bool {
	v := reflect.ValueOf(n)
	return v.Kind() == reflect.Ptr && v.IsNil()
}

// goObs: go/types on the same text.
type goObs struct {
	Err     error
	Soft    int // soft errors (declared and not used ...) tolerated
	Idents  map[pos]*identObs
	ScopeAt map[string]int
}

func checkGo(filename, src string) (out *goObs) {
	var imp types.Importer
	if strings.Contains(src, "import") {
		imp = getImporter()
		defer putImporter(imp)
	}
	out = &goObs{Idents: map[pos]*identObs{}, ScopeAt: map[string]int{}}
	fset := gotoken.NewFileSet()
	f, err := goparser.ParseFile(fset, filename, src, goparser.ParseComments)
	if err != nil {
		out.Err = err
		return
	}
	var hard error
	conf := &types.Config{Importer: imp, Error: func(e error) {
		if te, ok := e.(types.Error); ok && te.Soft {
			out.Soft++
			return
		}
		if hard == nil {
			hard = e
		}
	}}
	info := &types.Info{
		Defs:   make(map[*goast.Ident]types.Object),
		Uses:   make(map[*goast.Ident]types.Object),
		Scopes: make(map[goast.Node]*types.Scope),
	}
	types.NewChecker(conf, fset, types.NewPackage("main", f.Name.Name), info).Files([]*goast.File{f})
	if hard != nil {
		out.Err = hard
		return
	}
	tf := fset.File(f.Pos())
	toPos := func(p gotoken.Pos) pos {
		pp := fset.Position(p)
		return pos{pp.Line, pp.Column}
	}
	obs := func(o types.Object) *objObs {
		if o == nil {
			return nil
		}
		r := &objObs{Name: o.Name(), Kind: kindOf(o), Type: typeStr(o)}
		if o.Pos().IsValid() && fset.File(o.Pos()) == tf {
			r.Pos, r.InFile = toPos(o.Pos()), true
		} else if o.Pos().IsValid() {
			r.Pos = pos{-1, -1}
		}
		return r
	}
	get := func(id *goast.Ident) *identObs {
		p := toPos(id.Pos())
		io := out.Idents[p]
		if io == nil {
			io = &identObs{Pos: p, Name: id.Name}
			out.Idents[p] = io
		}
		return io
	}
	goast.Inspect(f, func(n goast.Node) bool {
		if id, ok := n.(*goast.Ident); ok && id != nil {
			get(id)
		}
		return true
	})
	for id, o := range info.Defs {
		io := get(id)
		io.InDefs = true
		io.Def = obs(o)
	}
	for id, o := range info.Uses {
		get(id).Use = obs(o)
	}
	for n := range info.Scopes {
		k := strings.TrimPrefix(reflect.TypeOf(n).String(), "*ast.")
		out.ScopeAt[k+"@"+toPos(n.Pos()).String()]++
	}
	return
}

// probeInfo dumps both views of a file (development aid).
func probeInfo(args []string) {
	for _, fn := range args {
		b, err := readFile(fn)
		if err != nil {
			fmt.Println(err)
			continue
		}
		x := checkXGo("main.xgo", string(b))
		fmt.Printf("== %s: xgo stage=%s err=%v panic=%v types=%d scopes=%v\n", fn, x.Stage, x.Err, x.Panic, x.NTypes, x.ScopeKinds)
		g := checkGo("main.go", string(b))
		fmt.Printf("   go err=%v soft=%d\n", g.Err, g.Soft)
		for _, p := range x.Order {
			io := x.Idents[p]
			fmt.Printf("  %-6s %-8s def=%s use=%s", p, io.Name, fmtObj(io.InDefs, io.Def), fmtObj(io.Use != nil, io.Use))
			if gi := g.Idents[p]; gi != nil {
				fmt.Printf("   | go def=%s use=%s", fmtObj(gi.InDefs, gi.Def), fmtObj(gi.Use != nil, gi.Use))
			}
			fmt.Println()
		}
		for _, fo := range x.Foreign {
			fmt.Printf("  FOREIGN %+v\n", fo)
		}
	}
}

func fmtObj(present bool, o *objObs) string {
	if !present {
		return "-"
	}
	if o == nil {
		return "nil"
	}
	return fmt.Sprintf("[%s %s %s @%s]", o.Kind, o.Name, o.Type, o.Pos)
}
