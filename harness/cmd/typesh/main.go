// typesh: conformance harness for the type-information family
// (C12 recorded type info invariants, C25 Go -> XGo style conversion).
package main

import (
	"fmt"
	"os"

	"verifharness/hlib"
)

func main() {
	if len(os.Args) < 2 {
		fmt.Fprintln(os.Stderr, "usage: typesh scopes|gopstyle|probe-info <file>|probe-style <file> < cases.ndjson")
		os.Exit(3)
	}
	switch os.Args[1] {
	case "scopes":
		runScopes()
	case "gopstyle":
		runGopStyle()
	case "probe-info":
		probeInfo(os.Args[2:])
	case "probe-style":
		probeStyle(os.Args[2:])
	default:
		fmt.Fprintln(os.Stderr, "unknown mode", os.Args[1])
		os.Exit(3)
	}
	hlib.Flush()
}
