package main

// C25 -- replay of specs/types/GopStyle.tla: every program description of the model is rendered
// as a Go main package, converted with xformat.GopstyleSource, compiled with the XGo compiler,
// built and run; stdout / stderr / exit status must equal those of the original Go program
// (oracle D = the Go tool chain).  The model's predicted shape of the rewrite is compared with
// the converted text for drift only.

import (
	"fmt"
	"os"
	"sort"
	"strings"

	"github.com/goplus/xgo/ast"
	"github.com/goplus/xgo/parser"
	"github.com/goplus/xgo/token"

	"verifharness/hlib"
	"verifharness/xgolib"
)

type gsDesc struct {
	Fn        string `json:"fn"`
	W         string `json:"w"`
	Pos       string `json:"pos"`
	Arg       string `json:"arg"`
	Sh        string `json:"sh"`
	Shk       string `json:"shk"`
	Sel       string `json:"sel"`
	Lit       string `json:"lit"`
	Callee    string `json:"callee"`
	MainPos   string `json:"mainpos"`
	MainFirst string `json:"mainfirst"`
	Keep      bool   `json:"keep"`
}

type gsShape struct {
	FmtSite string `json:"fmtsite"`
	Cmd     string `json:"cmd"`
	SelSite string `json:"selsite"`
	LitSite string `json:"litsite"`
	MainSt  string `json:"mainst"`
	Pkg     string `json:"pkg"`
	Imp     string `json:"imp"`
	Builtin string `json:"builtin"`
}

type gsCase struct {
	D     gsDesc  `json:"d"`
	Shape gsShape `json:"shape"`
	Prop  bool    `json:"prop"`
	Src   string  `json:"src,omitempty"` // replay of a literal Go text instead of a description
}

var builtinOf = map[string]string{
	"Println": "echo", "Print": "print", "Printf": "printf", "Fprint": "fprint", "Fprintf": "fprintf",
	"Fprintln": "fprintln", "Sprint": "sprint", "Sprintf": "sprintf", "Sprintln": "sprintln", "Errorf": "errorf",
}

func isFormatFn(fn string) bool {
	switch fn {
	case "Printf", "Fprintf", "Sprintf", "Errorf":
		return true
	}
	return false
}

// ---------------------------------------------------------------------------- Go text of a description

func renderGoProgram(d gsDesc) string {
	var imports []string
	imp := func(s string) {
		for _, x := range imports {
			if x == s {
				return
			}
		}
		imports = append(imports, s)
	}
	imp(`"os"`)
	imp(`"strconv"`)
	var pre, mainBody, post []string // package-level text before main, statements of main, text after main
	p := func(f string, a ...any) { pre = append(pre, fmt.Sprintf(f, a...)) }
	m := func(f string, a ...any) { mainBody = append(mainBody, fmt.Sprintf(f, a...)) }

	p("func out(s string) { os.Stdout.WriteString(s + \"\\n\") }")
	p("func itoa(n int) string { return strconv.Itoa(n) }")

	usesFmt := true // the fmt site
	X := d.Sh

	// ---- main's first statement
	switch d.MainFirst {
	case "call":
		m(`out("start")`)
	case "var":
		p("var n = 1")
		p(`func show() { out("n=" + itoa(n)) }`)
		m("var n = 2")
		m("show()")
		m("out(itoa(n))")
	case "define":
		p("var n = 1")
		p(`func show() { out("n=" + itoa(n)) }`)
		m("n := 2")
		m("show()")
		m("out(itoa(n))")
	}

	// ---- the fmt call site
	vals := map[string]string{"str": `"s", 1`, "neg": `-1, "s"`, "paren": `(1+2)*3, "s"`, "none": ``}[d.Arg]
	args := vals
	if isFormatFn(d.Fn) {
		f := `"%v|%v\n"`
		if d.Fn == "Errorf" {
			f = `"bad %v %v"`
		}
		args = f + ", " + vals
	}
	if d.W != "-" && d.W != "" {
		if args == "" {
			args = "os." + d.W
		} else {
			args = "os." + d.W + ", " + args
		}
	}
	call := "fmt." + d.Fn + "(" + args + ")"
	var site []string
	switch {
	case d.Fn == "Sscan":
		site = []string{"var k int", `fmt.Sscan("42", &k)`, "out(itoa(k))"}
	case d.Pos == "stmt":
		site = []string{call}
	case d.Pos == "defer":
		site = []string{"defer " + call}
	case d.Pos == "assign":
		switch {
		case strings.HasPrefix(d.Fn, "S"):
			site = []string{"s := " + call, "out(s)"}
		case d.Fn == "Errorf":
			site = []string{"e := " + call, "out(e.Error())"}
		default:
			site = []string{"cnt, _ := " + call, "out(itoa(cnt))"}
		}
	case d.Pos == "arg":
		switch {
		case strings.HasPrefix(d.Fn, "S"):
			site = []string{"out(" + call + ")"}
		case d.Fn == "Errorf":
			site = []string{"out(" + call + ".Error())"}
		default:
			p("func use(n int, err error) { out(itoa(n)) }")
			site = []string{"use(" + call + ")"}
		}
	}

	// ---- the shadowing declaration
	if X == "fmt" {
		p("type printer struct{}")
		p(`func (printer) Println(a ...any) { out("printer.Println") }`)
		p(`func (printer) Printf(f string, a ...any) { out("printer.Printf") }`)
		p(`func (printer) Print(a ...any) { out("printer.Print") }`)
		p(`func other() { fmt.Println("real fmt") }`)
		m("other()")
	}
	shVal := `"v"`
	shType := "string"
	if X == "fmt" {
		shVal, shType = "printer{}", "printer"
	}
	useX := func() string {
		if X == "fmt" {
			return ""
		}
		return "out(" + X + ")"
	}
	inFunc, inLit := false, false
	switch d.Shk {
	case "local":
		m("var %s = %s", X, shVal)
		if u := useX(); u != "" {
			m(u)
		}
	case "define":
		m("%s := %s", X, shVal)
		if u := useX(); u != "" {
			m(u)
		}
		if X == "fmt" {
			m("_ = fmt")
		}
	case "param":
		inFunc = true
	case "litparam":
		inLit = true
	case "pkgvar":
		p("var %s = %s", X, shVal)
		m(useX())
	case "pkgfunc":
		p(`func %s(a ...any) { out("[user %s]") }`, X, X)
		m(`%s("u")`, X)
	case "import":
		imp(X + ` "strings"`)
		m(`out(%s.ToUpper("q"))`, X)
	}
	if d.Shk == "local" && X == "fmt" {
		m("_ = fmt")
	}
	if inLit {
		// the site sits inside a function-literal ARGUMENT whose parameter has the shadowing name
		body := strings.Join(site, "\n\t\t")
		if u := useX(); u != "" {
			body = u + "\n\t\t" + body
		}
		p("func each1(f func(%s)) { f(%s) }", shType, shVal)
		m("each1(func(%s %s) {\n\t\t%s\n\t})", X, shType, body)
	} else if inFunc {
		body := strings.Join(site, "\n\t")
		u := useX()
		if u != "" {
			u += "\n\t"
		}
		p("func site(%s %s) {\n\t%s%s\n}", X, shType, u, body)
		m("site(%s)", shVal)
	} else {
		mainBody = append(mainBody, site...)
	}

	// ---- the selector call
	switch d.Sel {
	case "pkgfn":
		hasStrings := false
		for _, x := range imports {
			if strings.HasSuffix(x, `"strings"`) && !strings.Contains(x, " ") {
				hasStrings = true
			}
		}
		if !hasStrings {
			imp(`"strings"`)
		}
		m(`out(strings.ToUpper("up"))`)
	case "method1":
		p("type T struct{}")
		p(`func (T) Get() string { return "upper" }`)
		m("var t T")
		m("out(t.Get())")
	case "method2":
		p("type T struct{}")
		p(`func (T) Get() string { return "upper" }`)
		p(`func (T) get() string { return "lower" }`)
		m("var t T")
		m("out(t.Get())")
		m("out(t.get())")
	case "field":
		p("type S struct{ F func() string }")
		m(`s := S{F: func() string { return "field" }}`)
		m("out(s.F())")
	case "methprint":
		p("type T struct{}")
		p(`func (T) Println(s string) { out("T.Println " + s) }`)
		m("var t T")
		m(`t.Println("x")`)
	}

	// ---- the function-literal argument
	if d.Callee == "any" {
		p("func applyAny(f any) int { return f.(func(int) int)(1) }")
	}
	switch d.Lit {
	case "ret1":
		if d.Callee == "any" {
			m("out(itoa(applyAny(func(x int) int { return x + 41 })))")
		} else {
			p("func apply1(f func(int) int, x int) int { return f(x) }")
			m("out(itoa(apply1(func(x int) int { return x + 1 }, 1)))")
		}
	case "ret2":
		p("func apply2(f func(int) (int, int), x int) int { a, b := f(x); return a + b }")
		m("out(itoa(apply2(func(x int) (int, int) { return x, x * 2 }, 2)))")
	case "named":
		p("func apply1(f func(int) int, x int) int { return f(x) }")
		m("out(itoa(apply1(func(x int) (r int) { r = x * 3; return }, 1)))")
	case "unnamed":
		p("func apply1(f func(int) int, x int) int { return f(x) }")
		m("out(itoa(apply1(func(int) int { return 9 }, 1)))")
	case "multi":
		if d.Callee == "any" {
			m("out(itoa(applyAny(func(x int) int { y := x * x; return y + 1 })))")
		} else {
			p("func apply1(f func(int) int, x int) int { return f(x) }")
			m("out(itoa(apply1(func(x int) int { y := x * x; return y }, 5)))")
		}
	case "noparam":
		p("func apply0(f func() int) int { return f() }")
		m("out(itoa(apply0(func() int { return 3 })))")
	case "void":
		p("func run(f func()) { f() }")
		m(`run(func() { out("in run") })`)
	case "barereturn":
		p("func run(f func()) { f() }")
		m(`run(func() { return })`)
		m(`out("after run")`)
	case "voidmulti":
		p("func run(f func()) { f() }")
		m("run(func() {\n\t\tout(\"a\")\n\t\tout(\"b\")\n\t})")
	}

	// ---- fmt stays used
	if d.Keep {
		p("func keepfmt() {\n\tvar k int\n\tfmt.Sscan(\"7\", &k)\n\tout(itoa(k))\n}")
		m("keepfmt()")
	}
	if d.MainPos == "notlast" {
		m("tail()")
		post = append(post, `func tail() { out("tail") }`)
	}
	if usesFmt {
		imports = append([]string{`"fmt"`}, imports...)
	}

	var sb strings.Builder
	sb.WriteString("package main\n\nimport (\n")
	for _, i := range imports {
		sb.WriteString("\t" + i + "\n")
	}
	sb.WriteString(")\n\n")
	for _, s := range pre {
		sb.WriteString(s + "\n\n")
	}
	sb.WriteString("func main() {\n")
	for _, s := range mainBody {
		if s == "" {
			continue
		}
		sb.WriteString("\t" + s + "\n")
	}
	sb.WriteString("}\n")
	for _, s := range post {
		sb.WriteString("\n" + s + "\n")
	}
	return sb.String()
}

// ---------------------------------------------------------------------------- signature

func gsSignature(d gsDesc) string {
	var parts []string
	clash := false
	if d.Sh != "-" && d.Sh != "" {
		switch {
		case d.Sh == "fmt":
			parts = append(parts, "shadow=fmt:"+d.Shk)
			clash = true
		case d.Sh == builtinOf[d.Fn]:
			parts = append(parts, "shadow=builtin:"+d.Shk)
			clash = true
		default:
			parts = append(parts, "shadow="+d.Sh+":"+d.Shk)
		}
	}
	if !clash {
		if d.Fn != "Println" {
			parts = append(parts, "fn="+d.Fn)
		}
		defPos := "stmt"
		if strings.HasPrefix(d.Fn, "S") || d.Fn == "Errorf" {
			defPos = "assign"
		}
		if d.Pos != defPos {
			parts = append(parts, "pos="+d.Pos)
		}
		if d.Arg != "str" {
			parts = append(parts, "arg="+d.Arg)
		}
		if d.W == "Stderr" {
			parts = append(parts, "w=Stderr")
		}
	}
	if d.Sel != "-" {
		parts = append(parts, "sel="+d.Sel)
	}
	if d.Lit != "-" {
		if d.Callee == "any" {
			parts = append(parts, "lit=any-callee")
		} else {
			parts = append(parts, "lit="+d.Lit)
		}
	}
	if d.MainFirst != "call" && d.MainPos == "last" {
		parts = append(parts, "main="+d.MainFirst+"-first")
	} else if d.MainPos != "last" {
		parts = append(parts, "main=notlast")
	}
	if d.Keep {
		parts = append(parts, "keepfmt")
	}
	if len(parts) == 0 {
		return "default"
	}
	return strings.Join(parts, " ")
}

// minimise walks a failing description towards the default one: a dimension is reset when the
// neighbour obtained that way is part of the batch and fails in the same way.  The signature is
// computed from the fixpoint, so one root cause gives one signature whatever else varied.
func minimise(d gsDesc, classOf map[gsDesc]string) gsDesc {
	cl, ok := classOf[d]
	if !ok || cl == "ok" || cl == "skip" {
		return d
	}
	resets := []func(gsDesc) gsDesc{
		func(x gsDesc) gsDesc { x.Keep = false; return x },
		func(x gsDesc) gsDesc { x.MainFirst = "call"; return x },
		func(x gsDesc) gsDesc { x.MainPos = "last"; return x },
		func(x gsDesc) gsDesc { x.Lit, x.Callee = "-", "typed"; return x },
		func(x gsDesc) gsDesc { x.Callee = "typed"; return x },
		func(x gsDesc) gsDesc { x.Sel = "-"; return x },
		func(x gsDesc) gsDesc { x.Arg = "str"; return x },
		func(x gsDesc) gsDesc {
			if strings.HasPrefix(x.Fn, "S") || x.Fn == "Errorf" {
				x.Pos = "assign"
			} else {
				x.Pos = "stmt"
			}
			return x
		},
		func(x gsDesc) gsDesc {
			if x.W == "Stderr" {
				x.W = "Stdout"
			}
			return x
		},
		func(x gsDesc) gsDesc {
			if strings.HasPrefix(x.Fn, "S") || x.Fn == "Errorf" {
				if x.Pos == "assign" {
					x.Pos = "stmt"
				}
			}
			x.Fn, x.W = "Println", "-"
			return x
		},
		func(x gsDesc) gsDesc { x.Sh, x.Shk = "-", "-"; return x },
	}
	for changed := true; changed; {
		changed = false
		for _, r := range resets {
			n := r(d)
			if n != d && classOf[n] == cl {
				d, changed = n, true
			}
		}
	}
	return d
}

// ---------------------------------------------------------------------------- actual shape of the converted text

func actualShape(xsrc string, d gsDesc) (gsShape, string) {
	var s gsShape
	fset := token.NewFileSet()
	f, err := parser.ParseFile(fset, "main.xgo", xsrc, 0)
	if err != nil {
		return s, "converted text does not parse: " + err.Error()
	}
	s.Pkg = "present"
	if f.NoPkgDecl {
		s.Pkg = "dropped"
	}
	s.MainSt = "func"
	if f.ShadowEntry != nil {
		s.MainSt = "shadow"
	}
	s.Imp = "dropped"
	for _, im := range f.Imports {
		if im.Path != nil && im.Path.Value == `"fmt"` {
			s.Imp = "present"
		}
	}
	s.FmtSite, s.Cmd, s.SelSite, s.LitSite, s.Builtin = "none", "na", "none", "none", "-"
	lowerOf := map[string]string{"pkgfn": "toUpper", "method1": "get", "method2": "get", "field": "f", "methprint": "println"}
	upperOf := map[string]string{"pkgfn": "ToUpper", "method1": "Get", "method2": "Get", "field": "F", "methprint": "Println"}
	want := builtinOf[d.Fn]
	inspect := func(n ast.Node) bool {
		switch v := n.(type) {
		case *ast.FuncDecl:
			if d.Sh == "fmt" && v.Name != nil && v.Name.Name == "other" {
				return false // the auxiliary real use of the package; not the site of the description
			}
		case *ast.ExprStmt:
			// `fmt.Println()` becomes the bare command `echo`
			if id, ok := v.X.(*ast.Ident); ok && id.Name == want && want != "" {
				s.FmtSite, s.Builtin = "builtin", want
				if d.Pos == "stmt" {
					s.Cmd = "cmd"
				}
			}
		case *ast.CallExpr:
			switch fn := v.Fun.(type) {
			case *ast.Ident:
				if fn.Name == want && want != "" && !isUserCall(v, d) {
					s.FmtSite, s.Builtin = "builtin", want
					if d.Pos == "stmt" {
						s.Cmd = "paren"
						if v.NoParenEnd != token.NoPos {
							s.Cmd = "cmd"
						}
					}
				}
			case *ast.SelectorExpr:
				if x, ok := fn.X.(*ast.Ident); ok && x.Name == "fmt" && fn.Sel.Name == d.Fn {
					s.FmtSite = "kept"
					if d.Pos == "stmt" {
						s.Cmd = "paren"
						if v.NoParenEnd != token.NoPos {
							s.Cmd = "cmd"
						}
					}
				}
				if x, ok := fn.X.(*ast.Ident); ok && x.Name == "fmt" && strings.ToLower(fn.Sel.Name[:1])+fn.Sel.Name[1:] == strings.ToLower(d.Fn[:1])+d.Fn[1:] && fn.Sel.Name != d.Fn {
					s.FmtSite = "kept" // kept, selector lower-cased (fmt.sscan, printer method)
					if d.Pos == "stmt" {
						s.Cmd = "paren"
						if v.NoParenEnd != token.NoPos {
							s.Cmd = "cmd"
						}
					}
				}
				if d.Sel != "-" && d.Sel != "" {
					if fn.Sel.Name == lowerOf[d.Sel] && s.SelSite != "orig" {
						s.SelSite = "lower"
					}
					if fn.Sel.Name == upperOf[d.Sel] {
						s.SelSite = "orig"
					}
				}
			}
			if id, ok := v.Fun.(*ast.Ident); ok && id.Name == "each1" {
				return true
			}
			for _, a := range v.Args {
				switch a.(type) {
				case *ast.LambdaExpr:
					s.LitSite = "lambda"
				case *ast.LambdaExpr2:
					s.LitSite = "lambda2"
				case *ast.FuncLit:
					if d.Lit != "-" && d.Lit != "" && s.LitSite == "none" {
						s.LitSite = "kept"
					}
				}
			}
		}
		return true
	}
	ast.Inspect(f, inspect)
	if f.ShadowEntry != nil && f.ShadowEntry.Body != nil {
		ast.Inspect(f.ShadowEntry.Body, inspect)
	}
	if d.Pos != "stmt" {
		s.Cmd = "na"
	}
	return s, ""
}

// isUserCall: the program's own call `X("u")` of its package-level function named like the builtin
func isUserCall(v *ast.CallExpr, d gsDesc) bool {
	if d.Shk != "pkgfunc" || len(v.Args) != 1 {
		return false
	}
	lit, ok := v.Args[0].(*ast.BasicLit)
	return ok && lit.Value == `"u"`
}

func shapeDiff(want, got gsShape) string {
	var ds []string
	c := func(n, a, b string) {
		if a != b {
			ds = append(ds, fmt.Sprintf("%s: model %s, converted text %s", n, a, b))
		}
	}
	c("fmtsite", want.FmtSite, got.FmtSite)
	c("cmd", want.Cmd, got.Cmd)
	c("selsite", want.SelSite, got.SelSite)
	c("litsite", want.LitSite, got.LitSite)
	c("mainst", want.MainSt, got.MainSt)
	c("pkg", want.Pkg, got.Pkg)
	c("imp", want.Imp, got.Imp)
	c("builtin", want.Builtin, got.Builtin)
	return strings.Join(ds, "; ")
}

// ---------------------------------------------------------------------------- the run

func runGopStyle() {
	cases := hlib.ReadAllCases[gsCase]()
	dir, err := os.MkdirTemp(os.Getenv("VERIF_SCRATCH_DIR"), "gopstyle")
	if err != nil {
		fmt.Fprintln(os.Stderr, err)
		os.Exit(3)
	}
	defer os.RemoveAll(dir)
	r, err := xgolib.NewRunner(dir)
	if err != nil {
		fmt.Fprintln(os.Stderr, err)
		os.Exit(3)
	}
	srcs := make([]string, len(cases))
	convs := make([]convOutcome, len(cases))
	progs := map[string]string{}
	for i := range cases {
		if cases[i].Src != "" {
			srcs[i] = cases[i].Src
		} else {
			srcs[i] = renderGoProgram(cases[i].D)
		}
		convs[i] = convert(srcs[i])
		progs[fmt.Sprintf("g%d", i)] = srcs[i]
		if convs[i].GoGen != "" {
			progs[fmt.Sprintf("x%d", i)] = convs[i].GoGen
		}
	}
	bins, errs := batchBuild(r, progs)
	runs := make([]runObs, 2*len(cases))
	hlib.Parallel(2*len(cases), 8, func(k int) {
		name := fmt.Sprintf("g%d", k/2)
		if k%2 == 1 {
			name = fmt.Sprintf("x%d", k/2)
		}
		if b, ok := bins[name]; ok {
			runs[k] = runBin(b)
		}
	})
	// failure class of every description of the batch: the neighbours a failing case is minimised over
	classOf := map[gsDesc]string{}
	for i := range cases {
		if cases[i].Src != "" {
			continue
		}
		gname, xname := fmt.Sprintf("g%d", i), fmt.Sprintf("x%d", i)
		cv := convs[i]
		cl := "ok"
		switch {
		case errs[gname] != "" || runs[2*i].TimedOut:
			cl = "skip"
		case cv.ConvPanic != "":
			cl = "panic"
		case cv.ConvErr != "":
			cl = "error"
		case cv.CompileErr != "" || errs[xname] != "":
			cl = "breaks"
		case runs[2*i].Stdout != runs[2*i+1].Stdout || runs[2*i].Exit != runs[2*i+1].Exit || runs[2*i].Stderr != runs[2*i+1].Stderr || runs[2*i+1].TimedOut:
			cl = "diff"
		}
		classOf[cases[i].D] = cl
	}
	nprog, nskip, leadsOK, leadsBad := 0, 0, 0, 0
	for i := range cases {
		c := &cases[i]
		res := hlib.Result{Idx: i, V: "ok", Input: map[string]any{"d": c.D, "go": srcs[i]}}
		sigBase := gsSignature(minimise(c.D, classOf))
		res.NT = gsSignature(c.D)
		cv := convs[i]
		gname, xname := fmt.Sprintf("g%d", i), fmt.Sprintf("x%d", i)
		detail := func(extra string) string {
			return fmt.Sprintf("%s\n--- Go program:\n%s\n--- converted:\n%s", extra, srcs[i], cv.XGo)
		}
		switch {
		case errs[gname] != "":
			// the description is not a Go program: the model's Valid() is wrong
			res.V, res.Sig, res.Detail = "skip", "gen-invalid-go", detail(errs[gname])
			nskip++
		case runs[2*i].TimedOut:
			res.V, res.Sig, res.Detail = "skip", "original-timeout", detail("")
			nskip++
		case cv.ConvPanic != "":
			res.V, res.Sig, res.Detail = "viol", "convert-panic:"+sigBase, detail(cv.ConvPanic)
		case cv.ConvErr != "":
			res.V, res.Sig, res.Detail = "viol", "convert-error:"+sigBase, detail(cv.ConvErr)
		case cv.CompileErr != "":
			res.V, res.Sig, res.Detail = "viol", "convert-breaks:"+sigBase, detail("XGo compiler ("+cv.CompStage+"): "+cv.CompileErr)
		case errs[xname] != "":
			res.V, res.Sig, res.Detail = "viol", "convert-breaks:"+sigBase, detail("go build of the compiled converted program: "+errs[xname])
		case bins[gname] == "" || bins[xname] == "":
			fmt.Fprintf(os.Stderr, "case %d: binary missing without a build error\n", i)
			os.Exit(3)
		default:
			g, x := runs[2*i], runs[2*i+1]
			if x.TimedOut {
				res.V, res.Sig, res.Detail = "viol", "convert-output-diff:"+sigBase, detail("converted program timed out")
			} else if g.Stdout != x.Stdout || g.Exit != x.Exit || g.Stderr != x.Stderr {
				res.V, res.Sig = "viol", "convert-output-diff:"+sigBase
				res.Detail = detail(fmt.Sprintf("go: exit=%d stdout=%q stderr=%q\nxgo: exit=%d stdout=%q stderr=%q", g.Exit, g.Stdout, g.Stderr, x.Exit, x.Stdout, x.Stderr))
			}
		}
		if res.V != "skip" {
			nprog++
		}
		// the model's own expectation (lead bookkeeping): prop=false should fail, prop=true should pass
		if res.V == "viol" && c.Prop && c.Src == "" {
			leadsBad++
		}
		if res.V == "ok" && !c.Prop && c.Src == "" {
			leadsOK++
		}
		// predicted shape vs converted text: drift only
		if res.V == "ok" && c.Src == "" {
			got, perr := actualShape(cv.XGo, c.D)
			if perr != "" {
				res.V, res.Sig, res.Detail = "drift", "shape-unreadable", detail(perr)
			} else if df := shapeDiff(c.Shape, got); df != "" {
				res.V, res.Sig, res.Detail = "drift", "shape:"+strings.Split(df, ":")[0], detail(df)
			} else {
				res.Detail = fmt.Sprintf("shape=%+v stdout=%q", got, runs[2*i].Stdout)
			}
		}
		hlib.Emit(res)
	}
	hlib.EmitRaw(map[string]any{"v": "summary", "programs": nprog, "gen_invalid": nskip,
		"model_expected_break_but_ok": leadsOK, "model_expected_ok_but_broke": leadsBad})
}

var _ = sort.Strings
