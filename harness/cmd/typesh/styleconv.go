package main

// C25 pipeline: Go source --xformat.GopstyleSource--> XGo-style source --xgolib.Compile--> Go
// source --go build--> binary; run it and the original Go program; compare stdout / exit.

import (
	"fmt"
	"os"
	"os/exec"
	"path/filepath"
	"strings"
	"sync"
	"time"

	"github.com/goplus/xgo/cl"
	xformat "github.com/goplus/xgo/x/format"

	"verifharness/xgolib"
)

type convOutcome struct {
	XGo        string // converted text
	ConvErr    string
	ConvPanic  string
	CompileErr string // XGo compiler rejected the converted text
	CompStage  string
	GoGen      string // Go code generated from the converted text
}

// convert runs the smart formatter and the XGo compiler (in process, never panics).
func convert(goSrc string) (o convOutcome) {
	func() {
		defer func() {
			if r := recover(); r != nil {
				o.ConvPanic = fmt.Sprint(r)
			}
		}()
		out, err := xformat.GopstyleSource([]byte(goSrc), "main.go")
		if err != nil {
			o.ConvErr = err.Error()
			return
		}
		o.XGo = string(out)
	}()
	if o.ConvErr != "" || o.ConvPanic != "" {
		return
	}
	c := xgolib.Compile(map[string]string{"main.xgo": o.XGo}, xgolib.Options{NoFileLine: true,
		Config: func(conf *cl.Config) { conf.Importer = fastImporter() }})
	o.CompStage = c.Stage
	switch {
	case c.Panic != nil:
		o.CompileErr = fmt.Sprintf("panic: %v", c.Panic)
	case c.Err != nil:
		o.CompileErr = xgolib.ErrString(c.Err)
	default:
		o.GoGen = c.Go
	}
	return
}

// batchBuild writes every program <name>/main.go under the runner's module and builds them with
// one `go build` per chunk (the go command parallelises internally and shares its cache); programs
// whose binary is missing afterwards are rebuilt alone to get their own error text.
func batchBuild(r *xgolib.Runner, progs map[string]string) (bins map[string]string, errs map[string]string) {
	bins, errs = map[string]string{}, map[string]string{}
	var names []string
	for n, src := range progs {
		d := filepath.Join(r.Dir, "cmd", n)
		os.RemoveAll(d)
		os.MkdirAll(d, 0755)
		os.WriteFile(filepath.Join(d, "main.go"), []byte(src), 0644)
		names = append(names, n)
	}
	bindir := filepath.Join(r.Dir, "bin")
	os.MkdirAll(bindir, 0755)
	const chunk = 40
	var mu sync.Mutex
	var wg sync.WaitGroup
	sem := make(chan struct{}, 3)
	for i := 0; i < len(names); i += chunk {
		j := i + chunk
		if j > len(names) {
			j = len(names)
		}
		part := names[i:j]
		wg.Add(1)
		sem <- struct{}{}
		go func() {
			defer wg.Done()
			defer func() { <-sem }()
			args := []string{"build", "-o", bindir + string(os.PathSeparator)}
			for _, n := range part {
				args = append(args, "./cmd/"+n)
			}
			cmd := exec.Command("go", args...)
			cmd.Dir = r.Dir
			cmd.Env = append(os.Environ(), "GOFLAGS=-mod=mod", "GOPROXY=off", "GOSUMDB=off", "GOTOOLCHAIN=local")
			cmd.CombinedOutput()
			for _, n := range part {
				b := filepath.Join(bindir, n)
				if st, err := os.Stat(b); err == nil && !st.IsDir() {
					mu.Lock()
					bins[n] = b
					mu.Unlock()
					continue
				}
				// alone, for the error text
				one := exec.Command("go", "build", "-o", b, "./cmd/"+n)
				one.Dir = r.Dir
				one.Env = cmd.Env
				out, err := one.CombinedOutput()
				mu.Lock()
				if err != nil {
					errs[n] = string(out) + err.Error()
				} else {
					bins[n] = b
				}
				mu.Unlock()
			}
		}()
	}
	wg.Wait()
	return
}

type runObs struct {
	Stdout, Stderr string
	Exit           int
	TimedOut       bool
}

func runBin(bin string) runObs {
	rr := xgolib.Exec(bin, 60*time.Second)
	return runObs{rr.Stdout, rr.Stderr, rr.Exit, rr.TimedOut}
}

// probeStyle: development aid -- convert, compile, build and run the given Go files.
func probeStyle(args []string) {
	dir, _ := os.MkdirTemp(os.Getenv("VERIF_SCRATCH_DIR"), "style")
	defer os.RemoveAll(dir)
	r, err := xgolib.NewRunner(dir)
	if err != nil {
		fmt.Println(err)
		return
	}
	progs := map[string]string{}
	convs := map[string]convOutcome{}
	for i, fn := range args {
		b, err := readFile(fn)
		if err != nil {
			fmt.Println(err)
			continue
		}
		name := fmt.Sprintf("p%d", i)
		c := convert(string(b))
		convs[name] = c
		progs[name+"go"] = string(b)
		if c.GoGen != "" {
			progs[name+"x"] = c.GoGen
		}
	}
	bins, errs := batchBuild(r, progs)
	for i, fn := range args {
		name := fmt.Sprintf("p%d", i)
		c := convs[name]
		fmt.Printf("==== %s\n--- converted:\n%s\n", fn, c.XGo)
		if c.ConvErr != "" || c.ConvPanic != "" {
			fmt.Printf("--- convert error: %s %s\n", c.ConvErr, c.ConvPanic)
			continue
		}
		if c.CompileErr != "" {
			fmt.Printf("--- XGo compile error (%s): %s\n", c.CompStage, c.CompileErr)
		}
		if e := errs[name+"go"]; e != "" {
			fmt.Printf("--- original does not build: %s\n", e)
			continue
		}
		g := runBin(bins[name+"go"])
		fmt.Printf("--- go: exit=%d stdout=%q stderr=%q\n", g.Exit, g.Stdout, firstLine(g.Stderr))
		if c.GoGen != "" {
			if e := errs[name+"x"]; e != "" {
				fmt.Printf("--- converted does not build: %s\n", e)
				continue
			}
			x := runBin(bins[name+"x"])
			fmt.Printf("--- xgo: exit=%d stdout=%q stderr=%q  same=%v\n", x.Exit, x.Stdout, firstLine(x.Stderr), x.Stdout == g.Stdout && x.Exit == g.Exit && x.Stderr == g.Stderr)
		}
	}
}

func firstLine(s string) string {
	if i := strings.IndexByte(s, '\n'); i >= 0 {
		return s[:i]
	}
	return s
}
