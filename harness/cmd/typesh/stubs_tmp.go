package main

func runGopStyle()             {}
func probeStyle(args []string) {}
