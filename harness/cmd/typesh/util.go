package main

import (
	"os"
	"strconv"
)

func readFile(fn string) ([]byte, error) { return os.ReadFile(fn) }

// workers: VERIF_WORKERS or 3
func workers() int {
	if n, err := strconv.Atoi(os.Getenv("VERIF_WORKERS")); err == nil && n > 0 {
		return n
	}
	return 3
}
