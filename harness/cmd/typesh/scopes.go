package main

// C12 -- replay of specs/types/Scopes.tla: every complete program of the model is rendered as
// source text, checked through x/typesutil (and go/types when it is Go-compatible) and the
// recorded information is compared with the documented invariants (oracle S), with the model's
// resolution (which declaration each use denotes) and with go/types (oracle D).

import (
	"fmt"
	"go/types"
	"os"
	"sort"
	"strings"
	"sync"

	"verifharness/hlib"
)

type scItem struct {
	Op  string `json:"op"`
	N   string `json:"n"`
	U   string `json:"u"`
	P   string `json:"p"`
	R   string `json:"r"`
	Q   string `json:"q"`
	K   string `json:"k"`
	V   string `json:"v"`
	Par int    `json:"par"`
}

type scOcc struct {
	I    int    `json:"i"`
	Role string `json:"role"`
	Name string `json:"name"`
	Cls  string `json:"cls"`
	Dk   string `json:"dk"`
	Tgt  int    `json:"tgt"` // 1-based index into occ; own index for a declaration
	Nc   int    `json:"nc"`  // number of visible candidates of a use (>1: shadowing)
}

type scCase struct {
	Items []scItem `json:"items"`
	Occ   []scOcc  `json:"occ"`
	Go    bool     `json:"go"`
	// corrupt-binding demonstration / replay of a literal text
	Src string `json:"src,omitempty"`
}

func isDeclCls(c string) bool {
	switch c {
	case "pkg", "meth", "hdr", "loc", "post", "fld":
		return true
	}
	return false
}

// ---------------------------------------------------------------------------- rendering

type tag struct {
	occ int // 0-based index into Occ
}

type rendered struct {
	src    string
	tags   map[pos]int    // position of a model identifier -> occurrence index (0-based)
	scopes map[string]int // model-predicted number of scope-defining nodes per node kind
}

type renderer struct {
	c      *scCase
	sb     strings.Builder
	line   int
	col    int
	tags   map[pos]int
	occAt  map[string]int // "<item>/<role>" -> occ index
	scopes map[string]int
	err    string
}

func (r *renderer) lit(s string) {
	for _, ch := range s {
		if ch == '\n' {
			r.line++
			r.col = 1
		} else {
			r.col++
		}
	}
	r.sb.WriteString(s)
}

// id writes the identifier of occurrence (item, role)
func (r *renderer) id(item int, role string) {
	oi, ok := r.occAt[fmt.Sprintf("%d/%s", item, role)]
	if !ok {
		r.err = fmt.Sprintf("no occurrence %d/%s", item, role)
		r.lit("?")
		return
	}
	r.tags[pos{r.line, r.col}] = oi
	r.lit(r.c.Occ[oi].Name)
}

// classOf: how a use of a declaration of kind dk must be wrapped to be an int expression
func classOf(dk string) string {
	switch dk {
	case "func.n", "funclit.n", "pover.n":
		return "call"
	case "ptype.n", "ltype.n":
		return "type"
	case "method.q":
		return "rcv"
	case "compr.n":
		return "slice"
	case "pstruct.n":
		return "stype"
	case "method.n":
		return "method"
	}
	return "val"
}

// use writes E(u): the use occurrence (item, role) wrapped by the kind of its target
func (r *renderer) use(item int, role string) {
	oi, ok := r.occAt[fmt.Sprintf("%d/%s", item, role)]
	if !ok {
		r.lit("1")
		return
	}
	o := r.c.Occ[oi]
	cls := "val"
	if o.Tgt >= 1 && o.Tgt <= len(r.c.Occ) {
		cls = classOf(r.c.Occ[o.Tgt-1].Dk)
	}
	switch cls {
	case "call":
		r.id(item, role)
		r.lit("(1)")
	case "type":
		r.lit("int(")
		r.id(item, role)
		r.lit("(1))")
	case "rcv":
		r.lit("int(")
		r.id(item, role)
		r.lit(")")
	case "slice":
		r.lit("len(")
		r.id(item, role)
		r.lit(")")
	case "stype":
		r.lit("len([]")
		r.id(item, role)
		r.lit("{})")
	case "method":
		r.lit("T(0).")
		r.id(item, role)
		r.lit("(1)")
	default:
		r.id(item, role)
	}
}

func (r *renderer) nameOrBlank(item int, role, v string) {
	if v == "-" {
		r.lit("_")
	} else {
		r.id(item, role)
	}
}

func (r *renderer) sig(item int, it scItem) {
	r.lit("(")
	r.nameOrBlank(item, "p", it.P)
	r.lit(" int) ")
	if it.R != "-" {
		r.lit("(")
		r.id(item, "r")
		r.lit(" int) ")
	} else {
		r.lit("int ")
	}
	r.lit("{\n")
}

func render(c *scCase) (*rendered, string) {
	r := &renderer{c: c, line: 1, col: 1, tags: map[pos]int{}, occAt: map[string]int{}, scopes: map[string]int{}}
	for i, o := range c.Occ {
		r.occAt[fmt.Sprintf("%d/%s", o.I, o.Role)] = i
	}
	has := map[string]bool{}
	for _, it := range c.Items {
		has[it.Op] = true
	}
	r.scopes["File"] = 1
	if c.Go || !has["xmain"] {
		r.lit("package main\n\n")
	}
	var imps []string
	needU := false
	for _, it := range c.Items {
		if it.Op == "pstruct" {
			has["method"] = has["method"] || it.R == "y" // the prelude type T
			needU = needU || it.Q == "y"
			if it.K == "y" {
				imps = append(imps, "sync")
			}
			if it.V == "y" {
				imps = append(imps, "bytes")
			}
		}
	}
	seenImp := map[string]bool{}
	for _, im := range []string{"bytes", "sync"} {
		for _, x := range imps {
			if x == im && !seenImp[im] {
				seenImp[im] = true
				r.lit("import \"" + im + "\"\n\n")
			}
		}
	}
	if needU {
		r.lit("type U int\n\n")
	}
	if has["range"] || has["forin"] || has["compr"] {
		r.lit("var xs = []int{1, 2}\n\n")
	}
	if has["method"] || has["muse"] {
		r.lit("type T int\n\n")
	}
	if has["lambda"] || has["lambdab"] {
		r.lit("func ap(f func(int) int) int {\n\treturn f(1)\n}\n\n")
		r.scopes["FuncType"]++
	}
	if has["errwrap"] {
		r.lit("func ef(x int) (int, error) {\n\treturn x, nil\n}\n\n")
		r.scopes["FuncType"]++
	}
	depth := 0
	ind := func() { r.lit(strings.Repeat("\t", depth)) }
	initOr1 := func(i int, it scItem) {
		if it.U != "-" {
			r.use(i, "u")
		} else {
			r.lit("1")
		}
	}
	for idx, it := range c.Items {
		i := idx + 1
		switch it.Op {
		case "pvar":
			r.lit("var ")
			r.id(i, "n")
			r.lit(" = ")
			initOr1(i, it)
			r.lit("\n\n")
		case "pshadow":
			if it.R == "y" {
				r.lit("type byte uint16\n\n")
			}
			if it.Q == "y" {
				r.lit("type rune = int64\n\n")
			}
		case "tuse":
			t := "byte"
			if it.Q == "y" {
				t = "rune"
			}
			ind()
			r.lit(fmt.Sprintf("var z%d %s\n", i, t))
			ind()
			r.lit(fmt.Sprintf("_ = z%d\n", i))
		case "pstruct":
			r.lit("type ")
			r.id(i, "n")
			r.lit(" struct {\n")
			if it.P != "-" {
				r.lit("\t")
				r.id(i, "p")
				r.lit(" int\n")
			}
			for _, f := range [][2]string{{it.R, "T"}, {it.Q, "*U"}, {it.K, "sync.Mutex"}, {it.V, "*bytes.Buffer"}} {
				if f[0] == "y" {
					r.lit("\t" + f[1] + "\n")
				}
			}
			r.lit("}\n\n")
		case "pvar2", "pconst2":
			if it.Op == "pvar2" {
				r.lit("var ")
			} else {
				r.lit("const ")
			}
			r.id(i, "n")
			r.lit(", ")
			r.id(i, "k")
			r.lit(" = 1, 2\n\n")
		case "define2", "lvar2", "lconst2":
			ind()
			switch it.Op {
			case "lvar2":
				r.lit("var ")
			case "lconst2":
				r.lit("const ")
			}
			r.id(i, "n")
			r.lit(", ")
			r.id(i, "k")
			if it.Op == "define2" {
				r.lit(" := 1, 2\n")
			} else {
				r.lit(" = 1, 2\n")
			}
			if it.Op != "lconst2" {
				ind()
				r.lit("_, _ = ")
				r.id(i, "au")
				r.lit(", ")
				r.id(i, "auk")
				r.lit("\n")
			}
		case "pconst":
			r.lit("const ")
			r.id(i, "n")
			r.lit(" = 1\n\n")
		case "ptype":
			r.lit("type ")
			r.id(i, "n")
			r.lit(" int\n\n")
		case "pover":
			r.lit("func ")
			r.id(i, "n")
			r.lit(" = (\n\tfunc(x int) int {\n\t\treturn x\n\t}\n\tfunc(x string) int {\n\t\treturn 0\n\t}\n)\n\n")
			r.scopes["FuncType"] += 2
		case "func":
			r.lit("func ")
			r.id(i, "n")
			r.sig(i, it)
			r.scopes["FuncType"]++
			depth++
		case "method":
			r.lit("func (")
			if it.Q != "-" {
				r.id(i, "q")
				r.lit(" ")
			}
			r.lit("T) ")
			r.id(i, "n")
			r.sig(i, it)
			r.scopes["FuncType"]++
			depth++
		case "xmain":
			if i < len(c.Items) && c.Items[i].Op != "close" { // an empty shadow main does not exist
				r.scopes["FuncType"]++
			}
		case "define", "lvar", "errwrap":
			ind()
			if it.Op == "lvar" {
				r.lit("var ")
				r.id(i, "n")
				r.lit(" = ")
			} else {
				r.id(i, "n")
				r.lit(" := ")
			}
			if it.Op == "errwrap" {
				r.lit("ef(")
				initOr1(i, it)
				r.lit(")!")
			} else {
				initOr1(i, it)
			}
			r.lit("\n")
			ind()
			r.lit("_ = ")
			r.id(i, "au")
			r.lit("\n")
		case "lconst":
			ind()
			r.lit("const ")
			r.id(i, "n")
			r.lit(" = 1\n")
		case "ltype":
			ind()
			r.lit("type ")
			r.id(i, "n")
			r.lit(" int\n")
		case "use":
			ind()
			r.lit("_ = ")
			r.use(i, "u")
			r.lit("\n")
		case "echo":
			ind()
			r.lit("echo ")
			r.use(i, "u")
			r.lit("\n")
		case "interp":
			ind()
			r.lit("_ = \"${")
			r.use(i, "u")
			r.lit("}\"\n")
		case "muse":
			ind()
			r.lit("_ = ")
			r.use(i, "u")
			r.lit("\n")
		case "block":
			ind()
			r.lit("{\n")
			r.scopes["BlockStmt"]++
			depth++
		case "if":
			ind()
			r.lit("if ")
			if it.N != "-" {
				r.id(i, "n")
				r.lit(" := ")
				initOr1(i, it)
				r.lit("; ")
				r.id(i, "au")
				r.lit(" > 0 {\n")
			} else if it.U != "-" {
				r.use(i, "u")
				r.lit(" > 0 {\n")
			} else {
				r.lit("true {\n")
			}
			r.scopes["IfStmt"]++
			r.scopes["BlockStmt"]++
			depth++
		case "for":
			ind()
			r.lit("for ")
			r.id(i, "n")
			r.lit(" := 0; ")
			r.id(i, "au")
			r.lit(" < 1; ")
			r.id(i, "au2")
			r.lit("++ {\n")
			r.scopes["ForStmt"]++
			r.scopes["BlockStmt"]++
			depth++
		case "switch":
			ind()
			r.lit("switch ")
			r.id(i, "n")
			r.lit(" := ")
			initOr1(i, it)
			r.lit("; ")
			r.id(i, "au")
			r.lit(" {\n")
			ind()
			r.lit("case 1:\n")
			r.scopes["SwitchStmt"]++
			r.scopes["CaseClause"]++
			depth++
		case "range", "forin":
			ind()
			r.lit("for ")
			if it.Op == "range" {
				if it.V != "-" {
					r.nameOrBlank(i, "k", it.K)
					r.lit(", ")
					r.id(i, "v")
				} else {
					r.id(i, "k")
				}
				r.lit(" := range xs {\n")
				r.scopes["RangeStmt"]++
			} else {
				if it.K != "-" {
					r.id(i, "k")
					r.lit(", ")
				}
				r.id(i, "v")
				r.lit(" <- xs")
				if it.U != "-" {
					r.lit(", ")
					r.use(i, "u")
					r.lit(" > 0")
				}
				r.lit(" {\n")
				r.scopes["ForPhraseStmt"]++
			}
			r.scopes["BlockStmt"]++
			depth++
			for _, kv := range [][2]string{{"auk", it.K}, {"auv", it.V}} {
				if kv[1] != "-" {
					ind()
					r.lit("_ = ")
					r.id(i, kv[0])
					r.lit("\n")
				}
			}
		case "funclit":
			ind()
			r.nameOrBlank(i, "n", it.N)
			if it.N != "-" {
				r.lit(" := func")
			} else {
				r.lit(" = func")
			}
			r.sig(i, it)
			r.scopes["FuncType"]++
			depth++
		case "lambdab":
			ind()
			r.lit("_ = ap(")
			r.id(i, "p")
			r.lit(" => {\n")
			r.scopes["LambdaExpr2"]++
			depth++
		case "lambda":
			ind()
			r.lit("_ = ap(")
			r.id(i, "p")
			r.lit(" => ")
			initOr1(i, it)
			r.lit(")\n")
			r.scopes["LambdaExpr"]++
		case "compr":
			ind()
			r.nameOrBlank(i, "n", it.N)
			if it.N != "-" {
				r.lit(" := [")
			} else {
				r.lit(" = [")
			}
			initOr1(i, it)
			r.lit(" for ")
			r.id(i, "v")
			r.lit(" <- xs]\n")
			r.scopes["ForPhrase"]++
			if it.N != "-" {
				ind()
				r.lit("_ = len(")
				r.id(i, "au")
				r.lit(")\n")
			}
		case "close":
			if it.Par < 1 || it.Par > len(c.Items) {
				return nil, "close without opener"
			}
			op := c.Items[it.Par-1]
			switch op.Op {
			case "func", "method", "funclit":
				ind()
				if op.R != "-" {
					r.lit("return\n")
				} else {
					r.lit("return 0\n")
				}
				depth--
				ind()
				r.lit("}\n")
				if op.Op == "funclit" {
					if op.N != "-" {
						ind()
						r.lit("_ = ")
						r.id(it.Par, "au")
						r.lit("(1)\n")
					}
				} else {
					r.lit("\n")
				}
			case "lambdab":
				ind()
				r.lit("return 0\n")
				depth--
				ind()
				r.lit("})\n")
			case "xmain":
			default:
				depth--
				ind()
				r.lit("}\n")
			}
		default:
			return nil, "unknown op " + it.Op
		}
	}
	if r.err != "" {
		return nil, r.err
	}
	return &rendered{src: r.sb.String(), tags: r.tags, scopes: r.scopes}, ""
}

// ---------------------------------------------------------------------------- checking

func blockKindOf(c *scCase, o scOcc) string {
	// innermost opener around the use (or the item itself for header scopes)
	it := c.Items[o.I-1]
	if o.Cls == "inner" || o.Cls == "self" {
		return it.Op
	}
	if it.Par == 0 {
		return "package"
	}
	return c.Items[it.Par-1].Op
}

// scopesStrict: a scope-defining node without a Scopes entry is DRIFT by default -- the statement only
// demands that recorded nodes belong to the files, not that the map is complete;
// VERIF_C12_SCOPES=strict promotes it to a violation (the Info.Scopes doc comment's reading).
func scopesStrict() bool { return os.Getenv("VERIF_C12_SCOPES") == "strict" }

func runScopes() {
	cases := hlib.ReadAllCases[scCase]()
	var mu sync.Mutex
	skipped, goprogs := 0, 0
	skipSigs := map[string]int{}
	hlib.Parallel(len(cases), workers(), func(i int) {
		res := checkScopesCase(i, &cases[i])
		mu.Lock()
		if res.V == "skip" {
			skipped++
			skipSigs["skipped_"+res.Sig]++
		}
		if cases[i].Go {
			goprogs++
		}
		mu.Unlock()
		hlib.Emit(res)
	})
	sum := map[string]any{"v": "summary", "scopes_cases": len(cases), "scopes_skipped": skipped,
		"go_compatible_programs": goprogs}
	for k, n := range skipSigs {
		sum[k] = n
	}
	hlib.EmitRaw(sum)
}

func checkScopesCase(idx int, c *scCase) hlib.Result {
	res := hlib.Result{Idx: idx, V: "ok"}
	rd, rerr := render(c)
	if rerr != "" {
		res.V, res.Sig, res.Detail = "skip", "render-error", rerr
		return res
	}
	src := rd.src
	res.Input = src
	var ops []string
	seenOp := map[string]bool{}
	shadow := false
	for _, it := range c.Items {
		if it.Op != "close" && !seenOp[it.Op] {
			seenOp[it.Op] = true
			ops = append(ops, it.Op)
		}
	}
	sort.Strings(ops)
	for _, o := range c.Occ {
		if o.Nc > 1 {
			shadow = true
		}
	}
	res.NT = fmt.Sprintf("%s sh=%v go=%v", strings.Join(ops, ","), shadow, c.Go)

	var viols, drifts []string // "sig\x00detail"
	viol := func(sig, d string) { viols = append(viols, sig+"\x00"+d) }
	drift := func(sig, d string) { drifts = append(drifts, sig+"\x00"+d) }

	x := checkXGo("main.xgo", src)
	if x.Panic != nil {
		res.V, res.Sig, res.Detail = "drift", "checker-panic", fmt.Sprintf("%v\n%s", x.Panic, src)
		return res
	}
	var g *goObs
	if c.Go {
		g = checkGo("main.go", src)
		if g.Err != nil {
			res.V, res.Sig, res.Detail = "skip", "gen-invalid-go", fmt.Sprintf("%v\n%s", g.Err, src)
			return res
		}
	}
	if x.Stage != "ok" {
		// the property quantifies over programs that type-check; a rejected program is C01/C06's
		res.V, res.Sig, res.Detail = "skip", "xgo-rejects:"+x.Stage, fmt.Sprintf("%v\n%s", x.Err, src)
		return res
	}
	info := x.Info
	tagOf := func(p pos) (scOcc, bool) {
		if oi, ok := rd.tags[p]; ok {
			return c.Occ[oi], true
		}
		return scOcc{}, false
	}
	toPos := func(o types.Object) (pos, string) {
		if o == nil {
			return pos{}, "nil"
		}
		if !o.Pos().IsValid() {
			return pos{}, "nopos"
		}
		pp := x.Fset.Position(o.Pos())
		if pp.Filename != "main.xgo" {
			return pos{-1, -1}, "outside"
		}
		return pos{pp.Line, pp.Column}, "infile"
	}

	// ---- oracle S (1): Defs[id] == nil || Defs[id].Pos() == id.Pos()     (every key of Defs)
	for id, obj := range info.Defs {
		if obj == nil || id == nil {
			continue
		}
		if obj.Pos() != id.Pos() {
			ip := x.Fset.Position(id.Pos())
			p := pos{ip.Line, ip.Column}
			op, how := toPos(obj)
			what := "elsewhere"
			if how != "infile" {
				what = how
			} else if o, ok := tagOf(p); ok {
				// declared at ANOTHER name of the same multi-name declaration
				if o2, ok2 := tagOf(op); ok2 && o2.I == o.I && isDeclCls(o2.Cls) {
					what = "second-name"
				}
			}
			dk := "other-" + kindOf(obj)
			if v, ok := obj.(*types.Var); ok && v.Embedded() {
				dk = "embedded-field"
			}
			if o, ok := tagOf(p); ok {
				dk = o.Dk
			}
			if what == "nopos" {
				dk = rangeVarClass(dk)
			}
			viol("defs-pos:"+dk+":"+what, fmt.Sprintf("Defs[%s@%s] = %s declared at %s (%s)", id.Name, p, obj, op, how))
		}
	}
	// ---- oracle S (2): Uses[id].Pos() != id.Pos()                        (every key of Uses)
	for id, obj := range info.Uses {
		if obj == nil || id == nil {
			continue
		}
		if obj.Pos() == id.Pos() && id.Pos().IsValid() {
			ip := x.Fset.Position(id.Pos())
			p := pos{ip.Line, ip.Column}
			ctx := "other-" + kindOf(obj)
			if o, ok := tagOf(p); ok {
				ctx = o.Dk + "/" + blockKindOf(c, o)
			}
			viol("uses-self:"+ctx, fmt.Sprintf("Uses[%s@%s] = %s is declared at the identifier itself", id.Name, p, obj))
		}
	}
	// ---- oracle S (3): keys of Types / Scopes (Implicits, Selections) are nodes of the file
	for _, fo := range x.Foreign {
		sig := strings.ToLower(fo.Map) + "-foreign-node:" + fo.Kind
		d := fmt.Sprintf("%s has a key of kind %s that is %s", fo.Map, fo.Kind, fo.Why)
		switch fo.Map {
		case "Types", "Scopes", "Implicits", "Selections":
			viol(sig, d)
		default:
			drift(sig, d) // synthesized identifiers (shadow main, overload members): not covered by the statement
		}
	}
	// ---- model prediction: which declaration every model identifier denotes
	for p, oi := range rd.tags {
		o := c.Occ[oi]
		id := x.IdentAt[p]
		if id == nil {
			drift("ident-not-in-tree:"+o.Dk, fmt.Sprintf("model identifier %s@%s not found in the syntax tree", o.Name, p))
			continue
		}
		if isDeclCls(o.Cls) {
			obj, ok := info.Defs[id]
			if !ok || obj == nil {
				if c.Go {
					continue // judged by oracle D below
				}
				drift("defs-missing:"+o.Dk, fmt.Sprintf("no Defs entry for declaration %s@%s (%s)", o.Name, p, o.Dk))
			}
			if _, isUse := info.Uses[id]; isUse {
				drift("decl-in-uses:"+o.Dk, fmt.Sprintf("declaration %s@%s also in Uses", o.Name, p))
			}
			continue
		}
		// a use
		if o.Tgt < 1 || o.Tgt > len(c.Occ) {
			continue
		}
		t := c.Occ[o.Tgt-1]
		var tp pos
		found := false
		for q, oj := range rd.tags {
			if oj == o.Tgt-1 {
				tp, found = q, true
			}
		}
		if !found {
			continue
		}
		obj, ok := info.Uses[id]
		if !ok || obj == nil {
			if !c.Go {
				drift("uses-missing:"+t.Dk+"/"+blockKindOf(c, o), fmt.Sprintf("no Uses entry for %s@%s (model: declared at %s as %s)", o.Name, p, tp, t.Dk))
			}
			continue
		}
		did := x.IdentAt[tp]
		var dobj types.Object
		if did != nil {
			dobj = info.Defs[did]
		}
		op, how := toPos(obj)
		switch {
		case dobj != nil && dobj == obj:
			// the very object the declaring identifier defines
		case dobj != nil && t.Dk == "pover.n":
			// an overloaded name denotes the selected member, not the overload declaration
		case dobj == nil && how == "infile" && op == tp:
			// declared at the model's declaration (which has no Defs entry of its own)
		case dobj == nil && how != "infile":
			// neither the declaration nor the object's position is recorded: nothing to compare
			drift("uses-undecidable:"+t.Dk, fmt.Sprintf("Uses[%s@%s] = %s has no position and %s@%s has no Defs entry", o.Name, p, obj, t.Name, tp))
		default:
			viol("uses-wrong-decl:"+t.Dk+"/"+blockKindOf(c, o),
				fmt.Sprintf("Uses[%s@%s] = %s declared at %s (%s); model: declaration %s at %s", o.Name, p, obj, op, how, t.Dk, tp))
		}
	}
	// ---- scopes: every scope-defining node kind the Info.Scopes doc lists is recorded
	for k, want := range rd.scopes {
		got := x.ScopeKinds[k]
		if got < want {
			d := fmt.Sprintf("Scopes has %d %s nodes, the program has %d scope-defining ones", got, k, want)
			if scopesStrict() {
				viol("scopes-missing:"+k, d)
			} else {
				drift("scopes-missing:"+k, d)
			}
		} else if got > want {
			drift("scopes-extra:"+k, fmt.Sprintf("Scopes has %d %s nodes, model %d", got, k, want))
		}
	}
	for k, got := range x.ScopeKinds {
		if _, ok := rd.scopes[k]; !ok {
			drift("scopes-extra:"+k, fmt.Sprintf("Scopes has %d %s nodes, model 0", got, k))
		}
	}
	// ---- oracle D: go/types on the same text
	if c.Go {
		var ps []pos
		for p := range g.Idents {
			ps = append(ps, p)
		}
		sort.Slice(ps, func(i, j int) bool {
			return ps[i].Line < ps[j].Line || ps[i].Line == ps[j].Line && ps[i].Col < ps[j].Col
		})
		for _, p := range ps {
			gi := g.Idents[p]
			gobj := gi.Def
			if gobj == nil {
				gobj = gi.Use
			}
			var xobj *objObs
			if xi := x.Idents[p]; xi != nil {
				xobj = xi.Def
				if xobj == nil {
					xobj = xi.Use
				}
			}
			dk := "other"
			if o, ok := tagOf(p); ok {
				dk = o.Dk
				if !isDeclCls(o.Cls) && o.Tgt >= 1 {
					dk = c.Occ[o.Tgt-1].Dk
				}
			}
			switch {
			case gobj == nil && xobj == nil:
			case gobj == nil:
				drift("gotypes-extra:"+dk, fmt.Sprintf("%s@%s: x/typesutil records %s %s, go/types nothing", gi.Name, p, xobj.Kind, xobj.Type))
			case xobj == nil:
				if gi.Name == "_" {
					drift("gotypes-blank:"+dk, fmt.Sprintf("_@%s: go/types records %s %s, x/typesutil nothing", p, gobj.Kind, gobj.Type))
				} else {
					viol("gotypes-diff:missing:"+dk, fmt.Sprintf("%s@%s: go/types records %s %s %s, x/typesutil nothing", gi.Name, p, gobj.Kind, gobj.Name, gobj.Type))
				}
			case gobj.Name != xobj.Name:
				viol("gotypes-diff:name:"+dk, fmt.Sprintf("%s@%s: go/types %s, x/typesutil %s", gi.Name, p, gobj.Name, xobj.Name))
			case gobj.Kind != xobj.Kind:
				viol("gotypes-diff:kind:"+dk, fmt.Sprintf("%s@%s: go/types %s, x/typesutil %s", gi.Name, p, gobj.Kind, xobj.Kind))
			case gobj.Type != xobj.Type:
				viol("gotypes-diff:type:"+dk, fmt.Sprintf("%s@%s: go/types %s, x/typesutil %s", gi.Name, p, gobj.Type, xobj.Type))
			}
		}
		// scope-defining nodes, position-wise
		for k, n := range g.ScopeAt {
			if x.ScopeAt[k] < n {
				kind := k[:strings.Index(k, "@")]
				d := fmt.Sprintf("go/types records a scope for %s, x/typesutil does not", k)
				if scopesStrict() {
					viol("scopes-missing:"+kind, d)
				} else {
					drift("scopes-missing:"+kind, d)
				}
			}
		}
	}
	if len(viols) > 0 {
		sort.Strings(viols)
		parts := strings.SplitN(viols[0], "\x00", 2)
		res.V, res.Sig, res.Detail = "viol", parts[0], parts[1]+"\n"+src
		// further distinct signatures of the same case are reported as extra lines
		seen := map[string]bool{parts[0]: true}
		for _, v := range viols[1:] {
			ps := strings.SplitN(v, "\x00", 2)
			if !seen[ps[0]] {
				seen[ps[0]] = true
				hlib.Emit(hlib.Result{Idx: idx, V: "viol", Sig: ps[0], Detail: ps[1] + "\n" + src, Input: src, NT: res.NT})
			}
		}
		return res
	}
	if len(drifts) > 0 {
		sort.Strings(drifts)
		parts := strings.SplitN(drifts[0], "\x00", 2)
		res.V, res.Sig, res.Detail = "drift", parts[0], parts[1]+"\n"+src
		return res
	}
	res.Detail = fmt.Sprintf("idents=%d types=%d scopes=%d", len(x.Idents), x.NTypes, x.NScopes)
	return res
}

// rangeVarClass: range, for-in and comprehension variables share one signature class where the
// defect is the missing position (they are all created by gogen's for-range statement)
func rangeVarClass(dk string) string {
	switch dk {
	case "range.k", "range.v", "forin.k", "forin.v", "compr.v":
		return "rangevar"
	}
	return dk
}
