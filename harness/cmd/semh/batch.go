package main

// Batch machinery shared by the semantic checks (C04 C05 C03 C02).
//
// A check renders every model case as a `unit`: XGo top-level declarations ending in a function
// `case_<idx>()` that prints the observable of the case, and (optionally) the explicit Go expansion of
// the same case as a second rendering with the same function name.  The machinery
//   1. compiles every unit alone in-process (xgolib.Compile) so that a compile error is the outcome of
//      that case and can never poison a batch,
//   2. packs the compiling units into programs (prelude + units + a main that prints `#<idx>` before
//      each case and recovers its panic), compiles each program in-process, builds and runs the
//      generated Go with xgolib.Runner, several programs in parallel,
//   3. bisects a program whose Go build fails or which times out, so the failure lands on single cases,
//   4. builds the Go expansions the same way (plain Go files, no XGo compiler involved),
//   5. hands back, per case, what the XGo program printed and what the Go expansion printed.

import (
	"fmt"
	goast "go/ast"
	goparser "go/parser"
	gotoken "go/token"
	"go/types"
	"os"
	"path/filepath"
	"sort"
	"strconv"
	"strings"
	"sync"
	"sync/atomic"
	"time"

	"github.com/goplus/gogen/packages"

	"verifharness/hlib"
	"verifharness/xgolib"
)

type unit struct {
	Idx   int
	XGo   string // XGo declarations of the case; must define func case_<Idx>()
	Go    string // explicit Go expansion (same function name); "" = none
	Heavy bool   // true: a compile failure is expected to be common (compile alone is the point)
}

type outcome struct {
	Kind   string // "ran" | "compile-error" | "compile-panic" | "go-build-error" | "timeout" | "missing"
	Out    string // ran: what the case printed (lines joined by \n, without the #idx line)
	Detail string // error text (never part of a signature)
}

type batchStats struct {
	XGoPrograms, GoPrograms int64
	CompiledAlone           int64
	Bisections              int64
}

type batchConfig struct {
	Name       string // scratch sub-directory
	Prelude    string // Go-compatible declarations shared by XGo programs and Go expansions (imports first)
	GoPrelude  string // prelude of the Go expansions ("" = Prelude)
	PerProgram int    // units per program
	Workers    int    // parallel builds
	Timeout    time.Duration
}

func caseFn(idx int) string { return "case_" + strconv.Itoa(idx) }

const batchMain = `
func _run(id int, f func()) {
	defer func() {
		if e := recover(); e != nil {
			fmt.Printf("!panic %v\n", e)
		}
	}()
	fmt.Printf("#%d\n", id)
	f()
}
`

func programText(prelude string, us []unit, useGo bool) string {
	var b strings.Builder
	b.WriteString(prelude)
	b.WriteString(batchMain)
	for _, u := range us {
		if useGo {
			b.WriteString(u.Go)
		} else {
			b.WriteString(u.XGo)
		}
		b.WriteString("\n")
	}
	b.WriteString("func main() {\n")
	for _, u := range us {
		fmt.Fprintf(&b, "\t_run(%d, %s)\n", u.Idx, caseFn(u.Idx))
	}
	b.WriteString("\tfmt.Printf(\"#end\\n\")\n}\n")
	return b.String()
}

// splitOutput cuts a program's stdout into the per-case sections.
func splitOutput(stdout string) (map[int]string, bool) {
	res := map[int]string{}
	cur := -1
	var lines []string
	ended := false
	flush := func() {
		if cur >= 0 {
			res[cur] = strings.Join(lines, "\n")
		}
		lines = nil
	}
	for _, l := range strings.Split(stdout, "\n") {
		if strings.HasPrefix(l, "#") {
			flush()
			if l == "#end" {
				cur = -1
				ended = true
				continue
			}
			n, err := strconv.Atoi(l[1:])
			if err != nil {
				cur = -1
				continue
			}
			cur = n
			continue
		}
		if l != "" {
			lines = append(lines, l)
		}
	}
	flush()
	return res, ended
}

type batcher struct {
	cfg    batchConfig
	runner *xgolib.Runner
	dir    string
	seq    int64
	stats  batchStats
	mu     sync.Mutex
	t0     time.Time
	goImp  types.Importer
}

func (b *batcher) logf(format string, a ...any) {
	fmt.Fprintf(os.Stderr, "[semh %s %6.1fs] "+format+"\n", append([]any{b.cfg.Name, time.Since(b.t0).Seconds()}, a...)...)
}

func newBatcher(cfg batchConfig) *batcher {
	dir, err := os.MkdirTemp(scratchRoot(), "semh-"+cfg.Name+"-")
	if err != nil {
		fatal("scratch dir: %v", err)
	}
	r, err := xgolib.NewRunner(filepath.Join(dir, "m"))
	if err != nil {
		fatal("runner: %v", err)
	}
	if cfg.Workers == 0 {
		cfg.Workers = 8
	}
	if cfg.Timeout == 0 {
		cfg.Timeout = 300 * time.Second // backstop only: loops are cut by model-derived caps
	}
	if cfg.GoPrelude == "" {
		cfg.GoPrelude = cfg.Prelude
	}
	// the in-process compiler resolves imports with `go list` relative to the working directory:
	// stand in the scratch module (go.mod requires + replaces github.com/goplus/xgo => tree under test)
	if err := os.Chdir(r.Dir); err != nil {
		fatal("chdir: %v", err)
	}
	return &batcher{cfg: cfg, runner: r, dir: dir, t0: time.Now()}
}

func (b *batcher) close() { os.RemoveAll(b.dir) }

func fatal(format string, a ...any) {
	hlib.Flush()
	fmt.Fprintf(os.Stderr, "semh: "+format+"\n", a...)
	os.Exit(3)
}

// compileAlone compiles every unit on its own; returns the outcomes of those that do not compile.
func (b *batcher) compileAlone(us []unit) map[int]outcome {
	bad := map[int]outcome{}
	for _, u := range us {
		src := programText(b.cfg.Prelude, []unit{u}, false)
		o := xgolib.Compile(map[string]string{"main.xgo": src}, xgolib.Options{NoFileLine: true})
		atomic.AddInt64(&b.stats.CompiledAlone, 1)
		if os.Getenv("SEMH_TIMING") != "" {
			b.logf("compile alone %d: %v", u.Idx, o.Elapsed)
		}
		if o.Panic != nil {
			bad[u.Idx] = outcome{Kind: "compile-panic", Detail: fmt.Sprint(o.Panic)}
		} else if o.Err != nil {
			bad[u.Idx] = outcome{Kind: "compile-error", Detail: o.Stage + ": " + xgolib.ErrString(o.Err)}
		} else if msg := b.goTypeCheck(o.Go); msg != "" {
			// the compiler succeeded but its output is not valid Go: `go build` of a batch would fail
			bad[u.Idx] = outcome{Kind: "go-build-error", Detail: msg}
		}
	}
	return bad
}

// goTypeCheck type-checks generated Go source in-process (go/types reports what `go build` reports
// before code generation, incl. unused variables); "" = fine.
func (b *batcher) goTypeCheck(src string) string {
	if b.goImp == nil {
		b.goImp = packages.NewImporter(gotoken.NewFileSet())
	}
	fset := gotoken.NewFileSet()
	f, err := goparser.ParseFile(fset, "main.go", src, 0)
	if err != nil {
		return "go/parser: " + err.Error()
	}
	var first string
	conf := types.Config{Importer: b.goImp, Error: func(e error) {
		if first == "" {
			first = e.Error()
		}
	}}
	conf.Check("main", fset, []*goast.File{f}, nil)
	return first
}

// runProgram builds and runs one program made of us; on build failure / time-out it bisects.
func (b *batcher) runProgram(us []unit, useGo bool, res map[int]outcome) {
	if len(us) == 0 {
		return
	}
	put := func(idx int, o outcome) {
		b.mu.Lock()
		res[idx] = o
		b.mu.Unlock()
	}
	var gosrc string
	if useGo {
		gosrc = programText(b.cfg.GoPrelude, us, true)
	} else {
		src := programText(b.cfg.Prelude, us, false)
		o := xgolib.Compile(map[string]string{"main.xgo": src}, xgolib.Options{NoFileLine: true})
		if o.Err != nil || o.Panic != nil {
			// every unit compiled alone, so this is an interaction between cases: split
			if len(us) == 1 {
				put(us[0].Idx, outcome{Kind: "compile-error", Detail: fmt.Sprintf("%s: err=%v panic=%v", o.Stage, o.Err, o.Panic)})
				return
			}
			atomic.AddInt64(&b.stats.Bisections, 1)
			b.runProgram(us[:len(us)/2], useGo, res)
			b.runProgram(us[len(us)/2:], useGo, res)
			return
		}
		gosrc = o.Go
	}
	name := fmt.Sprintf("p%d", atomic.AddInt64(&b.seq, 1))
	if useGo {
		atomic.AddInt64(&b.stats.GoPrograms, 1)
	} else {
		atomic.AddInt64(&b.stats.XGoPrograms, 1)
	}
	rr := b.runner.Run(name, map[string]string{"main.go": gosrc}, b.cfg.Timeout)
	os.RemoveAll(filepath.Join(b.runner.Dir, "cmd", name))
	secs, ended := splitOutput(rr.Stdout)
	failed := rr.BuildErr != "" || rr.TimedOut || !ended || rr.Exit != 0
	if failed && len(us) > 1 {
		atomic.AddInt64(&b.stats.Bisections, 1)
		b.runProgram(us[:len(us)/2], useGo, res)
		b.runProgram(us[len(us)/2:], useGo, res)
		return
	}
	if failed {
		u := us[0]
		switch {
		case rr.BuildErr != "":
			put(u.Idx, outcome{Kind: "go-build-error", Detail: clip(rr.BuildErr, 600)})
		case rr.TimedOut:
			put(u.Idx, outcome{Kind: "timeout", Out: secs[u.Idx]})
		default:
			put(u.Idx, outcome{Kind: "crash", Out: secs[u.Idx], Detail: fmt.Sprintf("exit=%d %s", rr.Exit, clip(rr.Stderr, 600))})
		}
		return
	}
	for _, u := range us {
		if s, ok := secs[u.Idx]; ok {
			put(u.Idx, outcome{Kind: "ran", Out: s})
		} else {
			put(u.Idx, outcome{Kind: "missing"})
		}
	}
}

func clip(s string, n int) string {
	if len(s) > n {
		return s[:n] + "..."
	}
	return s
}

// run executes all units; returns per-case outcomes of the XGo pipeline and of the Go expansions.
func (b *batcher) run(us []unit) (xres, gres map[int]outcome) {
	xres, gres = map[int]outcome{}, map[int]outcome{}
	bad := b.compileAlone(us)
	b.logf("compiled %d cases alone, %d do not compile", len(us), len(bad))
	var good, withGo []unit
	for _, u := range us {
		if o, isBad := bad[u.Idx]; isBad {
			xres[u.Idx] = o
		} else {
			good = append(good, u)
		}
		if u.Go != "" && !goOracleOff() {
			withGo = append(withGo, u)
		}
	}
	type job struct {
		us    []unit
		useGo bool
	}
	var jobs []job
	per := b.cfg.PerProgram
	if per <= 0 {
		per = 100
	}
	for i := 0; i < len(good); i += per {
		j := i + per
		if j > len(good) {
			j = len(good)
		}
		jobs = append(jobs, job{good[i:j], false})
	}
	// Go expansions compile much faster than generated code is produced: larger programs
	gper := per * 4
	for i := 0; i < len(withGo); i += gper {
		j := i + gper
		if j > len(withGo) {
			j = len(withGo)
		}
		jobs = append(jobs, job{withGo[i:j], true})
	}
	hlib.Parallel(len(jobs), b.cfg.Workers, func(i int) {
		if jobs[i].useGo {
			b.runProgram(jobs[i].us, true, gres)
		} else {
			b.runProgram(jobs[i].us, false, xres)
		}
	})
	b.logf("ran %d XGo programs and %d Go expansion programs (%d bisections)", b.stats.XGoPrograms, b.stats.GoPrograms, b.stats.Bisections)
	return
}

// sortedKeys is a small helper for deterministic summaries.
func sortedKeys(m map[string]int) []string {
	var ks []string
	for k := range m {
		ks = append(ks, k)
	}
	sort.Strings(ks)
	return ks
}

// goOracleOff: SEMH_NO_GO_ORACLE=1 skips the explicit-Go-expansion oracle (only used to demonstrate that a
// corrupted model expectation is rejected by the comparison with the real XGo pipeline as well).
func goOracleOff() bool { return os.Getenv("SEMH_NO_GO_ORACLE") != "" }

// oracleDisagreement aborts the run: the TLA+ model and the explicit Go expansion (two oracles that
// must agree) differ on a case, which is a bug in the spec or in the expansion -- never an alarm.
func oracleDisagreement(idx int, input any, model, goexp string) {
	fatal("ORACLE DISAGREEMENT (model vs explicit Go expansion) on case %d %v:\n  model: %q\n  go   : %q", idx, input, model, goexp)
}
