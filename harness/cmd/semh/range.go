package main

// C04 -- a range expression start:end:step denotes the same sequence in every context.
// Cases come from specs/sem/Range.tla (one per (start,end,step) x operand spelling x context).

import (
	"fmt"
	"strconv"
	"strings"

	"verifharness/hlib"
)

type rangeCase struct {
	HasS  bool   `json:"hasS"`
	S     int    `json:"s"`
	E     int    `json:"e"`
	HasK  bool   `json:"hasK"`
	K     int    `json:"k"`
	Form  string `json:"form"`
	Ctx   string `json:"ctx"`
	Seq   []int  `json:"seq"`
	Out   []int  `json:"out"`
	Runs  int    `json:"runs"`
	Evals int    `json:"evals"`
	Cap   int    `json:"cap"`
}

// The prelude is plain Go, shared by the XGo programs and by their explicit Go expansions.
// Every helper ticks a counter bounded by the model-derived cap, so a loop with a wrong condition
// ends in panic("cap") (recovered per case) instead of hanging the batch.
const rangePrelude = `package main

import "fmt"

var (
	_ticks, _cap, _ev, _runs int
	_vs                      []int
)

func begin(cap int) { _ticks, _cap, _ev, _runs, _vs = 0, cap, 0, 0, nil }
func tick() {
	_ticks++
	if _ticks > _cap {
		panic("cap")
	}
}
func emit(i int)      { tick(); _vs = append(_vs, i) }
func emitAll(v []int) { _vs = append(_vs, v...) }
func body()           { tick(); _runs++ }
func keep(i int) bool { tick(); return i%2 == 0 }
func id(x int) int    { _ev++; return x }
func finish() {
	fmt.Print("v")
	for _, x := range _vs {
		fmt.Print(" ", x)
	}
	fmt.Printf("\nr %d\ne %d\n", _runs, _ev)
}
`

func (c *rangeCase) operands() (decl, rng, gs, ge, gk string) {
	s, e, k := strconv.Itoa(c.S), strconv.Itoa(c.E), strconv.Itoa(c.K)
	gs, ge, gk = "0", e, "1" // Go expansion: the values the documentation assigns to omitted operands
	switch c.Form {
	case "hex", "oct", "bin", "us": // other spellings of the same integer literals
		s, e, k = spell(c.Form, c.S), spell(c.Form, c.E), spell(c.Form, c.K)
		fallthrough
	case "lit":
		if c.HasS {
			rng, gs = s, s
		}
		rng += ":" + e
		if c.HasK {
			rng += ":" + k
			gk = k
		}
	case "var":
		var names, vals []string
		if c.HasS {
			names, vals = append(names, "a"), append(vals, s)
			rng, gs = "a", "a"
		}
		names, vals = append(names, "b"), append(vals, e)
		rng += ":b"
		ge = "b"
		if c.HasK {
			names, vals = append(names, "c"), append(vals, k)
			rng += ":c"
			gk = "c"
		}
		decl = "\t" + strings.Join(names, ", ") + " := " + strings.Join(vals, ", ") + "\n"
	case "call":
		if c.HasS {
			rng, gs = "id("+s+")", "id("+s+")"
		}
		rng += ":id(" + e + ")"
		ge = "id(" + e + ")"
		if c.HasK {
			rng += ":id(" + k + ")"
			gk = "id(" + k + ")"
		}
	}
	return
}

// spell writes n as an integer literal in the given spelling (the sign is a unary minus, as in the source)
func spell(form string, n int) string {
	sign, m := "", n
	if n < 0 {
		sign, m = "-", -n
	}
	switch form {
	case "hex":
		return sign + "0x" + strconv.FormatInt(int64(m), 16)
	case "oct":
		return sign + "0o" + strconv.FormatInt(int64(m), 8)
	case "bin":
		return sign + "0b" + strconv.FormatInt(int64(m), 2)
	case "us":
		return sign + "0_" + strconv.FormatInt(int64(m), 8) // digit separator (legacy octal, values < 8)
	}
	return strconv.Itoa(n)
}

func (c *rangeCase) render(idx int) unit {
	decl, r, gs, ge, gk := c.operands()
	var x, g strings.Builder
	head := fmt.Sprintf("func %s() {\n\tbegin(%d)\n", caseFn(idx), 2*c.Cap)
	x.WriteString(head)
	g.WriteString(head)
	x.WriteString(decl)
	g.WriteString(decl)
	// explicit Go expansion: operands evaluated once, left to right, then the documented iteration
	g.WriteString("\t_s, _e, _k := " + gs + ", " + ge + ", " + gk + "\n")
	const goLoop = "\tfor i := _s; (_k > 0 && i < _e) || (_k < 0 && i > _e); i += _k {\n"
	switch c.Ctx {
	case "forin":
		x.WriteString("\tfor i <- " + r + " {\n\t\temit(i)\n\t}\n")
		g.WriteString(goLoop + "\t\temit(i)\n\t}\n")
	case "forinif":
		x.WriteString("\tfor i <- " + r + " if keep(i) {\n\t\temit(i)\n\t}\n")
		g.WriteString(goLoop + "\t\tif keep(i) {\n\t\t\temit(i)\n\t\t}\n\t}\n")
	case "forrange":
		x.WriteString("\tfor i := range " + r + " {\n\t\temit(i)\n\t}\n")
		g.WriteString(goLoop + "\t\temit(i)\n\t}\n")
	case "forassign":
		x.WriteString("\tvar i int\n\tfor i = range " + r + " {\n\t\temit(i)\n\t}\n")
		g.WriteString(goLoop + "\t\temit(i)\n\t}\n")
	case "forrange0":
		x.WriteString("\tfor range " + r + " {\n\t\tbody()\n\t}\n")
		g.WriteString(goLoop + "\t\tbody()\n\t}\n")
	case "forbare":
		x.WriteString("\tfor " + r + " {\n\t\tbody()\n\t}\n")
		g.WriteString(goLoop + "\t\tbody()\n\t}\n")
	case "compr":
		x.WriteString("\temitAll([i for i <- " + r + "])\n")
		g.WriteString("\tvar _ret []int\n" + goLoop + "\t\t_ret = append(_ret, i)\n\t}\n\temitAll(_ret)\n")
	case "comprif":
		x.WriteString("\temitAll([i for i <- " + r + " if keep(i)])\n")
		g.WriteString("\tvar _ret []int\n" + goLoop + "\t\tif keep(i) {\n\t\t\t_ret = append(_ret, i)\n\t\t}\n\t}\n\temitAll(_ret)\n")
	default:
		fatal("range: unknown context %q", c.Ctx)
	}
	x.WriteString("\tfinish()\n}\n")
	g.WriteString("\tfinish()\n}\n")
	return unit{Idx: idx, XGo: x.String(), Go: g.String()}
}

func (c *rangeCase) text() string {
	_, r, _, _, _ := c.operands()
	return fmt.Sprintf("%s %s (%s) s=%v/%d e=%d k=%v/%d", c.Ctx, r, c.Form, c.HasS, c.S, c.E, c.HasK, c.K)
}

type rangeObs struct {
	vals        []int
	runs, evals int
	capped      bool
	ok          bool
}

func parseRangeOut(s string) (o rangeObs) {
	if strings.Contains(s, "!panic cap") {
		o.capped, o.ok = true, true
		return
	}
	lines := strings.Split(s, "\n")
	if len(lines) != 3 || !strings.HasPrefix(lines[0], "v") || !strings.HasPrefix(lines[1], "r ") || !strings.HasPrefix(lines[2], "e ") {
		return
	}
	for _, f := range strings.Fields(lines[0][1:]) {
		n, err := strconv.Atoi(f)
		if err != nil {
			return
		}
		o.vals = append(o.vals, n)
	}
	var err1, err2 error
	o.runs, err1 = strconv.Atoi(lines[1][2:])
	o.evals, err2 = strconv.Atoi(lines[2][2:])
	o.ok = err1 == nil && err2 == nil
	return
}

func intsEq(a, b []int) bool {
	if len(a) != len(b) {
		return false
	}
	for i := range a {
		if a[i] != b[i] {
			return false
		}
	}
	return true
}

func isPrefix(p, q []int) bool { return len(p) <= len(q) && intsEq(p, q[:len(p)]) }

func ones(n int) []int {
	r := make([]int, n)
	for i := range r {
		r[i] = 1
	}
	return r
}

// symptom abstracts how an observed sequence differs from the denoted one.
func rangeSymptom(exp, got []int) string {
	switch {
	case len(got) == 0 && len(exp) > 0:
		return "zero-iterations"
	case len(exp) == 0 && len(got) > 0:
		return "spurious-iterations"
	case got[0] != exp[0]:
		return "wrong-start"
	case len(got) > 1 && len(exp) > 1 && got[1] != exp[1]:
		return "wrong-stride"
	case isPrefix(got, exp):
		return "stops-early"
	case isPrefix(exp, got):
		return "overruns"
	}
	return "wrong-sequence"
}

func (c *rangeCase) sigPrefix() string {
	ctx := "range-loop"
	if strings.HasPrefix(c.Ctx, "compr") {
		ctx = "range-compr"
	}
	step := "default-step"
	if c.HasK {
		sign := "positive"
		if c.K < 0 {
			sign = "negative"
		}
		kind := "computed"
		if c.Form != "var" && c.Form != "call" {
			kind = "literal"
		}
		step = sign + "-" + kind + "-step"
	}
	return ctx + ":" + step
}

func runRange() {
	cases := hlib.ReadAllCases[rangeCase]()
	units := make([]unit, len(cases))
	for i := range cases {
		units[i] = cases[i].render(i)
	}
	per := 300
	if len(cases) > 6000 {
		per = 800
	}
	b := newBatcher(batchConfig{Name: "range", Prelude: rangePrelude, PerProgram: per, Workers: 8})
	defer b.close()
	xres, gres := b.run(units)

	compared, agree := 0, 0
	for i := range cases {
		c := &cases[i]
		isCount := c.Ctx == "forrange0" || c.Ctx == "forbare"
		expVals, expRuns := c.Out, c.Runs
		expEv := 0
		if c.Form == "call" {
			expEv = c.Evals
		}
		// second oracle: the explicit Go expansion must say what the model says
		g := gres[i]
		gobs := parseRangeOut(g.Out)
		if !goOracleOff() && (g.Kind != "ran" || !gobs.ok || gobs.capped || !intsEq(gobs.vals, expVals) || gobs.runs != expRuns || gobs.evals != expEv) {
			oracleDisagreement(i, c.text(), fmt.Sprintf("vals=%v runs=%d evals=%d", expVals, expRuns, expEv), g.Kind+" "+g.Out+" "+g.Detail)
		}
		agree++

		res := hlib.Result{Idx: i, V: "ok", Input: c.text()}
		if len(c.Seq) > 0 {
			res.NT = fmt.Sprintf("%s/%s/%v:%d:%d:%v:%d", c.Ctx, c.Form, c.HasS, c.S, c.E, c.HasK, c.K)
		} else {
			res.NT = fmt.Sprintf("%s/%s/empty/%v/%v/%v", c.Ctx, c.Form, c.HasS, c.HasK, c.K < 0)
		}
		x := xres[i]
		compared++
		viol := func(sym, detail string) {
			res.V, res.Sig, res.Detail = "viol", c.sigPrefix()+":"+sym, detail
		}
		switch x.Kind {
		case "ran":
			o := parseRangeOut(x.Out)
			switch {
			case !o.ok:
				fatal("range: unparsable output of case %d (%s): %q", i, c.text(), x.Out)
			case o.capped:
				viol("no-termination", fmt.Sprintf("%s: still iterating after %d helper calls; the expression denotes %v", c.text(), 2*c.Cap, c.Seq))
			case isCount && o.runs != expRuns:
				viol(rangeSymptom(ones(expRuns), ones(o.runs)), fmt.Sprintf("%s: body ran %d times, the expression denotes %v (%d elements)", c.text(), o.runs, c.Seq, expRuns))
			case !isCount && !intsEq(o.vals, expVals):
				sym := rangeSymptom(expVals, o.vals)
				if sym == "wrong-start" {
					if c.HasS {
						sym += ":explicit-start"
					} else {
						sym += ":omitted-start"
					}
				}
				viol(sym, fmt.Sprintf("%s: observed %v, the expression denotes %v (after the filter: %v)", c.text(), o.vals, c.Seq, expVals))
			case o.evals != expEv:
				// the statement does not pin how often an operand is evaluated
				res.V, res.Sig = "drift", "operand-evaluations"
				res.Detail = fmt.Sprintf("%s: operands evaluated %d times, model %d", c.text(), o.evals, expEv)
			default:
				res.Detail = fmt.Sprintf("vals=%v runs=%d", o.vals, o.runs)
			}
		case "compile-error", "compile-panic", "go-build-error":
			viol(x.Kind, c.text()+": "+x.Detail)
		case "timeout":
			// loops are cut by the model-derived cap, so a wall-clock time-out is a machine problem: inconclusive
			fatal("range: case %d (%s) timed out", i, c.text())
		default:
			fatal("range: case %d (%s) has no result: %s %s", i, c.text(), x.Kind, x.Detail)
		}
		hlib.Emit(res)
	}
	hlib.EmitRaw(map[string]any{"v": "summary", "programs": b.stats.XGoPrograms, "go_expansion_programs": b.stats.GoPrograms,
		"compiled_alone": b.stats.CompiledAlone, "bisections": b.stats.Bisections,
		"compared_with_model": compared, "model_vs_go_expansion_agree": agree})
}
