package main

// C03 -- error-wrapping operators expr!, expr?, expr?:d.
// Cases come from specs/sem/ErrWrap.tla.

import (
	"fmt"
	"sort"
	"strconv"
	"strings"

	"verifharness/hlib"
)

type errwrapCase struct {
	NV      int      `json:"nv"`
	Fail    bool     `json:"fail"`
	Op      string   `json:"op"`
	Pos     string   `json:"pos"`
	CF      string   `json:"cf"`
	Enc     int      `json:"enc"`
	RT      string   `json:"rt"`
	Named   bool     `json:"named"`
	Outcome string   `json:"outcome"`
	Seen    []string `json:"seen"`
	Rets    []string `json:"rets"`
	RetErr  string   `json:"reterr"`
	Log     []string `json:"log"`
	Calls   int      `json:"calls"`
	Lay     string   `json:"lay"`
	FLine   int      `json:"fline"`
	delta   int      // source line of the wrapped expression's first line, relative to the reference wrap of the case
}

const errwrapPrelude = `package main

import (
	"errors"
	"fmt"
	"strconv"
	"strings"

	qerrors "github.com/qiniu/x/errors"
)

var (
	_base   int
	errBoom = errors.New("boom")
	_log    []string
	_seen   []string
	_fail   bool
)

type T struct{}
type P struct{ X int }

func logf(s string) { _log = append(_log, s) }
func begin(fail bool) { _log, _seen, _fail = nil, nil, fail }
func g0(fail bool) error {
	logf("g")
	if fail {
		return errBoom
	}
	return nil
}
func g1(fail bool) (int, error) {
	logf("g")
	if fail {
		return 99, errBoom
	}
	return 7, nil
}
func g2(fail bool) (int, string, error) {
	logf("g")
	if fail {
		return 99, "zz", errBoom
	}
	return 7, "s", nil
}
func h0() error                           { return g0(_fail) }
func h1() (int, error)                    { return g1(_fail) }
func h2() (int, string, error)            { return g2(_fail) }
func (t T) g0(fail bool) error            { return g0(fail) }
func (t T) g1(fail bool) (int, error)     { return g1(fail) }
func (t T) g2(fail bool) (int, string, error) { return g2(fail) }
func (t T) h0() error                     { return g0(_fail) }
func (t T) h1() (int, error)              { return g1(_fail) }
func (t T) h2() (int, string, error)      { return g2(_fail) }
func d() int {
	logf("d")
	return 55
}
func sh(x any) string {
	switch v := x.(type) {
	case int:
		return strconv.Itoa(v)
	case string:
		return "'" + v + "'"
	case *T:
		if v == nil {
			return "nil"
		}
		return "ptr"
	case []int:
		if v == nil {
			return "nil"
		}
		return fmt.Sprint(v)
	case P:
		return fmt.Sprintf("{%d}", v.X)
	}
	return fmt.Sprintf("?%T", x)
}
func note(a ...any) {
	for _, x := range a {
		_seen = append(_seen, sh(x))
	}
}
func refFail() error { return errBoom }

// baseLine runs f (a one-line wrap that fails) and returns the line its frame names: the reference line of a case
func baseLine(f func()) (l int) {
	defer func() {
		var fr *qerrors.Frame
		if err, ok := recover().(error); ok && errors.As(err, &fr) {
			l = fr.Line
		}
	}()
	f()
	return
}
func squash(s string) string {
	return strings.Map(func(r rune) rune {
		if r == ' ' || r == '\t' || r == '\n' {
			return -1
		}
		return r
	}, s)
}
func errInfo(err error, frame string) string {
	line := "none"
	var fr *qerrors.Frame
	if errors.As(err, &fr) {
		line = strconv.Itoa(fr.Line - _base)
	}
	return fmt.Sprintf("is=%v frame=%v line=%s", errors.Is(err, errBoom), strings.Contains(squash(err.Error()), squash(frame)), line)
}
func report(err error, frame string, rs ...any) {
	var s []string
	for _, r := range rs {
		s = append(s, sh(r))
	}
	if err == nil {
		fmt.Println("out normal rets=" + strings.Join(s, " "))
	} else {
		fmt.Println("out reterr rets=" + strings.Join(s, " ") + " " + errInfo(err, frame))
	}
}
func reportPanic(e any, frame string) {
	if err, ok := e.(error); ok {
		fmt.Println("out panic " + errInfo(err, frame))
	} else {
		fmt.Printf("out panic non-error %v\n", e)
	}
}
func finish() {
	fmt.Println("seen " + strings.Join(_seen, " "))
	fmt.Println("log " + strings.Join(_log, ","))
}
`

// the overloaded functions of the "lambda" position: the first candidate accepts the lambda literal but not the
// second argument, so the second candidate is chosen after the lambda body has been compiled once already
const errwrapPreludeXGo = `
func run1_(fn func(x int), s string)                { fn(1) }
func run2_(fn func(x string), i int)                { fn("a") }
func try1_(fn func(x int) error, s string) error    { return fn(1) }
func try2_(fn func(x string) error, i int) error    { return fn("a") }

func run = (
	run1_
	run2_
)

func try = (
	try1_
	try2_
)
`

const errwrapPreludeGo = `
func run(fn func(x string), i int)             { fn("a") }
func try(fn func(x string) error, i int) error { return fn("a") }
`

var rtGo = map[string][2]string{ // type, non-zero value
	"int": {"int", "1"}, "string": {"string", `"r"`}, "ptr": {"*T", "&T{}"}, "slice": {"[]int", "[]int{1}"}, "struct": {"P", "P{1}"},
}

func (c *errwrapCase) encTypes() []string {
	switch c.Enc {
	case 2:
		return []string{c.RT}
	case 3:
		return []string{c.RT, "string"}
	}
	return nil
}

// callee expression as written (also the text the error frame must name)
func (c *errwrapCase) callee() string {
	recv := ""
	if c.Pos == "method" {
		recv = "t."
	}
	switch {
	case c.CF == "ident":
		return recv + "h" + strconv.Itoa(c.NV)
	case c.CF == "cmd":
		return recv + "g" + strconv.Itoa(c.NV) + " fail" // how the frame prints (g1 fail)!
	case c.Lay == "multi":
		return recv + "g" + strconv.Itoa(c.NV) + "(fail,)" // compared modulo white space
	}
	return recv + "g" + strconv.Itoa(c.NV) + "(fail)"
}

// wrap is the wrapped expression with its operator as written; ind = indentation of the statement
func (c *errwrapCase) wrap(ind string) string {
	op := c.Op
	if c.Op == "?:" {
		op = "?:d()"
	}
	g := "g" + strconv.Itoa(c.NV)
	if c.Pos == "method" {
		g = "t." + g
	}
	switch {
	case c.CF == "ident":
		return c.callee() + op
	case c.CF == "cmd":
		return g + op + " fail" // command style with arguments: the operator follows the callee
	case c.Lay == "multi":
		return g + "(\n" + ind + "\tfail,\n" + ind + ")" + op
	}
	return g + "(fail)" + op
}

// needle finds the first line of the wrapped expression in the rendered unit
func (c *errwrapCase) needle() string {
	g := strconv.Itoa(c.NV)
	switch c.CF {
	case "ident":
		return "h" + g + c.Op[:1]
	case "cmd":
		return "g" + g + c.Op[:1] + " fail"
	}
	return "g" + g + "("
}

func (c *errwrapCase) useStmts(ind string) string {
	w := c.wrap(ind)
	pos := c.Pos
	if pos == "lambda" {
		pos = "stmt"
	}
	if pos == "closure" || pos == "method" {
		pos = "assign"
		if c.NV == 0 {
			pos = "stmt"
		}
	}
	var s string
	switch pos {
	case "stmt":
		s = ind + w + "\n"
	case "assign":
		if c.NV == 1 {
			s = ind + "a := " + w + "\n" + ind + "note(a)\n"
		} else {
			s = ind + "a, b := " + w + "\n" + ind + "note(a, b)\n"
		}
	case "arg":
		s = ind + "note(" + w + ")\n"
	case "nested":
		s = ind + "a := 100 + " + w + "\n" + ind + "note(a)\n"
	}
	return s + ind + "logf(\"after\")\n"
}

// useStmtsGo is the documented expansion of useStmts in plain Go: call once, test the error, then
// panic / return zero values + error / substitute the default, then use the values.
func (c *errwrapCase) useStmtsGo(ind string) string {
	call := c.callee()
	switch {
	case c.CF == "ident":
		call += "()"
	case c.CF == "cmd" || c.Lay == "multi":
		call = "g" + strconv.Itoa(c.NV) + "(fail)"
		if c.Pos == "method" {
			call = "t." + call
		}
	}
	vars := []string{"_v1", "_v2"}[:c.NV]
	var b strings.Builder
	b.WriteString(ind + strings.Join(append(append([]string{}, vars...), "_err"), ", ") + " := " + call + "\n")
	wrapped := fmt.Sprintf("qerrors.NewFrame(_err, %s, \"main.xgo\", _base+(%d), \"main.enc\")", strconv.Quote(c.callee()), c.delta)
	b.WriteString(ind + "if _err != nil {\n")
	switch c.Op {
	case "!":
		b.WriteString(ind + "\tpanic(" + wrapped + ")\n")
	case "?":
		var zs []string
		for _, t := range c.encTypes() {
			zs = append(zs, map[string]string{"int": "0", "string": `""`, "ptr": "nil", "slice": "nil", "struct": "P{}"}[t])
		}
		b.WriteString(ind + "\treturn " + strings.Join(append(zs, wrapped), ", ") + "\n")
	case "?:":
		b.WriteString(ind + "\t_v1 = d()\n")
	}
	b.WriteString(ind + "}\n")
	pos := c.Pos
	if pos == "lambda" {
		pos = "stmt"
	}
	if pos == "closure" || pos == "method" {
		pos = "assign"
		if c.NV == 0 {
			pos = "stmt"
		}
	}
	switch {
	case pos == "stmt" && c.NV > 0:
		b.WriteString(ind + strings.Repeat("_, ", c.NV-1) + "_ = " + strings.Join(vars, ", ") + "\n")
	case pos == "assign" || pos == "arg":
		b.WriteString(ind + "note(" + strings.Join(vars, ", ") + ")\n")
	case pos == "nested":
		b.WriteString(ind + "note(100 + _v1)\n")
	}
	return b.String() + ind + "logf(\"after\")\n"
}

func (c *errwrapCase) render(idx int) unit {
	x := c.renderWith(idx, c.useStmts, false)
	// where does the wrapped expression start, relative to the one-line reference wrap of the case?
	ref, first := -1, -1
	for i, l := range strings.Split(x, "\n") {
		if first < 0 && strings.Contains(l, c.needle()) {
			first = i
		}
		if strings.Contains(l, "refFail()!") {
			ref = i
		}
	}
	if ref < 0 || first < 0 {
		fatal("errwrap: cannot locate the wrapped expression of case %d:\n%s", idx, x)
	}
	c.delta = first - ref
	g := c.renderWith(idx, c.useStmtsGo, true)
	return unit{Idx: idx, XGo: x, Go: g}
}

func (c *errwrapCase) renderWith(idx int, use func(string) string, isGo bool) string {
	id := strconv.Itoa(idx)
	types := c.encTypes()
	var b strings.Builder
	// result list of the function that contains the wrap
	resultList, preassign, normalRet := "", "", ""
	if c.Op == "?" {
		var parts, names, normals []string
		for i, t := range types {
			nm := fmt.Sprintf("r%d", i+1)
			names = append(names, nm)
			normals = append(normals, rtGo[t][1])
			if c.Named {
				parts = append(parts, nm+" "+rtGo[t][0])
			} else {
				parts = append(parts, rtGo[t][0])
			}
		}
		if c.Named {
			parts = append(parts, "err error")
			if len(names) > 0 {
				preassign = "\t" + strings.Join(names, ", ") + " = " + strings.Join(normals, ", ") + "\n"
			}
		} else {
			parts = append(parts, "error")
		}
		resultList = " (" + strings.Join(parts, ", ") + ")"
		normalRet = "return " + strings.Join(append(normals, "nil"), ", ") + "\n"
	}
	recvDecl := ""
	if c.Pos == "method" {
		recvDecl = "(t T) "
	}
	frame := strconv.Quote(c.callee())
	var rnames []string
	for i := range types {
		rnames = append(rnames, fmt.Sprintf("v%d", i+1))
	}
	if c.Pos == "lambda" {
		open, res := "x => {", ""
		if c.Op == "?" {
			res = " error"
		}
		if isGo {
			open = "func(x string)" + res + " {"
		}
		fmt.Fprintf(&b, "func enc_%s(fail bool) {\n", id)
		switch {
		case c.Op == "?":
			b.WriteString("\terr := try(" + open + "\n" + use("\t\t") + "\t\treturn nil\n\t}, 1)\n")
			fmt.Fprintf(&b, "\tlogf(\"outer\")\n\treport(err, %s)\n", frame)
		case isGo:
			b.WriteString("\trun(" + open + "\n" + use("\t\t") + "\t}, 1)\n\tlogf(\"outer\")\n")
		default: // command style call of the overloaded function itself
			b.WriteString("\trun " + open + "\n" + use("\t\t") + "\t}, 1\n\tlogf(\"outer\")\n")
		}
		b.WriteString("}\n")
	} else if c.Pos == "closure" {
		fmt.Fprintf(&b, "func enc_%s(fail bool) {\n", id)
		fmt.Fprintf(&b, "\tf := func()%s {\n", resultList)
		b.WriteString(use("\t\t"))
		if c.Op == "?" {
			b.WriteString("\t\t" + normalRet)
		}
		b.WriteString("\t}\n")
		if c.Op == "?" {
			fmt.Fprintf(&b, "\t%s := f()\n\tlogf(\"outer\")\n", strings.Join(append(append([]string{}, rnames...), "err"), ", "))
			fmt.Fprintf(&b, "\treport(%s)\n", strings.Join(append([]string{"err", frame}, rnames...), ", "))
		} else {
			b.WriteString("\tf()\n\tlogf(\"outer\")\n")
		}
		b.WriteString("}\n")
	} else {
		fmt.Fprintf(&b, "func %senc_%s(fail bool)%s {\n", recvDecl, id, resultList)
		b.WriteString(preassign)
		b.WriteString(use("\t"))
		if c.Op == "?" {
			b.WriteString("\t" + normalRet)
		}
		b.WriteString("}\n")
	}
	// the case wrapper
	call := fmt.Sprintf("enc_%s(%v)", id, c.Fail)
	if c.Pos == "method" {
		call = "T{}." + call
	}
	base := "\t_base = baseLine(func() { refFail()! })\n"
	if isGo {
		base = "\t_base = 0\n"
	}
	fmt.Fprintf(&b, "func %s() {\n\tbegin(%v)\n"+base+"\tfunc() {\n\t\tdefer func() {\n\t\t\tif e := recover(); e != nil {\n\t\t\t\treportPanic(e, %s)\n\t\t\t}\n\t\t}()\n", caseFn(idx), c.Fail, frame)
	if c.Op == "?" && c.Pos != "closure" && c.Pos != "lambda" {
		fmt.Fprintf(&b, "\t\t%s := %s\n", strings.Join(append(append([]string{}, rnames...), "err"), ", "), call)
		fmt.Fprintf(&b, "\t\treport(%s)\n", strings.Join(append([]string{"err", frame}, rnames...), ", "))
	} else {
		fmt.Fprintf(&b, "\t\t%s\n", call)
		if c.Op != "?" {
			b.WriteString("\t\tfmt.Println(\"out normal rets=\")\n")
		}
	}
	b.WriteString("\t}()\n\tfinish()\n}\n")
	return b.String()
}

func (c *errwrapCase) text() string {
	w := strings.NewReplacer("\n", "⏎", "\t", "").Replace(c.wrap(""))
	s := fmt.Sprintf("%s at %s (callee returns %d value(s)+error, error=%v)", w, c.Pos, c.NV, c.Fail)
	if c.Op == "?" {
		named := ""
		if c.Named {
			named = " named, pre-assigned"
		}
		s += fmt.Sprintf(" in a function returning (%s)%s", strings.Join(append(c.encTypes(), "error"), ", "), named)
	}
	return s
}

func (c *errwrapCase) expected() (out, seen, log string) {
	out = "out " + c.Outcome
	switch c.Outcome {
	case "normal":
		out += " rets=" + strings.Join(c.Rets, " ")
	case "reterr":
		out += " rets=" + strings.Join(c.Rets, " ") + fmt.Sprintf(" is=true frame=true line=%d", c.delta+c.FLine)
	case "panic":
		out += fmt.Sprintf(" is=true frame=true line=%d", c.delta+c.FLine)
	}
	return out, "seen " + strings.Join(c.Seen, " "), "log " + strings.Join(c.Log, ",")
}

func count(xs []string, x string) int {
	n := 0
	for _, y := range xs {
		if y == x {
			n++
		}
	}
	return n
}

func (c *errwrapCase) valueClass() string {
	switch c.NV {
	case 0:
		return "no-value"
	case 1:
		return "single-value"
	}
	return "multi-value"
}

// classify abstracts a wrong observation into the clause of the statement it breaks.
func (c *errwrapCase) classify(lines []string) string {
	eo, es, el := c.expected()
	gotLog := strings.Split(strings.TrimPrefix(lines[2], "log "), ",")
	expLog := c.Log
	switch {
	case count(gotLog, "g") != 1:
		return "callee-not-evaluated-once"
	case count(gotLog, "d") > count(expLog, "d"):
		return "default-evaluated-without-error"
	case count(gotLog, "d") < count(expLog, "d"):
		return "default-not-evaluated"
	}
	if lines[0] != eo {
		gf := strings.Fields(lines[0])
		ef := strings.Fields(eo)
		switch {
		case len(gf) < 2 || gf[1] != ef[1]:
			got := "?"
			if len(gf) >= 2 {
				got = gf[1]
			}
			return "outcome:" + got + "-instead-of-" + ef[1]
		case strings.Contains(lines[0], "is=false"):
			return "error-identity-lost"
		case strings.Contains(lines[0], "frame=false"):
			return "frame-does-not-name-expression"
		case lineField(lines[0]) != lineField(eo):
			return "frame-names-wrong-line"
		case c.Outcome == "reterr":
			return "other-results-not-zero"
		}
		return "results"
	}
	if lines[1] != es {
		return "values"
	}
	if lines[2] != el {
		a, b := append([]string{}, gotLog...), append([]string{}, expLog...)
		sort.Strings(a)
		sort.Strings(b)
		if strings.Join(a, ",") == strings.Join(b, ",") {
			return "evaluation-order"
		}
		return "continuation"
	}
	return ""
}

// lineField / noFrameFields: the frame part of an `out` line
func lineField(s string) string {
	if i := strings.Index(s, " line="); i >= 0 {
		return s[i:]
	}
	return ""
}
func noFrameFields(s string) string {
	if i := strings.Index(s, " frame="); i >= 0 {
		return s[:i]
	}
	return s
}

func runErrWrap() {
	cases := hlib.ReadAllCases[errwrapCase]()
	units := make([]unit, len(cases))
	for i := range cases {
		units[i] = cases[i].render(i)
	}
	b := newBatcher(batchConfig{Name: "errwrap", Prelude: errwrapPrelude + errwrapPreludeXGo, GoPrelude: errwrapPrelude + errwrapPreludeGo, PerProgram: 150, Workers: 8})
	defer b.close()
	xres, gres := b.run(units)
	compared, agree := 0, 0
	for i := range cases {
		c := &cases[i]
		{ // second oracle: the explicit Go expansion must say what the model says
			eo, es, el := c.expected()
			g := gres[i]
			want := eo + "\n" + strings.TrimRight(es, " ") + "\n" + el
			got := strings.ReplaceAll(g.Out, "seen \n", "seen\n")
			if !goOracleOff() && (g.Kind != "ran" || got != want) {
				oracleDisagreement(i, c.text(), want, g.Kind+" "+g.Out+" "+g.Detail)
			}
			agree++
		}
		res := hlib.Result{Idx: i, V: "ok", Input: c.text()}
		res.NT = fmt.Sprintf("%s/%s/%s/%s/nv%d/fail=%v/enc%d/%s/%v", c.Op, c.Pos, c.CF, c.Lay, c.NV, c.Fail, c.Enc, c.RT, c.Named)
		x := xres[i]
		compared++
		sigBase := "errwrap-" + map[string]string{"!": "!", "?": "?", "?:": "?:default"}[c.Op] + ":"
		switch x.Kind {
		case "ran":
			lines := strings.Split(x.Out, "\n")
			if len(lines) != 3 || !strings.HasPrefix(lines[0], "out ") || !strings.HasPrefix(lines[1], "seen") || !strings.HasPrefix(lines[2], "log") {
				fatal("errwrap: unparsable output of case %d (%s): %q", i, c.text(), x.Out)
			}
			lines[1] = strings.TrimRight(lines[1], " ")
			eo, es, el := c.expected()
			es = strings.TrimRight(es, " ")
			if c.Outcome == "reterr" && lines[1] == es && lines[2] == el && lines[0] != eo && noFrameFields(lines[0]) == noFrameFields(eo) {
				// the statement asks for a source frame on the panic of expr! only; a bare error from expr?, or a frame
				// that names another line, is recorded but is not an alarm
				sig := "return-frame-names-wrong-line"
				if strings.Contains(lines[0], "frame=false") {
					sig = "return-without-frame"
				}
				res.V, res.Sig, res.Detail = "drift", sig, c.text()+": "+lines[0]+" (documented: "+eo+")"
			} else if cl := c.classify([]string{lines[0], lines[1], lines[2]}); cl != "" && !(lines[0] == eo && lines[1] == es && lines[2] == el) {
				res.V, res.Sig = "viol", sigBase+cl
				res.Detail = fmt.Sprintf("%s: observed [%s | %s | %s], documented [%s | %s | %s]", c.text(), lines[0], lines[1], lines[2], eo, es, el)
			} else {
				res.Detail = lines[0] + " | " + lines[1] + " | " + lines[2]
			}
		case "compile-error", "compile-panic":
			res.V, res.Sig, res.Detail = "viol", sigBase+c.valueClass()+":"+x.Kind, c.text()+": "+clip(x.Detail, 400)
		case "go-build-error":
			pos := c.Pos
			if pos == "lambda" || (pos == "closure" || pos == "method") && c.NV == 0 {
				pos = "stmt"
			} else if pos == "closure" || pos == "method" {
				pos = "assign"
			}
			res.V, res.Sig, res.Detail = "viol", sigBase+c.valueClass()+":"+pos+":go-build-error", c.text()+": "+clip(x.Detail, 400)
		case "timeout":
			fatal("errwrap: case %d (%s) timed out", i, c.text())
		case "crash":
			res.V, res.Sig, res.Detail = "viol", sigBase+x.Kind, c.text()+": "+x.Detail
		default:
			fatal("errwrap: case %d (%s) has no result: %s %s", i, c.text(), x.Kind, x.Detail)
		}
		hlib.Emit(res)
	}
	hlib.EmitRaw(map[string]any{"v": "summary", "programs": b.stats.XGoPrograms, "compiled_alone": b.stats.CompiledAlone,
		"go_expansion_programs": b.stats.GoPrograms, "bisections": b.stats.Bisections,
		"compared_with_model": compared, "model_vs_go_expansion_agree": agree})
}
