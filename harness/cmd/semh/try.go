package main

import (
	"fmt"
	"os"
	"path/filepath"
	"time"

	"verifharness/xgolib"
)

// runTry compiles one XGo file through the program pipeline, prints the generated Go source and
// runs it.  It exists to reproduce a finding by hand:  semh try case.xgo
func runTry(args []string) {
	if len(args) < 1 {
		fmt.Fprintln(os.Stderr, "usage: semh try file.xgo [-q]")
		os.Exit(3)
	}
	src, err := os.ReadFile(args[0])
	if err != nil {
		fmt.Fprintln(os.Stderr, err)
		os.Exit(3)
	}
	dir, err := os.MkdirTemp(scratchRoot(), "try-")
	if err != nil {
		fmt.Fprintln(os.Stderr, err)
		os.Exit(3)
	}
	defer os.RemoveAll(dir)
	r, err := xgolib.NewRunner(filepath.Join(dir, "m"))
	if err != nil {
		fmt.Fprintln(os.Stderr, err)
		os.Exit(3)
	}
	os.Chdir(r.Dir) // imports are resolved by `go list` relative to the working directory
	o := xgolib.Compile(map[string]string{"main.xgo": string(src)}, xgolib.Options{NoFileLine: true})
	if o.Err != nil || o.Panic != nil {
		fmt.Printf("COMPILE %s: err=%v panic=%v\n", o.Stage, o.Err, o.Panic)
		return
	}
	if len(args) < 2 {
		fmt.Println("---- generated Go")
		fmt.Print(o.Go)
	}
	res := r.Run("try", map[string]string{"main.go": o.Go}, 20*time.Second)
	fmt.Println("---- run")
	if res.BuildErr != "" {
		fmt.Println("GO BUILD ERROR:\n" + res.BuildErr)
		return
	}
	fmt.Print(res.Stdout)
	if res.Stderr != "" {
		fmt.Println("---- stderr\n" + res.Stderr)
	}
	fmt.Printf("---- exit=%d timeout=%v\n", res.Exit, res.TimedOut)
}

// scratchRoot is the engine's scratch dir for this run, or ~/.verif-scratch for manual use.
func scratchRoot() string {
	if d := os.Getenv("VERIF_SCRATCH_DIR"); d != "" {
		return d
	}
	home, _ := os.UserHomeDir()
	d := filepath.Join(home, ".verif-scratch")
	os.MkdirAll(d, 0755)
	return d
}
