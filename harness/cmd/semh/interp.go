package main

// C05 -- string interpolation equals explicit concatenation.
// Cases come from specs/sem/Interp.tla: a literal as a segment sequence, its source text, and the
// value / evaluation log the documented reading assigns to it.

import (
	"fmt"
	"sort"
	"strconv"
	"strings"

	"github.com/goplus/xgo/ast"
	"github.com/goplus/xgo/parser"
	"github.com/goplus/xgo/token"

	"verifharness/hlib"
)

type interpCase struct {
	Quote string   `json:"quote"`
	Segs  []string `json:"segs"`
	Src   []string `json:"src"`
	Val   []string `json:"val"`
	Log   []string `json:"log"`
	Types []string `json:"types"`
}

const interpPrelude = `package main

import (
	"errors"
	"fmt"
	"strconv"
	"strings"
)

var (
	_log []string
	boom = errors.New("boom")
	_    = strconv.Itoa
)

func begin() { _log = nil }
func g() int {
	_log = append(_log, "g")
	return 7
}
func h() string {
	_log = append(_log, "h")
	return "yo"
}
func show(v string) {
	fmt.Printf("%q\n", v)
	fmt.Println("l", strings.Join(_log, ","))
}
`

// symbolic characters of the spec
func tok(c string) string {
	switch c {
	case "BS":
		return "\\"
	case "DQ":
		return "\""
	case "NL":
		return "\n"
	}
	return c
}

func toks(cs []string) string {
	var b strings.Builder
	for _, c := range cs {
		b.WriteString(tok(c))
	}
	return b.String()
}

var interpExprs = map[string]struct{ src, goStr, typ, decl string }{
	"n":  {"n", "strconv.Itoa(n)", "int", "n"},
	"s":  {"s", "s", "string", "s"},
	"b":  {"b", "strconv.FormatBool(b)", "bool", "b"},
	"f":  {"f", "strconv.FormatFloat(f, 'g', -1, 64)", "float", "f"},
	"e":  {"e", "e.Error()", "error", "e"},
	"g":  {"g()", "strconv.Itoa(g())", "int", ""},
	"h":  {"h()", "h()", "string", ""},
	"n1": {"n+1", "strconv.Itoa(n+1)", "int", "n"},
}

var interpDecls = map[string]string{"n": "n := 42", "s": `s := "hi"`, "b": "b := true", "f": "f := 1.5", "e": "e := boom"}

// source spelling of a text-like segment (independent of the spec's Spell table on purpose: the Go
// expansion is a second oracle)
var interpTextSrc = map[string]string{"a": "a", "lb": "{", "rb": "}", "escn": `\n`, "escq": `\"`, "escb": `\\`,
	"rawb": `\`, "rawq": `"`, "rawn": "\n", "dd": "$", "tail": "$"}

func segKind(s string) string {
	switch s {
	case "a", "lb", "rb", "rawb", "rawq", "rawn":
		return "text"
	case "escn", "escq", "escb":
		return "escape"
	case "dd", "tail":
		return s
	}
	return "expr-" + interpExprs[s].typ
}

func (c *interpCase) quoteCh() string {
	if c.Quote == "raw" {
		return "`"
	}
	return `"`
}

func (c *interpCase) literal() string { return c.quoteCh() + toks(c.Src) + c.quoteCh() }

func (c *interpCase) hasBool() bool {
	for _, s := range c.Segs {
		if s == "b" {
			return true
		}
	}
	return false
}

func (c *interpCase) render(idx int) unit {
	used := map[string]bool{}
	for _, s := range c.Segs {
		if e, ok := interpExprs[s]; ok && e.decl != "" {
			used[e.decl] = true
		}
	}
	var names []string
	for n := range used {
		names = append(names, n)
	}
	sort.Strings(names)
	var decls strings.Builder
	for _, n := range names {
		decls.WriteString("\t" + interpDecls[n] + "\n")
	}
	head := fmt.Sprintf("func %s() {\n\tbegin()\n%s", caseFn(idx), decls.String())
	x := head + "\tshow(" + c.literal() + ")\n}\n"
	// explicit concatenation
	var pieces []string
	text := ""
	flush := func() {
		if text != "" {
			pieces = append(pieces, c.quoteCh()+text+c.quoteCh())
			text = ""
		}
	}
	for _, s := range c.Segs {
		if e, ok := interpExprs[s]; ok {
			flush()
			pieces = append(pieces, e.goStr)
		} else {
			text += interpTextSrc[s]
		}
	}
	flush()
	if len(pieces) == 0 {
		pieces = []string{`""`}
	}
	g := head + "\tshow(" + strings.Join(pieces, " + ") + ")\n}\n"
	return unit{Idx: idx, XGo: x, Go: g}
}

type interpObs struct {
	val string
	log string
	ok  bool
}

func parseInterpOut(s string) (o interpObs) {
	lines := strings.Split(s, "\n")
	if len(lines) != 2 || !strings.HasPrefix(lines[1], "l") {
		return
	}
	v, err := strconv.Unquote(lines[0])
	if err != nil {
		return
	}
	o.val, o.log, o.ok = v, strings.TrimSpace(lines[1][1:]), true
	return
}

// segValue is the harness-side table of segment values, used only to locate the first divergence.
func (c *interpCase) divergence(got string) string {
	exp := toks(c.Val)
	i := 0
	for i < len(exp) && i < len(got) && exp[i] == got[i] {
		i++
	}
	// which segment owns byte i of the expected value?  walk the segments using the model's value:
	// the value of segment j is recovered from the known tables
	vals := map[string]string{"a": "a", "lb": "{", "rb": "}", "escn": "\n", "rawn": "\n", "escq": "\"", "rawq": "\"",
		"escb": "\\", "rawb": "\\", "dd": "$", "tail": "$", "n": "42", "s": "hi", "b": "true", "f": "1.5", "e": "boom",
		"g": "7", "h": "yo", "n1": "43"}
	off := 0
	for _, s := range c.Segs {
		off += len(vals[s])
		if i < off {
			return segKind(s)
		}
	}
	return "end"
}

// checkParts: the parser's split of the literal must tile the literal's text (statement-level
// sanity of the mechanism; reported as drift because the property is about the value).
func (c *interpCase) checkParts() string {
	lit := c.literal()
	fset := token.NewFileSet()
	x, err := parser.ParseExprFrom(fset, "lit.xgo", []byte(lit), 0)
	if err != nil {
		return "parse-error"
	}
	bl, ok := x.(*ast.BasicLit)
	if !ok {
		return "not-a-literal"
	}
	inner := lit[1 : len(lit)-1]
	if bl.Extra == nil {
		for _, s := range c.Segs {
			if k := segKind(s); k != "text" && k != "escape" && k != "tail" {
				return "no-parts"
			}
		}
		return ""
	}
	var b strings.Builder
	nexpr := 0
	for _, p := range bl.Extra.Parts {
		switch v := p.(type) {
		case string:
			b.WriteString(v)
		case ast.Expr:
			nexpr++
			from, to := fset.Position(v.Pos()).Offset, fset.Position(v.End()).Offset
			if from < 0 || to > len(lit) || from > to {
				return "expr-position"
			}
			b.WriteString("${" + lit[from:to] + "}")
		}
	}
	want := 0
	for _, s := range c.Segs {
		if strings.HasPrefix(segKind(s), "expr-") {
			want++
		}
	}
	if b.String() != inner || nexpr != want {
		return "not-a-partition"
	}
	return ""
}

func runInterp() {
	cases := hlib.ReadAllCases[interpCase]()
	units := make([]unit, len(cases))
	for i := range cases {
		units[i] = cases[i].render(i)
	}
	b := newBatcher(batchConfig{Name: "interp", Prelude: interpPrelude, PerProgram: 400, Workers: 8})
	defer b.close()
	xres, gres := b.run(units)
	compared, agree, boolErr := 0, 0, 0
	for i := range cases {
		c := &cases[i]
		expVal, expLog := toks(c.Val), strings.Join(c.Log, ",")
		var kinds []string
		for _, s := range c.Segs {
			kinds = append(kinds, segKind(s))
		}
		input := map[string]any{"literal": c.literal(), "segs": strings.Join(c.Segs, " ")}
		g := gres[i]
		gobs := parseInterpOut(g.Out)
		if !goOracleOff() && (g.Kind != "ran" || !gobs.ok || gobs.val != expVal || gobs.log != expLog) {
			oracleDisagreement(i, c.literal(), fmt.Sprintf("%q log=%s", expVal, expLog), g.Kind+" "+g.Out+" "+g.Detail)
		}
		agree++
		res := hlib.Result{Idx: i, V: "ok", Input: input, NT: c.Quote + ":" + strings.Join(kinds, ",")}
		x := xres[i]
		compared++
		firstDollar := "none"
		for _, k := range kinds {
			if k != "text" && k != "escape" {
				firstDollar = k
				break
			}
		}
		switch x.Kind {
		case "ran":
			o := parseInterpOut(x.Out)
			switch {
			case !o.ok:
				if strings.Contains(x.Out, "!panic") {
					res.V, res.Sig, res.Detail = "viol", "interp:panic", fmt.Sprintf("%s: %s", c.literal(), x.Out)
				} else {
					fatal("interp: unparsable output of case %d (%s): %q", i, c.literal(), x.Out)
				}
			case o.val != expVal:
				res.V, res.Sig = "viol", "interp:value:first-divergence="+c.divergence(o.val)
				res.Detail = fmt.Sprintf("%s (segments %s): value %q, explicit concatenation gives %q", c.literal(), strings.Join(c.Segs, " "), o.val, expVal)
			case o.log != expLog:
				sym := "count"
				a, bb := strings.Split(o.log, ","), strings.Split(expLog, ",")
				sort.Strings(a)
				sort.Strings(bb)
				if strings.Join(a, ",") == strings.Join(bb, ",") {
					sym = "order"
				}
				res.V, res.Sig = "viol", "interp:evaluation:"+sym
				res.Detail = fmt.Sprintf("%s: embedded calls ran as [%s], left-to-right-once is [%s]", c.literal(), o.log, expLog)
			default:
				res.Detail = fmt.Sprintf("%q log=[%s]", o.val, o.log)
				if d := c.checkParts(); d != "" {
					res.V, res.Sig, res.Detail = "drift", "parts:"+d, c.literal()+": parser parts do not tile the literal: "+d
				}
			}
		case "compile-error", "compile-panic":
			if c.hasBool() && x.Kind == "compile-error" {
				// the statement defines no string form for bool: a compile error is allowed
				boolErr++
				res.V, res.Sig, res.Detail = "drift", "bool-part:compile-error", c.literal()+": "+clip(x.Detail, 200)
			} else {
				res.V, res.Sig, res.Detail = "viol", "interp:"+x.Kind+":first="+firstDollar, c.literal()+": "+x.Detail
			}
		case "timeout":
			fatal("interp: case %d (%s) timed out", i, c.literal())
		case "go-build-error", "crash":
			res.V, res.Sig, res.Detail = "viol", "interp:"+x.Kind, c.literal()+": "+x.Detail
		default:
			fatal("interp: case %d (%s) has no result: %s %s", i, c.literal(), x.Kind, x.Detail)
		}
		hlib.Emit(res)
	}
	hlib.EmitRaw(map[string]any{"v": "summary", "programs": b.stats.XGoPrograms, "go_expansion_programs": b.stats.GoPrograms,
		"compiled_alone": b.stats.CompiledAlone, "bisections": b.stats.Bisections, "bool_compile_errors": boolErr,
		"compared_with_model": compared, "model_vs_go_expansion_agree": agree})
}
