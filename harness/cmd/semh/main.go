// semh: conformance harness for the language-semantics properties built on the program pipeline
// (C04 range expressions, C05 string interpolation, C03 error wrapping, C02 collection sugar).
package main

import (
	"fmt"
	"os"

	"verifharness/hlib"
)

func main() {
	// the in-process importer and the runner shell out to the go tool: no network, module mode
	for k, v := range map[string]string{"GOFLAGS": "-mod=mod", "GOPROXY": "off", "GOSUMDB": "off", "GOTOOLCHAIN": "local"} {
		if os.Getenv(k) == "" {
			os.Setenv(k, v)
		}
	}
	if len(os.Args) < 2 {
		fmt.Fprintln(os.Stderr, "usage: semh range|interp|errwrap|compr < cases.ndjson   |   semh try file.xgo")
		os.Exit(3)
	}
	switch os.Args[1] {
	case "range":
		runRange()
	case "interp":
		runInterp()
	case "errwrap":
		runErrWrap()
	case "compr":
		runCompr()
	case "try":
		runTry(os.Args[2:])
	default:
		fmt.Fprintln(os.Stderr, "unknown mode", os.Args[1])
		os.Exit(3)
	}
	hlib.Flush()
}
