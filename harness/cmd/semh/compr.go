package main

// C02 -- collection sugar evaluates like its documented Go expansion.
// Cases come from specs/sem/Compr.tla.

import (
	"encoding/json"
	"fmt"
	"sort"
	"strconv"
	"strings"

	"verifharness/hlib"
)

type comprCase struct {
	Kind  string            `json:"kind"`
	Ty    string            `json:"ty"`
	A     []int             `json:"A"`
	B     []int             `json:"B"`
	NPh   int               `json:"nph"`
	FA    string            `json:"fa"`
	FB    string            `json:"fb"`
	Elt   string            `json:"elt"`
	WK    bool              `json:"wk"`
	Src   string            `json:"src"`
	EF    string            `json:"ef"`
	Acc   []json.RawMessage `json:"acc"`
	Pairs [][]int           `json:"pairs"`
	Found bool              `json:"found"`
	Log   []string          `json:"log"`
}

const comprPrelude = `package main

import (
	"fmt"
	"strconv"
	"strings"
)

var _log []string

type P struct{ X int }
type T struct{}
type Si struct{ a []int }
type Ss struct{ a []string }
type Sp struct{ a []P }
type Sl struct{ a [][]int }

func begin() { _log = nil }
func logf(tag string, n int) { _log = append(_log, tag+strconv.Itoa(n)) }
func key(x any) int {
	switch v := x.(type) {
	case int:
		return v
	case string:
		n, _ := strconv.Atoi(v[1:])
		return n
	case P:
		return v.X
	case []int:
		return v[0]
	}
	panic("key")
}
func keep(x any) bool {
	n := key(x)
	logf("k", n)
	return n > 1
}
func el(x int) int {
	logf("e", x)
	return x * x
}
func el2(a, b int) int {
	logf("e", a*10+b)
	return a*10 + b
}
func body(x any)          { logf("b", key(x)) }
func body2(i int, x any)  { logf("b", i*10+key(x)) }
func vi(n int) int {
	logf("v", n)
	return n
}
func vs(n int) string {
	logf("v", n)
	return "s" + strconv.Itoa(n)
}
func vp(n int) P {
	logf("v", n)
	return P{n}
}
func vl(n int) []int {
	logf("v", n)
	return []int{n}
}
func note(a ...int) []int {
	_log = append(_log, "call")
	return a
}
func (t T) note(a ...int) []int { return note(a...) }
func show(v any)           { fmt.Printf("val %T|%v\n", v, v) }
func show2(v any, ok bool) { fmt.Printf("val %T|%v|%v\n", v, v, ok) }
func finish()              { fmt.Println("log " + strings.Join(_log, ",")) }
`

var tyGo = map[string]string{"int": "int", "string": "string", "struct": "P", "slice": "[]int"}
var tyPrint = map[string]string{"int": "int", "string": "string", "struct": "main.P", "slice": "[]int"}
var tyCall = map[string]string{"int": "vi", "string": "vs", "struct": "vp", "slice": "vl"}
var tyField = map[string]string{"int": "Si", "string": "Ss", "struct": "Sp", "slice": "Sl"}

// literal of abstract element n of type ty; sugar=true uses the XGo slice literal for the slice type
func elemLit(ty string, n int, sugar bool) string {
	s := strconv.Itoa(n)
	switch ty {
	case "string":
		return `"s` + s + `"`
	case "struct":
		return "P{" + s + "}"
	case "slice":
		if sugar {
			return "[" + s + "]"
		}
		return "[]int{" + s + "}"
	}
	return s
}

func elemPrint(ty string, n int) string {
	s := strconv.Itoa(n)
	switch ty {
	case "string":
		return "s" + s
	case "struct":
		return "{" + s + "}"
	case "slice":
		return "[" + s + "]"
	}
	return s
}

func goList(ty string, xs []int) string {
	var e []string
	for _, n := range xs {
		e = append(e, elemLit(ty, n, false))
	}
	return "[]" + tyGo[ty] + "{" + strings.Join(e, ", ") + "}"
}

func (c *comprCase) operand(n int, sugar bool) string {
	if c.EF == "call" {
		return tyCall[c.Ty] + "(" + strconv.Itoa(n) + ")"
	}
	return elemLit(c.Ty, n, sugar)
}

// filter text on variable v (o = outer variable); returns XGo `if` clause and Go condition (+ init)
func (c *comprCase) filter(f, v, o string) (xgo, gocond string) {
	switch f {
	case "gt1":
		if c.Ty == "int" {
			return " if " + v + " > 1", v + " > 1"
		}
		return " if key(" + v + ") > 1", "key(" + v + ") > 1"
	case "keep":
		return " if keep(" + v + ")", "keep(" + v + ")"
	case "ltb":
		return " if " + v + " < " + o, v + " < " + o
	case "init":
		return " if y := key(" + v + ") * 2; y > 2", "y := key(" + v + ") * 2; y > 2"
	}
	return "", ""
}

func wrapIf(cond, body, ind string) string {
	if cond == "" {
		return body
	}
	return ind + "if " + cond + " {\n" + indent(body, "\t") + ind + "}\n"
}

func indent(s, by string) string {
	lines := strings.Split(strings.TrimRight(s, "\n"), "\n")
	for i := range lines {
		lines[i] = by + lines[i]
	}
	return strings.Join(lines, "\n") + "\n"
}

// element expression of a comprehension (XGo, Go) and its Go type
func (c *comprCase) element() (x, g, typ string) {
	switch c.Elt {
	case "x":
		return "x", "x", tyGo[c.Ty]
	case "el":
		return "el(x)", "el(x)", "int"
	case "ix":
		return "i*10 + x", "i*10 + x", "int"
	case "pair":
		return "[a, b]", "[]int{a, b}", "[]int"
	case "el2":
		return "el2(a, b)", "el2(a, b)", "int"
	}
	return "", "", ""
}

func (c *comprCase) mapKV() (k, v string) {
	switch c.Elt {
	case "xi":
		return "x", "i"
	case "xel":
		return "x", "el(x)"
	case "el2a":
		return "el2(a, b)", "a"
	}
	return "", ""
}

func (c *comprCase) needKey() bool { return c.WK || c.Elt == "ix" || c.Elt == "xi" }

func (c *comprCase) render(idx int) unit {
	var x, g strings.Builder
	head := fmt.Sprintf("func %s() {\n\tbegin()\n", caseFn(idx))
	x.WriteString(head)
	g.WriteString(head)
	both := func(s string) { x.WriteString(s); g.WriteString(s) }
	T := tyGo[c.Ty]
	switch c.Kind {
	case "listlit":
		var xe, ge []string
		for _, n := range c.A {
			xe = append(xe, c.operand(n, true))
			ge = append(ge, c.operand(n, false))
		}
		x.WriteString("\tshow([" + strings.Join(xe, ", ") + "])\n")
		if len(c.A) == 0 {
			g.WriteString("\tshow([]any{})\n")
		} else {
			g.WriteString("\tshow([]" + T + "{" + strings.Join(ge, ", ") + "})\n")
		}
	case "maplit":
		var xe, ge []string
		for i, n := range c.A {
			k := fmt.Sprintf(`"k%d": `, i+1)
			xe = append(xe, k+c.operand(n, true))
			ge = append(ge, k+c.operand(n, false))
		}
		x.WriteString("\tshow({" + strings.Join(xe, ", ") + "})\n")
		if len(c.A) == 0 {
			g.WriteString("\tshow(map[string]any{})\n")
		} else {
			g.WriteString("\tshow(map[string]" + T + "{" + strings.Join(ge, ", ") + "})\n")
		}
	case "append":
		target := "a"
		if c.Src == "field" {
			both("\ts := " + tyField[c.Ty] + "{a: " + goList(c.Ty, c.B) + "}\n")
			target = "s.a"
		} else {
			both("\ta := " + goList(c.Ty, c.B) + "\n")
		}
		if c.EF == "ell" {
			both("\tb := " + goList(c.Ty, c.A) + "\n")
			x.WriteString("\t" + target + " <- b...\n")
			g.WriteString("\t" + target + " = append(" + target + ", b...)\n")
		} else {
			var xe, ge []string
			for _, n := range c.A {
				xe = append(xe, c.operand(n, true))
				ge = append(ge, c.operand(n, false))
			}
			x.WriteString("\t" + target + " <- " + strings.Join(xe, ", ") + "\n")
			g.WriteString("\t" + target + " = append(" + target + ", " + strings.Join(ge, ", ") + ")\n")
		}
		both("\tshow(" + target + ")\n")
	case "cmd":
		// command style: the call is written without parentheses
		var args []string
		for _, n := range c.A {
			args = append(args, "vi("+strconv.Itoa(n)+")")
		}
		fn := "noteCmd"
		if c.Src == "method" {
			both("\tt := T{}\n")
			fn = "t.noteCmd"
		}
		x.WriteString("\t" + fn + " " + strings.Join(args, ", ") + "\n")
		g.WriteString("\t" + fn + "(" + strings.Join(args, ", ") + ")\n")
		both("\tshow(_noted)\n")
	default:
		c.renderLoop(&x, &g)
	}
	both("\tfinish()\n}\n")
	return unit{Idx: idx, XGo: x.String(), Go: g.String()}
}

// overloaded functions of the "ovl" context (XGo) and the candidate that is finally chosen (Go expansion)
const comprPreludeOvlXGo = `
func pickInts1_(v []int, f func() int) []int          { return nil }
func pickInts2_(v []int, f func(p int) int) []int     { return v }
func pickPairs1_(v [][]int, f func() int) [][]int      { return nil }
func pickPairs2_(v [][]int, f func(p int) int) [][]int { return v }

func pickInts = (
	pickInts1_
	pickInts2_
)

func pickPairs = (
	pickPairs1_
	pickPairs2_
)
`

const comprPreludeOvlGo = `
func pickInts(v []int, f func(p int) int) []int       { return v }
func pickPairs(v [][]int, f func(p int) int) [][]int   { return v }
`

const comprPreludeCmd = `
var _noted []int

func noteCmd(a ...int)       { _noted = note(a...) }
func (t T) noteCmd(a ...int) { _noted = note(a...) }
`

func (c *comprCase) renderLoop(x, g *strings.Builder) {
	both := func(s string) { x.WriteString(s); g.WriteString(s) }
	// sources
	srcA, srcB := "xs", "bs"
	va := "x"
	if c.NPh == 2 {
		srcA, va = "as", "a"
	}
	if c.Src == "map" {
		var e []string
		for _, n := range c.A {
			e = append(e, fmt.Sprintf(`"k%d": %d`, n, n))
		}
		both("\t" + srcA + " := map[string]int{" + strings.Join(e, ", ") + "}\n")
	} else {
		both("\t" + srcA + " := " + goList(c.Ty, c.A) + "\n")
	}
	if c.NPh == 2 {
		both("\t" + srcB + " := " + goList("int", c.B) + "\n")
	}
	fax, fag := c.filter(c.FA, va, "b")
	fbx, fbg := c.filter(c.FB, "b", "")
	// for-phrases as written (first phrase first), and the Go loop headers (last phrase outermost)
	vars := va
	goVarsA := "_, " + va
	if c.needKey() {
		vars = "i, " + va
		goVarsA = "i, " + va
	}
	phrases := "for " + vars + " <- " + srcA + fax
	if c.NPh == 2 {
		phrases += " for b <- " + srcB + fbx
	}
	// Go expansion: nest(core) wraps the innermost statement into the loops
	nest := func(core string) string {
		inner := "for " + goVarsA + " := range " + srcA + " {\n" + indent(wrapIf(fag, core, ""), "\t") + "}\n"
		if c.NPh == 2 {
			return "for _, b := range " + srcB + " {\n" + indent(wrapIf(fbg, inner, ""), "\t") + "}\n"
		}
		return inner
	}
	ex, eg, et := c.element()
	switch c.Kind {
	case "forin":
		bodyCall := "body(" + va + ")"
		if c.WK {
			bodyCall = "body2(i, " + va + ")"
		}
		x.WriteString("\t" + phrases + " {\n\t\t" + bodyCall + "\n\t}\n")
		g.WriteString(indent(nest(bodyCall+"\n"), "\t"))
		both("\tfmt.Println(\"val -\")\n")
	case "listc":
		goCompr := "func() (ret []" + et + ") {\n" + indent(nest("ret = append(ret, "+eg+")\n"), "\t\t") + "\t\treturn\n\t}()"
		if c.Src == "ovl" {
			// argument of an overloaded function: the lambda rejects the first candidate, the second one matches
			pick := "pickInts"
			if c.Elt == "pair" {
				pick = "pickPairs"
			}
			x.WriteString("\tshow(" + pick + "([" + ex + " " + phrases + "], p => p))\n")
			g.WriteString("\tshow(" + pick + "(" + goCompr + ", func(p int) int { return p }))\n")
			break
		}
		x.WriteString("\tshow([" + ex + " " + phrases + "])\n")
		g.WriteString("\tshow(" + goCompr + ")\n")
	case "mapc":
		k, v := c.mapKV()
		x.WriteString("\tshow({" + k + ": " + v + " " + phrases + "})\n")
		g.WriteString("\tshow(func() map[int]int {\n\t\tret := map[int]int{}\n" + indent(nest("ret["+k+"] = "+v+"\n"), "\t\t") + "\t\treturn ret\n\t}())\n")
	case "selc":
		x.WriteString("\tv := {" + ex + " " + phrases + "}\n\tshow(v)\n")
		g.WriteString("\tv := func() (ret " + et + ") {\n" + indent(nest("return "+eg+"\n"), "\t\t") + "\t\treturn\n\t}()\n\tshow(v)\n")
	case "selc2":
		x.WriteString("\tv, ok := {" + ex + " " + phrases + "}\n\tshow2(v, ok)\n")
		g.WriteString("\tv, ok := func() (ret " + et + ", ok bool) {\n" + indent(nest("return "+eg+", true\n"), "\t\t") + "\t\treturn\n\t}()\n\tshow2(v, ok)\n")
	case "existc":
		x.WriteString("\tshow({" + phrases + "})\n")
		g.WriteString("\tshow(func() bool {\n" + indent(nest("return true\n"), "\t\t") + "\t\treturn false\n\t}())\n")
	default:
		fatal("compr: unknown kind %q", c.Kind)
	}
}

// ---- expectation ------------------------------------------------------------------

func (c *comprCase) accInts() []int {
	var r []int
	for _, m := range c.Acc {
		var n int
		if json.Unmarshal(m, &n) != nil {
			fatal("compr: acc element %s is not an int", m)
		}
		r = append(r, n)
	}
	return r
}

func printList(ty string, xs []int) string {
	var e []string
	for _, n := range xs {
		e = append(e, elemPrint(ty, n))
	}
	return "[" + strings.Join(e, " ") + "]"
}

func (c *comprCase) expected() (val, log string) {
	log = "log " + strings.Join(c.Log, ",")
	_, _, et := c.element()
	etPrint := et
	if c.Elt == "x" {
		etPrint = tyPrint[c.Ty]
	}
	eltTy := "int"
	if c.Elt == "x" {
		eltTy = c.Ty
	}
	switch c.Kind {
	case "listlit":
		if len(c.A) == 0 {
			return "val []interface {}|[]", log
		}
		return "val []" + tyPrint[c.Ty] + "|" + printList(c.Ty, c.accInts()), log
	case "maplit":
		if len(c.A) == 0 {
			return "val map[string]interface {}|map[]", log
		}
		var e []string
		for _, p := range c.Pairs {
			e = append(e, fmt.Sprintf("k%d:%s", p[0], elemPrint(c.Ty, p[1])))
		}
		return "val map[string]" + tyPrint[c.Ty] + "|map[" + strings.Join(e, " ") + "]", log
	case "append":
		return "val []" + tyPrint[c.Ty] + "|" + printList(c.Ty, c.accInts()), log
	case "cmd":
		return "val []int|" + printList("int", c.accInts()), log
	case "forin":
		return "val -", log
	case "listc":
		if c.Elt == "pair" {
			var e []string
			for _, m := range c.Acc {
				var p []int
				json.Unmarshal(m, &p)
				e = append(e, printList("int", p))
			}
			return "val [][]int|[" + strings.Join(e, " ") + "]", log
		}
		return "val []" + etPrint + "|" + printList(eltTy, c.accInts()), log
	case "mapc":
		m := map[int]int{}
		for _, p := range c.Pairs {
			m[p[0]] = p[1]
		}
		var ks []int
		for k := range m {
			ks = append(ks, k)
		}
		sort.Ints(ks)
		var e []string
		for _, k := range ks {
			e = append(e, fmt.Sprintf("%d:%d", k, m[k]))
		}
		return "val map[int]int|map[" + strings.Join(e, " ") + "]", log
	case "selc", "selc2":
		v := ""
		if c.Found {
			v = elemPrint(eltTy, c.accInts()[0])
		} else {
			v = map[string]string{"int": "0", "string": "", "struct": "{0}", "slice": "[]"}[eltTy]
		}
		s := "val " + etPrint + "|" + v
		if c.Kind == "selc2" {
			s += "|" + strconv.FormatBool(c.Found)
		}
		return s, log
	case "existc":
		return "val bool|" + strconv.FormatBool(c.Found), log
	}
	fatal("compr: unknown kind %q", c.Kind)
	return
}

func (c *comprCase) text() string {
	u := c.render(0)
	lines := strings.Split(u.XGo, "\n")
	var keep []string
	for _, l := range lines[2:] {
		l = strings.TrimSpace(l)
		if l == "" || l == "}" || l == "finish()" {
			continue
		}
		keep = append(keep, l)
	}
	return strings.Join(keep, "; ")
}

func sameMultiset(a, b []string) bool {
	a, b = append([]string{}, a...), append([]string{}, b...)
	sort.Strings(a)
	sort.Strings(b)
	return strings.Join(a, ",") == strings.Join(b, ",")
}

func (c *comprCase) sigKind() string {
	k := c.Kind
	if c.NPh == 2 {
		k += ":2-phrases"
	}
	return "sugar:" + k
}

func runCompr() {
	cases := hlib.ReadAllCases[comprCase]()
	units := make([]unit, len(cases))
	for i := range cases {
		units[i] = cases[i].render(i)
	}
	per := 300
	if len(cases) > 6000 {
		per = 700
	}
	b := newBatcher(batchConfig{Name: "compr", Prelude: comprPrelude + comprPreludeCmd + comprPreludeOvlXGo, GoPrelude: comprPrelude + comprPreludeCmd + comprPreludeOvlGo, PerProgram: per, Workers: 8})
	defer b.close()
	xres, gres := b.run(units)
	compared, agree := 0, 0
	for i := range cases {
		c := &cases[i]
		ev, el := c.expected()
		g := gres[i]
		if !goOracleOff() && (g.Kind != "ran" || g.Out != ev+"\n"+el) {
			oracleDisagreement(i, c.text(), ev+" / "+el, g.Kind+" "+g.Out+" "+g.Detail)
		}
		agree++
		res := hlib.Result{Idx: i, V: "ok", Input: c.text()}
		res.NT = fmt.Sprintf("%s/%d/%s/%s/%s/%s/%s/%v/%s/A%d/B%d", c.Kind, c.NPh, c.Ty, c.FA, c.FB, c.Elt, c.Src, c.WK, c.EF, len(c.A), len(c.B))
		x := xres[i]
		compared++
		viol := func(what, detail string) { res.V, res.Sig, res.Detail = "viol", c.sigKind()+":"+what, detail }
		switch x.Kind {
		case "ran":
			lines := strings.Split(x.Out, "\n")
			switch {
			case strings.Contains(x.Out, "!panic"):
				viol("panic", c.text()+": "+x.Out)
			case len(lines) != 2 || !strings.HasPrefix(lines[0], "val ") || !strings.HasPrefix(lines[1], "log "):
				fatal("compr: unparsable output of case %d (%s): %q", i, c.text(), x.Out)
			case lines[0] != ev:
				what := "value"
				gt, et := strings.SplitN(lines[0], "|", 2), strings.SplitN(ev, "|", 2)
				if gt[0] != et[0] {
					what = "type"
				} else if len(gt) == 2 && len(et) == 2 && sameMultiset(strings.Fields(strings.Trim(gt[1], "[]")), strings.Fields(strings.Trim(et[1], "[]"))) {
					what = "value-order"
				}
				viol(what, fmt.Sprintf("%s: observed %q, the documented expansion gives %q", c.text(), lines[0], ev))
			case lines[1] != el:
				what := "effects-count"
				if sameMultiset(strings.Split(lines[1][4:], ","), strings.Split(el[4:], ",")) {
					what = "effects-order"
				}
				viol(what, fmt.Sprintf("%s: side effects %q, the documented expansion gives %q", c.text(), lines[1], el))
			default:
				res.Detail = lines[0] + " | " + lines[1]
			}
		case "timeout":
			fatal("compr: case %d (%s) timed out", i, c.text())
		case "compile-error", "compile-panic", "go-build-error", "crash":
			viol(x.Kind, c.text()+": "+clip(x.Detail, 400))
		default:
			fatal("compr: case %d (%s) has no result: %s %s", i, c.text(), x.Kind, x.Detail)
		}
		hlib.Emit(res)
	}
	hlib.EmitRaw(map[string]any{"v": "summary", "programs": b.stats.XGoPrograms, "go_expansion_programs": b.stats.GoPrograms,
		"compiled_alone": b.stats.CompiledAlone, "bisections": b.stats.Bisections,
		"compared_with_model": compared, "model_vs_go_expansion_agree": agree})
}
