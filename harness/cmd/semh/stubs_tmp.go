package main

func runErrWrap() {}
func runCompr()   {}
