package main

func runParseDir() {}
