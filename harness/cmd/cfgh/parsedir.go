package main

// C34 -- replay of specs/cfg/ParseDir.tla cases into parser.ParseFSDir / parser.ParseFSEntry over an
// in-memory fsx.FileSystem that can hold sub-directories.
//
// Alarm (what the statement pins): which entries are included, IsClass / IsNormalGox for every
// included file, IsProj where the class-kind function said ok, the package name a file is grouped
// under, Files vs GoFiles (documented meaning of ParseGoAsGoPlus), the filter (doc comment of
// ParseFSDir), ParseFSEntry's flags and its unknown-kind decision.
// Drift (incidental): IsProj when the class-kind function answered (true, false), the error value,
// behaviour on sub-directories beyond "not included".

import (
	"fmt"
	"io/fs"
	"path"
	"sort"
	"strings"
	"syscall"
	"time"

	"github.com/goplus/xgo/parser"
	"github.com/goplus/xgo/token"

	"verifharness/hlib"
)

type pdEntry struct {
	Pre  string `json:"pre"`
	Ext  string `json:"ext"`
	Kind string `json:"kind"`
}

func (e pdEntry) name() string { return e.Pre + e.Ext }

type pdOut struct {
	Idx    int    `json:"idx"`
	Pkg    string `json:"pkg"`
	Gofile bool   `json:"gofile"`
	Proj   bool   `json:"proj"`
	Class  bool   `json:"class"`
	Ngox   bool   `json:"ngox"`
}

type pdEnt struct {
	Ok    bool `json:"ok"`
	Proj  bool `json:"proj"`
	Class bool `json:"class"`
	Ngox  bool `json:"ngox"`
	Dir   bool `json:"dir"`
}

type pdCase struct {
	Dir   []pdEntry `json:"dir"`
	Ck    string    `json:"ck"`
	Mode  string    `json:"mode"`
	Filt  int       `json:"filt"`
	Out   []pdOut   `json:"out"`
	Ckok  []bool    `json:"ckok"`
	Entry []pdEnt   `json:"entry"`
}

// ---------------------------------------------------------------- in-memory file system

type vInfo struct {
	name  string
	isDir bool
	size  int
}

func (p *vInfo) Name() string { return p.name }
func (p *vInfo) Size() int64  { return int64(p.size) }
func (p *vInfo) Mode() fs.FileMode {
	if p.isDir {
		return fs.ModeDir | 0755
	}
	return 0644
}
func (p *vInfo) Type() fs.FileMode          { return p.Mode().Type() }
func (p *vInfo) ModTime() time.Time         { return time.Unix(1700000000, 0) }
func (p *vInfo) IsDir() bool                { return p.isDir }
func (p *vInfo) Sys() any                   { return nil }
func (p *vInfo) Info() (fs.FileInfo, error) { return p, nil }

type vFS struct {
	root    string
	listing []fs.DirEntry
	files   map[string]string // full path -> content
	dirs    map[string]bool   // full path of sub-directories
	reads   []string
}

func (v *vFS) ReadDir(dirname string) ([]fs.DirEntry, error) {
	if path.Clean(dirname) != v.root {
		return nil, &fs.PathError{Op: "readdir", Path: dirname, Err: fs.ErrNotExist}
	}
	return v.listing, nil
}

func (v *vFS) ReadFile(filename string) ([]byte, error) {
	filename = path.Clean(filename)
	v.reads = append(v.reads, filename)
	if s, ok := v.files[filename]; ok {
		return []byte(s), nil
	}
	if v.dirs[filename] {
		return nil, &fs.PathError{Op: "read", Path: filename, Err: syscall.EISDIR}
	}
	return nil, &fs.PathError{Op: "open", Path: filename, Err: fs.ErrNotExist}
}

func (v *vFS) Join(elem ...string) string   { return path.Join(elem...) }
func (v *vFS) Base(filename string) string  { return path.Base(filename) }
func (v *vFS) Abs(p string) (string, error) { return p, nil }

func pdContent(kind string) string {
	switch kind {
	case "main":
		return "package main\n\nfunc f() {}\n"
	case "foo":
		return "package foo\n\nfunc f() {}\n"
	}
	return "func f() {}\n" // no package clause
}

func pdClassKind(ck string) func(string) (bool, bool) {
	switch ck {
	case "default":
		return nil
	case "none":
		return func(string) (bool, bool) { return false, false }
	case "gox":
		return func(f string) (bool, bool) { return false, path.Ext(f) == ".gox" }
	case "yap":
		return func(f string) (bool, bool) {
			if strings.HasSuffix(f, "_yap.gox") {
				return f == "main_yap.gox", true
			}
			return false, false
		}
	case "txtproj":
		return func(f string) (bool, bool) { ok := path.Ext(f) == ".txt"; return ok, ok }
	case "txtwork":
		return func(f string) (bool, bool) { return false, path.Ext(f) == ".txt" }
	case "projnotok":
		return func(string) (bool, bool) { return true, false }
	}
	panic("unknown class kind " + ck)
}

type pdObs struct {
	pkg               string
	gofile            bool
	proj, class, ngox bool
	namePkg           string // File.Name.Name
}

type pdVerdict struct{ v, sig, detail string }

func (a *pdVerdict) viol(sig, d string) {
	if a.v != "viol" {
		a.v, a.sig, a.detail = "viol", sig, d
	}
}
func (a *pdVerdict) drift(sig, d string) {
	if a.v == "ok" {
		a.v, a.sig, a.detail = "drift", sig, d
	}
}

// why the model excludes entry j (structural reason used in signatures)
func pdWhyExcluded(c *pdCase, j int) string {
	e := c.Dir[j]
	switch {
	case e.Kind == "dir":
		return "directory"
	case e.Pre == "_a":
		return "underscore"
	case path.Ext(e.name()) == ".go" && strings.HasPrefix(e.Pre, "gop_autogen"):
		return "autogen-go"
	case !c.Entry[j].Ok:
		return "unknown-ext:" + path.Ext(e.name())
	case c.Filt == j+1:
		return "filtered"
	}
	return "?"
}

func pdKindOf(c *pdCase, j int) string {
	e := c.Dir[j]
	s := path.Ext(e.name())
	if e.Ext == "_yap.gox" {
		s = "_yap.gox"
	}
	if c.Ckok[j] {
		s += ":ck-ok"
	}
	return s
}

func runParseDir() {
	const root = "/d"
	hlib.ForEachCase(func(idx int, c *pdCase) {
		out := &pdVerdict{v: "ok"}
		var names []string
		for _, e := range c.Dir {
			names = append(names, e.name()+"("+e.Kind+")")
		}
		in := map[string]any{"dir": names, "ck": c.Ck, "mode": c.Mode, "filt": c.Filt}
		want := map[int]pdOut{}
		for _, o := range c.Out {
			want[o.Idx-1] = o
		}
		var mode parser.Mode
		if c.Mode == "goasxgo" {
			mode = parser.ParseGoAsGoPlus
		}
		rejected := ""
		if c.Filt > 0 {
			rejected = c.Dir[c.Filt-1].name()
		}
		conf := parser.Config{ClassKind: pdClassKind(c.Ck), Mode: mode}
		if c.Filt > 0 {
			conf.Filter = func(fi fs.FileInfo) bool { return fi.Name() != rejected }
		}
		mkfs := func(reverse bool) *vFS {
			v := &vFS{root: root, files: map[string]string{}, dirs: map[string]bool{}}
			for _, e := range c.Dir {
				full := path.Join(root, e.name())
				if e.Kind == "dir" {
					v.dirs[full] = true
					v.listing = append(v.listing, &vInfo{name: e.name(), isDir: true})
				} else {
					v.files[full] = pdContent(e.Kind)
					v.listing = append(v.listing, &vInfo{name: e.name(), size: len(v.files[full])})
				}
			}
			sort.Slice(v.listing, func(a, b int) bool {
				if reverse {
					return v.listing[a].Name() > v.listing[b].Name()
				}
				return v.listing[a].Name() < v.listing[b].Name()
			})
			return v
		}
		for _, reverse := range []bool{false, true} {
			func() {
				tag := map[bool]string{false: "sorted", true: "reversed"}[reverse]
				defer func() {
					if e := recover(); e != nil {
						out.viol("panic:ParseFSDir", fmt.Sprintf("%s listing: %v", tag, e))
					}
				}()
				v := mkfs(reverse)
				fset := token.NewFileSet()
				pkgs, first := parser.ParseFSDir(fset, v, root, conf)
				got := map[string]pdObs{}
				dup := ""
				for pname, pkg := range pkgs {
					if pkg.Name != pname {
						out.viol("grouping:package-name-field", fmt.Sprintf("map key %q holds package named %q", pname, pkg.Name))
					}
					for fn, f := range pkg.Files {
						b := path.Base(fn)
						if _, seen := got[b]; seen {
							dup = b
						}
						o := pdObs{pkg: pname, proj: f.IsProj, class: f.IsClass, ngox: f.IsNormalGox}
						if f.Name != nil {
							o.namePkg = f.Name.Name
						}
						got[b] = o
					}
					for fn, f := range pkg.GoFiles {
						b := path.Base(fn)
						if _, seen := got[b]; seen {
							dup = b
						}
						got[b] = pdObs{pkg: pname, gofile: true, namePkg: f.Name.Name}
					}
				}
				if dup != "" {
					out.viol("grouping:file-twice", fmt.Sprintf("%s listing: %s appears in two places", tag, dup))
				}
				for j, e := range c.Dir {
					w, inc := want[j]
					g, ginc := got[e.name()]
					where := fmt.Sprintf("%s listing, %s ck=%s mode=%s filt=%d", tag, e.name()+"("+e.Kind+")", c.Ck, c.Mode, c.Filt)
					switch {
					case inc && !ginc:
						out.viol("wrongly-excluded:"+pdKindOf(c, j), fmt.Sprintf("%s: not in the result (first error: %v)", where, first))
					case !inc && ginc:
						out.viol("wrongly-included:"+pdWhyExcluded(c, j), fmt.Sprintf("%s: in the result as %+v", where, g))
					case inc && ginc:
						if g.pkg != w.Pkg || g.namePkg != w.Pkg {
							out.viol("grouping:wrong-package", fmt.Sprintf("%s: under %q (file says %q), want %q", where, g.pkg, g.namePkg, w.Pkg))
						}
						if g.gofile != w.Gofile {
							out.viol(fmt.Sprintf("wrong-map:gofiles=%v:%s", g.gofile, c.Mode), where)
						}
						if g.class != w.Class {
							out.viol(fmt.Sprintf("flag:IsClass=%v:%s", g.class, pdKindOf(c, j)), where)
						}
						if g.ngox != w.Ngox {
							out.viol(fmt.Sprintf("flag:IsNormalGox=%v:%s", g.ngox, pdKindOf(c, j)), where)
						}
						if g.proj != w.Proj {
							if c.Ckok[j] || path.Ext(e.name()) != ".gox" {
								out.viol(fmt.Sprintf("flag:IsProj=%v:%s", g.proj, pdKindOf(c, j)), where)
							} else {
								out.drift("isproj-without-ok", where)
							}
						}
					}
				}
				if len(got) > len(c.Dir) {
					out.viol("wrongly-included:not-in-listing", fmt.Sprintf("%d files in the result, %d entries", len(got), len(c.Dir)))
				}
				if first != nil {
					out.drift("first-error", fmt.Sprintf("%s listing: %v", tag, first))
				}
			}()
		}
		// ParseFSEntry on every file of the directory
		for j, e := range c.Dir {
			if e.Kind == "dir" {
				continue
			}
			func() {
				where := fmt.Sprintf("ParseFSEntry %s ck=%s mode=%s", e.name(), c.Ck, c.Mode)
				defer func() {
					if p := recover(); p != nil {
						out.viol("panic:ParseFSEntry", fmt.Sprintf("%s: %v", where, p))
					}
				}()
				v := mkfs(false)
				f, err := parser.ParseFSEntry(token.NewFileSet(), v, path.Join(root, e.name()), nil,
					parser.Config{ClassKind: pdClassKind(c.Ck), Mode: mode})
				w := c.Entry[j]
				switch {
				case !w.Ok && err == nil:
					out.viol("entry:unknown-accepted:"+pdKindOf(c, j), where)
				case !w.Ok && err != parser.ErrUnknownFileKind:
					out.drift("entry:unknown-other-error", fmt.Sprintf("%s: %v", where, err))
				case w.Ok && (err != nil || f == nil):
					out.viol("entry:known-rejected:"+pdKindOf(c, j), fmt.Sprintf("%s: %v", where, err))
				case w.Ok:
					if f.IsClass != w.Class {
						out.viol(fmt.Sprintf("entry:flag:IsClass=%v:%s", f.IsClass, pdKindOf(c, j)), where)
					}
					if f.IsNormalGox != w.Ngox {
						out.viol(fmt.Sprintf("entry:flag:IsNormalGox=%v:%s", f.IsNormalGox, pdKindOf(c, j)), where)
					}
					if f.IsProj != w.Proj {
						if c.Ckok[j] || path.Ext(e.name()) != ".gox" {
							out.viol(fmt.Sprintf("entry:flag:IsProj=%v:%s", f.IsProj, pdKindOf(c, j)), where)
						} else {
							out.drift("entry:isproj-without-ok", where)
						}
					}
					wantPkg := e.Kind
					if wantPkg == "impl" {
						wantPkg = "main"
					}
					if f.Name == nil || f.Name.Name != wantPkg {
						out.viol("entry:package-name", where)
					}
				}
			}()
		}
		var nt []string
		for j, e := range c.Dir {
			k := e.Pre + pdKindOf(c, j) + "/" + e.Kind
			if _, inc := want[j]; inc {
				k += "+"
			}
			nt = append(nt, k)
		}
		filt := "nil"
		if c.Filt > 0 {
			filt = fmt.Sprintf("rej%d", c.Filt)
		}
		res := hlib.Result{Idx: idx, V: out.v, Sig: out.sig, Detail: out.detail, Input: in,
			NT: c.Ck + "|" + c.Mode + "|" + filt + "|" + strings.Join(nt, ",")}
		if out.v == "ok" {
			res.Detail = fmt.Sprintf("included %d of %d: %+v", len(c.Out), len(c.Dir), c.Out)
		}
		hlib.Emit(res)
	})
}
