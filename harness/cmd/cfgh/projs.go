package main

import (
	"fmt"
	"reflect"
	"strings"

	"github.com/goplus/xgo/x/xgoprojs"

	"verifharness/hlib"
)

type projCase struct {
	Args  [][]string `json:"args"`
	Projs []struct {
		K string     `json:"k"`
		A [][]string `json:"a"`
	} `json:"projs"`
	Mixed bool `json:"mixed"`
}

type obsProj struct {
	K string
	A []string
}

func observe(p xgoprojs.Proj) obsProj {
	switch v := p.(type) {
	case *xgoprojs.FilesProj:
		return obsProj{"files", append([]string{}, v.Files...)}
	case *xgoprojs.DirProj:
		return obsProj{"dir", []string{v.Dir}}
	case *xgoprojs.PkgPathProj:
		return obsProj{"pkg", []string{v.Path}}
	}
	return obsProj{fmt.Sprintf("%T", p), nil}
}

func joinAll(a [][]string) []string {
	r := make([]string, len(a))
	for i, s := range a {
		r[i] = hlib.Join(s)
	}
	return r
}

// runProjs replays every model case into ParseAll and, step by step, into ParseOne.
func runProjs() {
	hlib.ForEachCase(func(idx int, c *projCase) {
		args := joinAll(c.Args)
		var want []obsProj
		for _, p := range c.Projs {
			want = append(want, obsProj{p.K, joinAll(p.A)})
		}
		in := map[string]any{"args": args}
		res := hlib.Result{Idx: idx, V: "ok", Input: in, NT: strings.Join(kinds(want), ",")}
		fail := func(sig, d string) {
			if res.V != "viol" {
				res.V, res.Sig, res.Detail = "viol", sig, d
			}
		}
		func() {
			defer func() {
				if e := recover(); e != nil {
					fail("panic", fmt.Sprint(e))
				}
			}()
			projs, err := xgoprojs.ParseAll(append([]string{}, args...)...)
			var got []obsProj
			for _, p := range projs {
				got = append(got, observe(p))
			}
			switch {
			case c.Mixed && err != xgoprojs.ErrMixedFilesProj:
				fail("mixed-error-missing", fmt.Sprintf("args=%q: want ErrMixedFilesProj, got err=%v projs=%v", args, err, got))
			case !c.Mixed && err != nil:
				fail("unexpected-error", fmt.Sprintf("args=%q: err=%v", args, err))
			case !c.Mixed && !reflect.DeepEqual(got, want):
				fail("partition:"+diffClass(got, want, args), fmt.Sprintf("args=%q: got %v want %v", args, got, want))
			}
			// behaviour replay: each ParseOne step must be the model's action
			rest := append([]string{}, args...)
			for i := 0; ; i++ {
				p, next, e := xgoprojs.ParseOne(rest...)
				if len(rest) == 0 {
					if e == nil {
						fail("parseone-empty-no-error", "ParseOne() on no arguments returned no error")
					}
					if i != len(want) {
						fail("parseone-steps", fmt.Sprintf("args=%q: %d steps, model %d", args, i, len(want)))
					}
					break
				}
				if e != nil {
					fail("parseone-error", fmt.Sprintf("args=%q step %d: %v", args, i, e))
					break
				}
				if i >= len(want) {
					fail("parseone-steps", fmt.Sprintf("args=%q: more steps than the model's %d", args, len(want)))
					break
				}
				o := observe(p)
				if !reflect.DeepEqual(o, want[i]) {
					fail("parseone-step:"+o.K+"/"+want[i].K, fmt.Sprintf("args=%q step %d: got %v want %v", args, i, o, want[i]))
					break
				}
				if len(next) != len(rest)-len(o.A) {
					fail("parseone-next", fmt.Sprintf("args=%q step %d: next=%q", args, i, next))
					break
				}
				rest = next
			}
		}()
		if res.V == "ok" {
			res.Detail = fmt.Sprintf("mixed=%v projs=%v", c.Mixed, want)
		}
		hlib.Emit(res)
	})
}

func kinds(ps []obsProj) []string {
	var r []string
	for _, p := range ps {
		r = append(r, fmt.Sprintf("%s%d", p.K, len(p.A)))
	}
	return r
}

// diffClass abstracts a wrong partition into a structural signature.
func diffClass(got, want []obsProj, args []string) string {
	var flat []string
	for _, p := range got {
		flat = append(flat, p.A...)
	}
	if !reflect.DeepEqual(flat, args) && !(len(flat) == 0 && len(args) == 0) {
		return "args-not-preserved"
	}
	if len(got) != len(want) {
		return "grouping"
	}
	for i := range got {
		if got[i].K != want[i].K {
			return "kind:" + got[i].K + "/" + want[i].K
		}
	}
	return "grouping"
}
