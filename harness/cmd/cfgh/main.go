// cfgh: conformance harness for the configuration-shaped properties (C34 ParseDir, C35 Projs).
package main

import (
	"fmt"
	"os"

	"verifharness/hlib"
)

func main() {
	if len(os.Args) < 2 {
		fmt.Fprintln(os.Stderr, "usage: cfgh projs|parsedir < cases.ndjson")
		os.Exit(3)
	}
	switch os.Args[1] {
	case "projs":
		runProjs()
	case "parsedir":
		runParseDir()
	default:
		fmt.Fprintln(os.Stderr, "unknown mode", os.Args[1])
		os.Exit(3)
	}
	hlib.Flush()
}
