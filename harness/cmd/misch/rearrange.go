package main

// C24 -- replay of specs/syntax/Rearrange.tla cases into formatutil.RearrangeFuncs / SourceEx.
//
// Alarm (the statement):
//   P1  no byte added or lost (same length, same byte multiset);
//   P2  every chunk's body (first code token .. end of its last line, trailing comment and newline
//       included) is found intact, exactly once, in the output        -> "permutation of chunks";
//   P3  the bodies appear in the order the property prescribes (prefix up to the first
//       non-declaration untouched, then function declarations, then the rest, order kept per class);
//   P4  SourceEx succeeds whenever Source succeeds on the original or on the rearrangement.
// Drift: the output differs from the model's byte-exact prediction of today's algorithm (where
// comment lines and blank lines between chunks end up is not pinned by the statement).

import (
	"bytes"
	"fmt"
	"sort"
	"strconv"
	"strings"

	"github.com/goplus/xgo/format"
	"github.com/goplus/xgo/format/formatutil"

	"verifharness/hlib"
)

type raChunk struct {
	Kind string `json:"kind"`
	V    string `json:"v"`
}

type raAtom struct {
	S string `json:"s"`
	C int    `json:"c"`
}

type raCase struct {
	Script  []raChunk  `json:"script"`
	Atoms   []raAtom   `json:"atoms"`
	Bodies  [][]string `json:"bodies"`
	Want    []int      `json:"want"`
	Code    []int      `json:"code"`
	Trigger bool       `json:"trigger"`
}

func raText(s string, c int) string { return strings.ReplaceAll(s, "#", strconv.Itoa(c)) }

// raClass abstracts a chunk kind for signatures.
func raClass(kind string) string {
	switch kind {
	case "func", "method", "opmethod":
		return "funcdecl"
	case "var", "type", "vargroup":
		return "decl"
	case "flitres", "conv":
		return "funcexpr"
	case "import", "package":
		return "import"
	}
	return "stmt"
}

type raFinding struct {
	prio   int
	sig    string
	detail string
}

func runRearrange() {
	hlib.ForEachCase(func(idx int, c *raCase) {
		var sb strings.Builder
		for _, a := range c.Atoms {
			sb.WriteString(raText(a.S, a.C))
		}
		src := sb.String()
		sb.Reset()
		for _, k := range c.Code {
			a := c.Atoms[k-1]
			sb.WriteString(raText(a.S, a.C))
		}
		predicted := sb.String()
		bodies := make([]string, len(c.Bodies))
		for i, b := range c.Bodies {
			var t strings.Builder
			for _, s := range b {
				t.WriteString(raText(s, i+1))
			}
			bodies[i] = t.String()
		}
		var ntk []string
		for _, ch := range c.Script {
			ntk = append(ntk, ch.Kind+"/"+ch.V)
		}
		res := hlib.Result{Idx: idx, V: "ok", Input: src, NT: strings.Join(ntk, " ")}
		var finds []raFinding
		add := func(prio int, sig, d string) { finds = append(finds, raFinding{prio, sig, d}) }
		drift := ""
		func() {
			defer func() {
				if e := recover(); e != nil {
					add(0, "panic", fmt.Sprint(e))
				}
			}()
			outb, err := formatutil.RearrangeFuncs([]byte(src), "a.xgo")
			if err != nil {
				add(1, "rearrange-error", err.Error())
				return
			}
			out := string(outb)
			show := fmt.Sprintf("--- source\n%s--- RearrangeFuncs\n%s", src, out)
			// P1
			if len(out) != len(src) {
				which := "lost"
				if len(out) > len(src) {
					which = "added"
				}
				add(2, "bytes-"+which, show)
			} else {
				a, b := []byte(src), []byte(out)
				sort.Slice(a, func(i, j int) bool { return a[i] < a[j] })
				sort.Slice(b, func(i, j int) bool { return b[i] < b[j] })
				if !bytes.Equal(a, b) {
					add(2, "bytes-changed", show)
				}
			}
			// P2
			pos := make([]int, len(bodies))
			torn := false
			for i, b := range bodies {
				n := strings.Count(out, b)
				pos[i] = strings.Index(out, b)
				if n == 1 {
					continue
				}
				torn = true
				ch := c.Script[i]
				switch {
				case n > 1:
					add(3, "chunk-duplicated:"+ch.Kind, show)
				case ch.Kind == "vargroup":
					add(4, "chunk-torn:paren-group", show)
				case ch.V == "trail":
					add(5, "chunk-torn:trailing-comment", show)
				default:
					add(6, "chunk-torn:"+ch.Kind+":"+ch.V, show)
				}
			}
			// P3
			if !torn {
				rank := make([]int, len(bodies)) // rank[chunk] = position in the prescribed order
				for p, ch := range c.Want {
					rank[ch-1] = p
				}
				type inv struct{ i, j int }
				var invs []inv
				for i := range bodies {
					for j := range bodies {
						if rank[i] < rank[j] && pos[i] > pos[j] {
							invs = append(invs, inv{i, j})
						}
					}
				}
				if len(invs) > 0 {
					isFE := func(k string) bool { return k == "flitres" || k == "conv" }
					sig := ""
					for _, v := range invs {
						if k := c.Script[v.i].Kind; k == "import" || k == "package" {
							sig = "order:func-hoisted-above-import"
						}
					}
					if sig == "" {
						for _, v := range invs {
							if isFE(c.Script[v.i].Kind) || isFE(c.Script[v.j].Kind) {
								sig = "order:func-expression-statement-as-declaration"
							}
						}
					}
					prio := 7
					if sig == "" {
						v := invs[0]
						sig = "order:" + raClass(c.Script[v.j].Kind) + "-before-" + raClass(c.Script[v.i].Kind)
						prio = 6
					}
					add(prio, sig, show)
				}
			}
			// P4
			_, e1 := format.Source([]byte(src), false, "a.xgo")
			_, e2 := format.Source(outb, false, "a.xgo")
			_, e3 := formatutil.SourceEx([]byte(src), false, "a.xgo")
			if (e1 == nil || e2 == nil) && e3 != nil {
				add(2, "sourceex-fails", fmt.Sprintf("Source(original) err=%v, Source(rearranged) err=%v, SourceEx err=%v\n%s", e1, e2, e3, show))
			}
			if out != predicted {
				drift = fmt.Sprintf("--- predicted\n%s%s", predicted, show)
			}
			if len(finds) == 0 {
				res.Detail = fmt.Sprintf("order %v; Source(original) ok=%v Source(rearranged) ok=%v SourceEx ok=%v", c.Want, e1 == nil, e2 == nil, e3 == nil)
			}
		}()
		if len(finds) > 0 {
			sort.SliceStable(finds, func(i, j int) bool { return finds[i].prio < finds[j].prio })
			res.V, res.Sig, res.Detail = "viol", finds[0].sig, finds[0].detail
		} else if drift != "" {
			res.V, res.Sig, res.Detail = "drift", "code-prediction", drift
		}
		hlib.Emit(res)
	})
}
