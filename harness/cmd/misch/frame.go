package main

// C38 -- replay of specs/frame/Frame.tla cases into x/jsonrpc2's HeaderFramer.
//
// Every case carries the written messages, the defect, the model's byte stream and the model
// reader's script (one record per Read call: message / error class / clean EOF, stream offset
// after the call, the offset the call may not exceed, and which oracle pins it).
//   pin "rt"   the message must come back as written          (M: round trip)         alarm
//   pin "eof"  the stream must end with a clean io.EOF                                 alarm
//   pin "err"  the call must return an error                  (S: malformed => error)  alarm
//   pin "free" today's behaviour, not pinned by the statement                          drift
// plus, for every call: no panic, and with a one-byte-at-a-time source nothing is consumed past
// the declared content length (limit).                                                alarm
//
// The code under test runs in a worker sub-process (`misch frame-worker`) under an address-space cap
// (RLIMIT_AS 2 GiB): a reader that dies -- `fatal error: runtime: out of memory` because it allocated
// the declared Content-Length before any body byte was there, an unrecovered panic -- kills only the
// worker; the parent reports `fatal:<defect class>` / `panic:<defect class>` for the case that killed
// it and restarts the worker behind that case.  A recoverable panic inside Read is caught in the
// worker and reported as `panic:<defect class>` too.

import (
	"bufio"
	"bytes"
	"context"
	"encoding/json"
	"errors"
	"fmt"
	"io"
	"math/rand"
	"os"
	"os/exec"
	"reflect"
	"strconv"
	"strings"
	"syscall"
	"time"

	"github.com/goplus/xgo/x/jsonrpc2"

	"verifharness/hlib"
)

type fmsg struct {
	K      string   `json:"k"`
	Idt    string   `json:"idt"`
	Id     []string `json:"id"`
	Method []string `json:"method"`
	Params []string `json:"params"`
	Result []string `json:"result"`
	Err    string   `json:"err"`
	Code   []string `json:"code"`
	Emsg   []string `json:"emsg"`
}

type fread struct {
	T     string `json:"t"`
	Mi    int    `json:"mi"`
	M     *fmsg  `json:"m"`
	C     string `json:"c"`
	Fatal bool   `json:"fatal"`
	Pos   int    `json:"pos"`
	Limit int    `json:"limit"`
	Pin   string `json:"pin"`
}

type fcase struct {
	Ms []fmsg `json:"ms"`
	D  struct {
		C string `json:"c"`
		K int    `json:"k"`
		N int    `json:"n"`
	} `json:"d"`
	Stream []string `json:"stream"`
	Reads  []fread  `json:"reads"`
}

// fobs is the observable content of a message.
type fobs struct {
	Kind   string
	IdT    string
	Id     string
	Method string
	Params string
	Result string
	HasErr bool
	Code   int64
	Emsg   string
}

func (m *fmsg) want() fobs {
	o := fobs{Kind: m.K, IdT: m.Idt, Id: hlib.Join(m.Id), Method: hlib.Join(m.Method),
		Params: hlib.Join(m.Params), Result: hlib.Join(m.Result)}
	if m.Err != "none" {
		o.HasErr = true
		o.Code, _ = strconv.ParseInt(hlib.Join(m.Code), 10, 64)
		o.Emsg = hlib.Join(m.Emsg)
	}
	return o
}

func (m *fmsg) id() jsonrpc2.ID {
	switch m.Idt {
	case "int":
		v, err := strconv.ParseInt(hlib.Join(m.Id), 10, 64)
		if err != nil {
			panic("bad int id in case: " + hlib.Join(m.Id))
		}
		return jsonrpc2.Int64ID(v)
	case "str":
		return jsonrpc2.StringID(hlib.Join(m.Id))
	}
	return jsonrpc2.ID{}
}

func rawOrNil(cs []string) any {
	if len(cs) == 0 {
		return nil
	}
	return json.RawMessage(hlib.Join(cs))
}

// build constructs the real message through the public constructors.
func (m *fmsg) build() (jsonrpc2.Message, error) {
	switch m.K {
	case "call":
		return jsonrpc2.NewCall(m.id(), hlib.Join(m.Method), rawOrNil(m.Params))
	case "notif":
		return jsonrpc2.NewNotification(hlib.Join(m.Method), rawOrNil(m.Params))
	case "resp":
		var e error
		code, _ := strconv.ParseInt(hlib.Join(m.Code), 10, 64)
		msg := hlib.Join(m.Emsg)
		switch m.Err {
		case "wire":
			e = jsonrpc2.NewError(code, msg)
		case "plain":
			e = errors.New(msg)
		case "wrapped":
			e = fmt.Errorf("w: %w", jsonrpc2.NewError(code, strings.TrimPrefix(msg, "w: ")))
		}
		return jsonrpc2.NewResponse(m.id(), rawOrNil(m.Result), e)
	}
	return nil, fmt.Errorf("unknown message kind %q", m.K)
}

func observeMsg(msg jsonrpc2.Message) fobs {
	idOf := func(id jsonrpc2.ID) (string, string) {
		switch v := id.Raw().(type) {
		case nil:
			return "none", ""
		case int64:
			return "int", strconv.FormatInt(v, 10)
		case string:
			return "str", v
		default:
			return fmt.Sprintf("%T", v), fmt.Sprint(v)
		}
	}
	switch m := msg.(type) {
	case *jsonrpc2.Request:
		o := fobs{Kind: "notif", Method: m.Method, Params: string(m.Params)}
		o.IdT, o.Id = idOf(m.ID)
		if m.IsCall() {
			o.Kind = "call"
		}
		return o
	case *jsonrpc2.Response:
		o := fobs{Kind: "resp", Result: string(m.Result)}
		o.IdT, o.Id = idOf(m.ID)
		if m.Error != nil {
			o.HasErr = true
			o.Emsg = m.Error.Error()
			o.Code = errCode(m.Error)
		}
		return o
	}
	return fobs{Kind: fmt.Sprintf("%T", msg)}
}

// errCode digs the code out of the (unexported) wire error type.
func errCode(e error) int64 {
	v := reflect.ValueOf(e)
	if v.Kind() == reflect.Pointer && !v.IsNil() && v.Elem().Kind() == reflect.Struct {
		if f := v.Elem().FieldByName("Code"); f.IsValid() && f.CanInt() {
			return f.Int()
		}
	}
	return -999999
}

func diffField(got, want fobs) string {
	switch {
	case got.Kind != want.Kind:
		return "kind:" + want.Kind + "->" + got.Kind
	case got.IdT != want.IdT:
		return "id-type:" + want.IdT + "->" + got.IdT
	case got.Id != want.Id:
		if want.IdT == "int" {
			if v, err := strconv.ParseInt(want.Id, 10, 64); err == nil && (v > 1<<53 || v < -(1<<53)) {
				return "id-int64-beyond-2^53"
			}
		}
		return "id-value"
	case got.Method != want.Method:
		return "method"
	case got.Params != want.Params:
		return "params"
	case got.Result != want.Result:
		return "result"
	case got.HasErr != want.HasErr:
		return "error-presence"
	case got.Code != want.Code:
		return "error-code"
	case got.Emsg != want.Emsg:
		return "error-message"
	}
	return ""
}

// classify maps a reader error to the model's outcome classes (used for drift only).
func classifyErr(err error, n int64) string {
	var se *json.SyntaxError
	var te *json.UnmarshalTypeError
	s := err.Error()
	switch {
	case err == io.EOF && n == 0:
		return "eof"
	case err == io.EOF:
		return "body-eof0"
	case errors.Is(err, io.ErrUnexpectedEOF) && strings.Contains(s, "header"):
		return "hdr-eof"
	case errors.Is(err, io.ErrUnexpectedEOF) && !strings.Contains(s, "unmarshal"):
		return "body-short"
	case errors.Is(err, jsonrpc2.ErrInvalidRequest):
		return "invalid-request"
	case errors.As(err, &se), errors.As(err, &te), strings.Contains(s, "unmarshal"):
		return "bad-json"
	case strings.Contains(s, "invalid header line"):
		return "bad-header"
	case strings.Contains(s, "missing Content-Length"):
		return "missing-length"
	case strings.Contains(s, "Content-Length"):
		return "bad-length"
	case strings.Contains(s, "version tag"):
		return "bad-tag"
	case strings.Contains(s, "id type"):
		return "bad-id"
	}
	return "other"
}

// countingReader hands out at most `chunk(k)` bytes per Read and counts what was taken.
type countingReader struct {
	data  []byte
	off   int
	chunk func() int
}

func (r *countingReader) Read(p []byte) (int, error) {
	if r.off >= len(r.data) {
		return 0, io.EOF
	}
	n := r.chunk()
	if n > len(p) {
		n = len(p)
	}
	if n > len(r.data)-r.off {
		n = len(r.data) - r.off
	}
	copy(p, r.data[r.off:r.off+n])
	r.off += n
	return n, nil
}

type fverdict struct {
	v, sig, detail string
}

func (a *fverdict) viol(sig, d string) {
	if a.v != "viol" {
		a.v, a.sig, a.detail = "viol", sig, d
	}
}
func (a *fverdict) drift(sig, d string) {
	if a.v == "ok" {
		a.v, a.sig, a.detail = "drift", sig, d
	}
}

func safeRead(rd jsonrpc2.Reader) (msg jsonrpc2.Message, n int64, err error, pan any) {
	defer func() {
		if e := recover(); e != nil {
			pan = e
		}
	}()
	msg, n, err = rd.Read(context.Background())
	return
}

// replayReads runs the model reader's script against the real Reader over `input`.
func replayReads(c *fcase, input []byte, variant string, rng *rand.Rand, out *fverdict) {
	var src io.Reader
	var cr *countingReader
	switch variant {
	case "whole":
		src = bytes.NewReader(input)
	case "byte1":
		cr = &countingReader{data: input, chunk: func() int { return 1 }}
		src = cr
	default: // seeded chunk sizes
		cr = &countingReader{data: input, chunk: func() int { return 1 + rng.Intn(7) }}
		src = cr
	}
	rd := jsonrpc2.HeaderFramer().Reader(src)
	cls := c.D.C
	var total int64
	for i := range c.Reads {
		exp := &c.Reads[i]
		msg, n, err, pan := safeRead(rd)
		where := fmt.Sprintf("%s read#%d defect=%s/%d/%d", variant, i+1, cls, c.D.K, c.D.N)
		if pan != nil {
			out.viol("panic:"+cls, fmt.Sprintf("%s: panic %v", where, pan))
			return
		}
		total += n
		switch exp.T {
		case "msg":
			if err != nil {
				d := fmt.Sprintf("%s: want message, got error %v", where, err)
				if exp.Pin == "rt" {
					out.viol("roundtrip:read-error:"+classifyErr(err, n), d)
				} else {
					out.drift("tolerance:"+cls+":now-rejected", d)
				}
				return
			}
			var want fobs
			if exp.Mi > 0 {
				want = c.Ms[exp.Mi-1].want()
			} else if exp.M != nil {
				want = exp.M.want()
			}
			got := observeMsg(msg)
			if f := diffField(got, want); f != "" {
				d := fmt.Sprintf("%s: got %+v want %+v", where, got, want)
				if exp.Pin == "rt" {
					out.viol("roundtrip:"+f, d)
				} else {
					out.drift("tolerance:"+cls+":"+f, d)
				}
				return
			}
		case "err":
			if err == nil {
				d := fmt.Sprintf("%s: want error (%s), got message %+v", where, exp.C, observeMsg(msg))
				if exp.Pin == "err" {
					sig := "malformed-accepted:" + cls
					if cls == "trunc" {
						sig = "malformed-accepted:trunc:" + exp.C
					}
					out.viol(sig, d)
				} else {
					out.drift("strictness:"+cls+":now-accepted", d)
				}
				return
			}
			if msg != nil && !reflect.ValueOf(msg).IsNil() {
				out.drift("error-with-message:"+cls, where)
			}
			if got := classifyErr(err, n); got != exp.C {
				out.drift("errclass:"+exp.C+"->"+got, fmt.Sprintf("%s: %v", where, err))
			}
		case "eof":
			if err != io.EOF || n != 0 {
				d := fmt.Sprintf("%s: want clean io.EOF, got msg=%v n=%d err=%v", where, msg != nil, n, err)
				if exp.Pin == "eof" {
					out.viol("roundtrip:no-clean-eof", d)
				} else {
					out.drift("tail:"+cls, d)
				}
				return
			}
		}
		if exp.Pos < 0 {
			// the real writer's bytes differ from the model's: offsets do not apply
		} else if variant == "byte1" {
			if cr.off > exp.Limit {
				out.viol("overread:"+exp.T+":"+map[bool]string{true: "trunc", false: cls}[cls == "trunc"],
					fmt.Sprintf("%s: consumed %d bytes of the source, declared content ends at %d", where, cr.off, exp.Limit))
				return
			}
			if cr.off != exp.Pos {
				out.drift("consumed:"+exp.T+":"+exp.C, fmt.Sprintf("%s: consumed %d, model %d", where, cr.off, exp.Pos))
			}
		}
		if exp.Pos >= 0 && int(total) != exp.Pos {
			out.drift("total:"+exp.T+":"+exp.C, fmt.Sprintf("%s: sum of returned byte counts %d, model %d", where, total, exp.Pos))
		}
		if exp.T == "eof" || exp.Fatal {
			return
		}
	}
}

func kindsOf(ms []fmsg) string {
	var b strings.Builder
	for _, m := range ms {
		b.WriteString(m.K[:1])
		b.WriteString(m.Idt[:1])
		if m.Err != "none" {
			b.WriteByte('e')
		}
		b.WriteByte(' ')
	}
	return b.String()
}

// frameCase replays one case in this process.
func frameCase(idx int, c *fcase, rng *rand.Rand) hlib.Result {
	model := []byte(hlib.Join(c.Stream))
	in := map[string]any{"msgs": kindsOf(c.Ms), "defect": c.D, "stream": string(model)}
	out := &fverdict{v: "ok"}
	nt := c.D.C + "|" + strconv.Itoa(c.D.K) + "|" + kindsOf(c.Ms)
	if c.D.C == "trunc" && len(c.Reads) > 0 {
		nt += "|" + c.Reads[len(c.Reads)-1].C
	}
	input := model
	func() {
		defer func() {
			if e := recover(); e != nil {
				out.viol("panic:harness-or-writer", fmt.Sprint(e))
			}
		}()
		if c.D.C == "none" {
			// the real writer produces the stream that is read back
			var buf bytes.Buffer
			w := jsonrpc2.HeaderFramer().Writer(&buf)
			var sum int64
			for i := range c.Ms {
				msg, err := c.Ms[i].build()
				if err != nil {
					out.viol("constructor-error:"+c.Ms[i].K, err.Error())
					return
				}
				n, err := w.Write(context.Background(), msg)
				if err != nil {
					out.viol("write-error:"+c.Ms[i].K, err.Error())
					return
				}
				sum += n
			}
			input = append([]byte{}, buf.Bytes()...)
			if !bytes.Equal(input, model) {
				out.drift("writer-bytes", fmt.Sprintf("real %q model %q", input, model))
				// positions of the model no longer apply: compare messages only
				for i := range c.Reads {
					c.Reads[i].Pos, c.Reads[i].Limit = -1, len(input)
				}
			} else if int(sum) != len(input) {
				out.drift("writer-count", fmt.Sprintf("Write returned %d in total, wrote %d", sum, len(input)))
			}
		}
		for _, variant := range []string{"whole", "byte1", "chunks"} {
			replayReads(c, input, variant, rng, out)
		}
	}()
	res := hlib.Result{Idx: idx, V: out.v, Sig: out.sig, Detail: out.detail, Input: in, NT: nt}
	if out.v == "ok" {
		var sb strings.Builder
		for _, r := range c.Reads {
			fmt.Fprintf(&sb, "%s/%s@%d ", r.T, r.C, r.Pos)
		}
		res.Detail = sb.String()
	}
	return res
}

// frameWorkerMemCap is the address-space limit of a worker: a reader that allocates the declared
// Content-Length before any body byte is there fails fast (runtime: out of memory) instead of
// thrashing the machine.
const frameWorkerMemCap = 2 << 30

// runFrameWorker is the sub-process that touches the code under test: one case per stdin line, one
// result per stdout line.  It may die (fatal error, unrecovered panic); the parent notices.
func runFrameWorker() {
	lim := syscall.Rlimit{Cur: frameWorkerMemCap, Max: frameWorkerMemCap}
	if err := syscall.Setrlimit(syscall.RLIMIT_AS, &lim); err != nil {
		fmt.Fprintln(os.Stderr, "worker: setrlimit:", err)
		os.Exit(4)
	}
	rng := rand.New(rand.NewSource(hlib.Seed()))
	sc := bufio.NewScanner(os.Stdin)
	sc.Buffer(make([]byte, 1<<20), 1<<28)
	for sc.Scan() {
		var c fcase
		if err := json.Unmarshal(sc.Bytes(), &c); err != nil {
			fmt.Fprintln(os.Stderr, "worker: bad case:", err)
			os.Exit(3)
		}
		hlib.Emit(frameCase(0, &c, rng))
		hlib.Flush()
	}
}

type frameWorker struct {
	cmd    *exec.Cmd
	in     io.WriteCloser
	out    chan []byte // result lines; closed when the worker's stdout ends
	stderr *bytes.Buffer
}

func startFrameWorker() *frameWorker {
	cmd := exec.Command(os.Args[0], "frame-worker")
	w := &frameWorker{cmd: cmd, out: make(chan []byte, 1), stderr: &bytes.Buffer{}}
	var err error
	if w.in, err = cmd.StdinPipe(); err != nil {
		fmt.Fprintln(os.Stderr, "frame: stdin pipe:", err)
		os.Exit(3)
	}
	so, err := cmd.StdoutPipe()
	if err != nil {
		fmt.Fprintln(os.Stderr, "frame: stdout pipe:", err)
		os.Exit(3)
	}
	cmd.Stderr = w.stderr
	if err := cmd.Start(); err != nil {
		fmt.Fprintln(os.Stderr, "frame: cannot start worker:", err)
		os.Exit(3)
	}
	go func() {
		sc := bufio.NewScanner(so)
		sc.Buffer(make([]byte, 1<<20), 1<<28)
		for sc.Scan() {
			w.out <- append([]byte{}, sc.Bytes()...)
		}
		close(w.out)
	}()
	return w
}

func (w *frameWorker) stop() {
	w.in.Close()
	w.cmd.Process.Kill()
	w.cmd.Wait()
}

// how a dead worker died, from its stderr (structural classes only)
func frameDeath(stderr string) (kind, what string) {
	switch {
	case strings.Contains(stderr, "out of memory"), strings.Contains(stderr, "cannot allocate memory"):
		return "fatal", "out-of-memory"
	case strings.Contains(stderr, "fatal error:"):
		return "fatal", "runtime-fatal-error"
	case strings.Contains(stderr, "panic:"):
		return "panic", "unrecovered-panic"
	}
	return "fatal", "worker-died"
}

// runFrame is the parent: it feeds the cases to a worker sub-process and restarts the worker
// behind a case that killed it; that case is a violation (the reader must return an error).
func runFrame() {
	sc := bufio.NewScanner(os.Stdin)
	sc.Buffer(make([]byte, 1<<20), 1<<28)
	w := startFrameWorker()
	idx, deaths := 0, 0
	for sc.Scan() {
		line := sc.Bytes()
		if len(line) == 0 {
			continue
		}
		var head struct {
			D struct {
				C string `json:"c"`
				K int    `json:"k"`
			} `json:"d"`
		}
		if err := json.Unmarshal(line, &head); err != nil {
			fmt.Fprintf(os.Stderr, "bad case line %d: %v\n", idx, err)
			os.Exit(3)
		}
		_, werr := w.in.Write(append(append([]byte{}, line...), '\n'))
		var resLine []byte
		ok := false
		hang := false
		if werr == nil {
			select {
			case resLine, ok = <-w.out:
			case <-time.After(60 * time.Second):
				hang = true
			}
		}
		if ok {
			var r hlib.Result
			if err := json.Unmarshal(resLine, &r); err != nil {
				fmt.Fprintf(os.Stderr, "bad worker result for case %d: %v\n", idx, err)
				os.Exit(3)
			}
			r.Idx = idx
			hlib.Emit(r)
		} else {
			w.stop()
			se := w.stderr.String()
			if strings.HasPrefix(se, "worker:") { // the worker could not even start working
				fmt.Fprintln(os.Stderr, se)
				os.Exit(3)
			}
			kind, what := frameDeath(se)
			if hang {
				kind, what = "hang", "no-result-in-60s"
			}
			if len(se) > 1500 {
				se = se[:1500]
			}
			hlib.Emit(hlib.Result{Idx: idx, V: "viol", Sig: kind + ":" + head.D.C,
				Detail: fmt.Sprintf("the reader process died on this stream (%s); defect=%s frame %d\n%s", what, head.D.C, head.D.K, se),
				Input:  map[string]any{"defect": head.D}, NT: head.D.C + "|died"})
			deaths++
			if deaths > 2000 {
				fmt.Fprintln(os.Stderr, "frame: more than 2000 worker deaths, giving up")
				os.Exit(3)
			}
			w = startFrameWorker()
		}
		idx++
	}
	w.in.Close()
	w.cmd.Wait()
	if err := sc.Err(); err != nil {
		fmt.Fprintln(os.Stderr, "reading cases:", err)
		os.Exit(3)
	}
}
