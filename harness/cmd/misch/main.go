// misch: conformance harness for C23 (import sorting), C24 (function hoisting), C38 (JSON-RPC framing).
package main

import (
	"fmt"
	"os"

	"verifharness/hlib"
)

func main() {
	if len(os.Args) < 2 {
		fmt.Fprintln(os.Stderr, "usage: misch frame|importsort|rearrange < cases.ndjson")
		os.Exit(3)
	}
	switch os.Args[1] {
	case "frame":
		runFrame()
	case "frame-worker":
		runFrameWorker()
	case "importsort":
		runImportSort()
	case "rearrange":
		runRearrange()
	default:
		fmt.Fprintln(os.Stderr, "unknown mode", os.Args[1])
		os.Exit(3)
	}
	hlib.Flush()
}
