package main

// C23 -- replay of specs/syntax/ImportSort.tla cases into format.Source / format.Node (ast.SortImports).
//
// Alarm (the statement): after formatting a complete file (i) no (name, path) pair appears that was
// not there, none disappears, no pair occurs more often than before (fewer only if it was an exact
// duplicate, i.e. at least one copy stays), (ii) every contiguous group of a parenthesised import
// declaration of the OUTPUT is sorted by path.  Everything finer that the model predicts (which
// duplicate goes, order among equal paths, groups staying groups, comments kept) is drift.

import (
	"bytes"
	"fmt"
	"sort"
	"strconv"
	"strings"

	"github.com/goplus/xgo/ast"
	"github.com/goplus/xgo/format"
	"github.com/goplus/xgo/parser"
	"github.com/goplus/xgo/token"

	"verifharness/hlib"
)

type isSpec struct {
	Name  string `json:"name"`
	Path  string `json:"path"`
	Cmt   bool   `json:"cmt"`
	Blank bool   `json:"blank"`
}

type isDecl struct {
	Grouped bool     `json:"grouped"`
	Specs   []isSpec `json:"specs"`
}

type isWant struct {
	Grouped bool       `json:"grouped"`
	Runs    [][]isSpec `json:"runs"`
}

type isCase struct {
	Decls []isDecl `json:"decls"`
	Want  []isWant `json:"want"`
}

func isRenderSpec(b *strings.Builder, s isSpec) {
	if s.Name != "" {
		b.WriteString(s.Name)
		b.WriteByte(' ')
	}
	b.WriteString(strconv.Quote(s.Path))
	if s.Cmt {
		b.WriteString(" // c")
	}
	b.WriteByte('\n')
}

// isRender renders the block as a complete file.  style 0: gofmt-like layout; style 1: ragged
// layout (spaces instead of tabs, no blank line between declarations, tight comments).
func isRender(c *isCase, style int) string {
	var b strings.Builder
	b.WriteString("package main\n\n")
	for _, d := range c.Decls {
		if !d.Grouped {
			b.WriteString("import ")
			isRenderSpec(&b, d.Specs[0])
			continue
		}
		b.WriteString("import (\n")
		for _, s := range d.Specs {
			if s.Blank {
				b.WriteByte('\n')
			}
			if style == 0 {
				b.WriteByte('\t')
			} else {
				b.WriteString("  ")
			}
			isRenderSpec(&b, s)
		}
		b.WriteString(")\n")
		if style == 0 {
			b.WriteByte('\n')
		}
	}
	b.WriteString("\nfunc main() {}\n")
	return b.String()
}

type isObsDecl struct {
	grouped bool
	runs    [][]isSpec
}

// isObserve extracts the import declarations of a file: grouped?, contiguous runs, specs.
func isObserve(src []byte) ([]isObsDecl, error) {
	fset := token.NewFileSet()
	f, err := parser.ParseFile(fset, "out.xgo", src, parser.ParseComments)
	if err != nil {
		return nil, err
	}
	line := func(p token.Pos) int { return fset.PositionFor(p, false).Line }
	var out []isObsDecl
	for _, d := range f.Decls {
		g, ok := d.(*ast.GenDecl)
		if !ok || g.Tok != token.IMPORT {
			break
		}
		od := isObsDecl{grouped: g.Lparen.IsValid()}
		var run []isSpec
		for j, sp := range g.Specs {
			s := sp.(*ast.ImportSpec)
			p, err := strconv.Unquote(s.Path.Value)
			if err != nil {
				return nil, fmt.Errorf("bad import path %s", s.Path.Value)
			}
			o := isSpec{Path: p, Cmt: s.Comment != nil}
			if s.Name != nil {
				o.Name = s.Name.Name
			}
			if j > 0 && line(s.Pos()) > 1+line(g.Specs[j-1].End()) {
				od.runs = append(od.runs, run)
				run = nil
			}
			run = append(run, o)
		}
		if run != nil {
			od.runs = append(od.runs, run)
		}
		out = append(out, od)
	}
	return out, nil
}

type isVerdict struct{ v, sig, detail string }

func (a *isVerdict) viol(sig, d string) {
	if a.v != "viol" {
		a.v, a.sig, a.detail = "viol", sig, d
	}
}
func (a *isVerdict) drift(sig, d string) {
	if a.v == "ok" {
		a.v, a.sig, a.detail = "drift", sig, d
	}
}

func isNameKind(n string) string {
	switch n {
	case "":
		return "unnamed"
	case "_":
		return "blank"
	case ".":
		return "dot"
	}
	return "named"
}

// isJudge applies the statement to one formatted output, then compares with the model.
func isJudge(c *isCase, route string, src string, got []byte, out *isVerdict) {
	obs, err := isObserve(got)
	if err != nil {
		out.viol("output-unparsable:"+route, fmt.Sprintf("%v\n%s", err, got))
		return
	}
	type pair struct{ name, path string }
	before, after := map[pair]int{}, map[pair]int{}
	for _, d := range c.Decls {
		for _, s := range d.Specs {
			before[pair{s.Name, s.Path}]++
		}
	}
	for _, d := range obs {
		for _, r := range d.runs {
			for _, s := range r {
				after[pair{s.Name, s.Path}]++
			}
		}
	}
	ctx := func() string { return fmt.Sprintf("[%s]\n--- input\n%s--- output\n%s", route, src, got) }
	for p, n := range after {
		switch {
		case before[p] == 0:
			// is the path or the name known at all?  tells "pair torn apart" from "invented"
			torn := false
			for q := range before {
				if q.path == p.path || (q.name == p.name && p.name != "") {
					torn = true
				}
			}
			if torn {
				out.viol("name-path-separated:"+isNameKind(p.name), ctx())
			} else {
				out.viol("import-added:"+isNameKind(p.name), ctx())
			}
		case n > before[p]:
			out.viol("import-multiplied:"+isNameKind(p.name), ctx())
		}
	}
	for p, n := range before {
		if after[p] == 0 {
			sig := "import-removed:" + isNameKind(p.name)
			if n > 1 {
				sig += ":all-copies"
			}
			out.viol(sig, ctx())
		}
	}
	for _, d := range obs {
		if !d.grouped {
			continue
		}
		for _, r := range d.runs {
			if !sort.SliceIsSorted(r, func(i, j int) bool { return r[i].Path < r[j].Path }) {
				out.viol("group-unsorted", ctx())
			}
		}
	}
	if out.v == "viol" {
		return
	}
	// model comparison (drift only)
	if len(obs) != len(c.Want) {
		out.drift("decl-count", ctx())
		return
	}
	for i, w := range c.Want {
		o := obs[i]
		switch {
		case o.grouped != w.Grouped:
			out.drift("grouping-changed", ctx())
		case len(o.runs) != len(w.Runs):
			out.drift("run-structure", ctx())
		default:
			for k := range w.Runs {
				wr, or := w.Runs[k], o.runs[k]
				if len(wr) != len(or) {
					out.drift("dedupe-rule-or-group-membership", ctx())
					continue
				}
				for m := range wr {
					if wr[m].Name != or[m].Name || wr[m].Path != or[m].Path {
						out.drift("order-within-group", ctx())
						break
					}
					if wr[m].Cmt != or[m].Cmt {
						out.drift("comment-moved-or-lost", ctx())
						break
					}
				}
			}
		}
	}
}

func runImportSort() {
	hlib.ForEachCase(func(idx int, c *isCase) {
		out := &isVerdict{v: "ok"}
		var shape []string
		nspec := 0
		for _, d := range c.Decls {
			g := "u"
			if d.Grouped {
				g = "g"
			}
			for _, s := range d.Specs {
				nspec++
				if s.Blank {
					g += "|"
				}
				g += isNameKind(s.Name)[:1] + s.Path
				if s.Cmt {
					g += "c"
				}
				g += " "
			}
			shape = append(shape, g)
		}
		nt := strings.Join(shape, ";")
		var first string
		for style := 0; style < 2; style++ {
			src := isRender(c, style)
			if style == 0 {
				first = src
			}
			if _, err := isObserve([]byte(src)); err != nil {
				hlib.Emit(hlib.Result{Idx: idx, V: "skip", Sig: "input-unparsable", Detail: err.Error(), Input: src})
				return
			}
			func() {
				defer func() {
					if e := recover(); e != nil {
						out.viol("panic:format.Source", fmt.Sprintf("%v\n%s", e, src))
					}
				}()
				got, err := format.Source([]byte(src), false, "a.xgo")
				if err != nil {
					out.viol("format-error:Source", fmt.Sprintf("%v\n%s", err, src))
					return
				}
				isJudge(c, fmt.Sprintf("Source/style%d", style), src, got, out)
			}()
			func() {
				defer func() {
					if e := recover(); e != nil {
						out.viol("panic:format.Node", fmt.Sprintf("%v\n%s", e, src))
					}
				}()
				fset := token.NewFileSet()
				f, err := parser.ParseFile(fset, "a.xgo", []byte(src), parser.ParseComments)
				if err != nil {
					return
				}
				var buf bytes.Buffer
				if err := format.Node(&buf, fset, f); err != nil {
					out.viol("format-error:Node", fmt.Sprintf("%v\n%s", err, src))
					return
				}
				isJudge(c, fmt.Sprintf("Node/style%d", style), src, buf.Bytes(), out)
			}()
		}
		res := hlib.Result{Idx: idx, V: out.v, Sig: out.sig, Detail: out.detail, Input: first, NT: nt}
		if out.v == "ok" {
			res.Detail = fmt.Sprintf("%d specs -> %+v", nspec, c.Want)
		}
		hlib.Emit(res)
	})
}
