package main

// C36 -- the import-cache key changes exactly when package sources change (tool/imp.go).
//
// Every CASE record of specs/fs/PkgHash.tla is a history: the start directory, the operations, and
// the model's key (set of (name,size,mtime) of compilable non-underscore regular files) after every
// step.  The history is executed in the package directory of a real temp module (explicit
// os.Chtimes), the real Importer.PkgHash is called after every step, and the statement is checked:
// hash changed  <=>  key changed, per step; equal keys <=> equal hashes over everything a worker saw.

import (
	"fmt"
	"go/token"
	"os"
	"path/filepath"
	"sort"
	"strings"
	"sync"
	"time"

	"github.com/goplus/mod/env"
	"github.com/goplus/mod/xgomod"
	"github.com/goplus/xgo/tool"

	"verifharness/hlib"
)

type phEntry struct {
	N    string `json:"n"`
	Kind string `json:"kind"`
	S    int    `json:"s"`
	T    int    `json:"t"`
}

type phOp struct {
	K string `json:"k"`
	N string `json:"n"`
	M string `json:"m"`
	S int    `json:"s"`
	T int    `json:"t"`
}

type phKey struct {
	N string `json:"n"`
	S int    `json:"s"`
	T int    `json:"t"`
}

type phCase struct {
	Start []phEntry `json:"start"`
	Ops   []phOp    `json:"ops"`
	Keys  [][]phKey `json:"keys"`
	Chg   []bool    `json:"chg"`
}

var phBase = time.Date(2024, 1, 2, 3, 4, 5, 0, time.UTC)

// abstract time -> real mtime: 1 = base, 2 = base+1ns (sub-second precision matters), 3 = base+1s, ...
func phTime(t int) time.Time {
	switch t {
	case 1:
		return phBase
	case 2:
		return phBase.Add(time.Nanosecond)
	}
	return phBase.Add(time.Duration(t-2) * time.Second)
}

func keyString(k []phKey) string {
	var s []string
	for _, e := range k {
		s = append(s, fmt.Sprintf("%s/%d/%d", e.N, e.S, e.T))
	}
	sort.Strings(s)
	return strings.Join(s, " ")
}

// nameClass: structural class of a name for signatures (the harness's own reading of the name).
func nameClass(n string) string {
	if strings.HasPrefix(n, "_") {
		return "underscore"
	}
	return "ext=" + filepath.Ext(n)
}

// sourceName: the harness's own reading of "compilable, non-underscore" -- used for naming signatures only.
func sourceName(n string) bool {
	switch filepath.Ext(n) {
	case ".go", ".xgo", ".gop", ".gox":
		return !strings.HasPrefix(n, "_")
	}
	return false
}

type phWorker struct {
	root, pkg string
	imp       *tool.Importer
	k2h       map[string]string
	h2k       map[string]string
}

func newPhWorker(i int, repoRoot string) (*phWorker, error) {
	cwd, _ := os.Getwd()
	root := filepath.Join(cwd, fmt.Sprintf("phmod%d", i))
	os.RemoveAll(root)
	pkg := filepath.Join(root, "pkg")
	if err := os.MkdirAll(pkg, 0755); err != nil {
		return nil, err
	}
	if err := os.WriteFile(filepath.Join(root, "go.mod"), []byte("module example.com/m\n\ngo 1.18\n"), 0644); err != nil {
		return nil, err
	}
	mod, err := xgomod.Load(root)
	if err != nil {
		return nil, fmt.Errorf("xgomod.Load: %v", err)
	}
	imp := tool.NewImporter(mod, &env.XGo{Version: "1.0", Root: repoRoot}, token.NewFileSet())
	return &phWorker{root: root, pkg: pkg, imp: imp, k2h: map[string]string{}, h2k: map[string]string{}}, nil
}

func (w *phWorker) hash() string { return w.imp.PkgHash("example.com/m/pkg", false) }

func (w *phWorker) reset() error {
	ents, err := os.ReadDir(w.pkg)
	if err != nil {
		return err
	}
	for _, e := range ents {
		if err := os.RemoveAll(filepath.Join(w.pkg, e.Name())); err != nil {
			return err
		}
	}
	return nil
}

func (w *phWorker) put(n, kind string, s, t int) error {
	p := filepath.Join(w.pkg, n)
	if kind == "dir" {
		if err := os.Mkdir(p, 0755); err != nil {
			return err
		}
	} else {
		if err := os.WriteFile(p, []byte(strings.Repeat("x", s)), 0644); err != nil {
			return err
		}
	}
	return os.Chtimes(p, phTime(t), phTime(t))
}

func (w *phWorker) apply(op phOp) error {
	p := filepath.Join(w.pkg, op.N)
	switch op.K {
	case "Create":
		if _, err := os.Lstat(p); err == nil {
			return fmt.Errorf("Create: %s exists", op.N)
		}
		return w.put(op.N, "file", op.S, op.T)
	case "Edit":
		if err := os.WriteFile(p, []byte(strings.Repeat("y", op.S)), 0644); err != nil {
			return err
		}
		return os.Chtimes(p, phTime(op.T), phTime(op.T))
	case "Touch":
		return os.Chtimes(p, phTime(op.T), phTime(op.T))
	case "Rename":
		return os.Rename(p, filepath.Join(w.pkg, op.M))
	case "Delete", "Rmdir":
		return os.Remove(p)
	case "Mkdir":
		return w.put(op.N, "dir", 0, op.T)
	case "Chmod":
		st, err := os.Stat(p)
		if err != nil {
			return err
		}
		return os.Chmod(p, st.Mode().Perm()^0o044)
	}
	return fmt.Errorf("unknown op %q", op.K)
}

func opString(op phOp) string {
	switch op.K {
	case "Rename":
		return fmt.Sprintf("Rename(%s->%s)", op.N, op.M)
	case "Create", "Edit":
		return fmt.Sprintf("%s(%s,size=%d,mtime=%d)", op.K, op.N, op.S, op.T)
	case "Touch", "Mkdir":
		return fmt.Sprintf("%s(%s,mtime=%d)", op.K, op.N, op.T)
	}
	return fmt.Sprintf("%s(%s)", op.K, op.N)
}

func opClass(op phOp, dirOp bool) string {
	c := nameClass(op.N)
	if dirOp {
		c = "dir:" + c
	}
	if op.K == "Rename" {
		c += ">" + nameClass(op.M)
	}
	return op.K + ":" + c
}

// Signatures are made per root cause after all histories ran: a step-level violation is
// (direction, operation kind, name class).  If every operation kind seen on a name class is violated the
// class is the root cause (`missed-change:any-op:ext=.gop`); if every name class seen with an operation
// kind is violated the operation (i.e. the field it changes) is (`missed-change:Touch:any-source`).
var (
	phMu      sync.Mutex
	phSeen    = map[string]map[string]map[string]bool{} // direction -> op kind -> class -> seen
	phViol    = map[string]map[string]map[string]bool{}
	phResults []hlib.Result
	phStepSig = map[int][3]string{} // result index -> (direction, op kind, class)
)

func phMark(m map[string]map[string]map[string]bool, dir, op, cls string) {
	if m[dir] == nil {
		m[dir] = map[string]map[string]bool{}
	}
	if m[dir][op] == nil {
		m[dir][op] = map[string]bool{}
	}
	m[dir][op][cls] = true
}

func phFinalSig(dir, op, cls string) string {
	allOps := true
	for o, cs := range phSeen[dir] {
		if cs[cls] && !phViol[dir][o][cls] {
			allOps = false
		}
	}
	nOps := 0
	for _, cs := range phSeen[dir] {
		if cs[cls] {
			nOps++
		}
	}
	if allOps && nOps > 1 {
		return dir + ":any-op:" + cls
	}
	allCls := true
	for c := range phSeen[dir][op] {
		if !phViol[dir][op][c] {
			allCls = false
		}
	}
	if allCls && len(phSeen[dir][op]) > 1 {
		return dir + ":" + op + ":any-name"
	}
	return dir + ":" + op + ":" + cls
}

func runPkgHash() {
	repoRoot := os.Getenv("VERIF_REPO")
	if repoRoot == "" {
		repoRoot = "/repo"
	}
	corrupt := os.Getenv("VERIF_CORRUPT")
	cases := hlib.ReadAllCases[phCase]()
	const nw = 8
	workers := make([]*phWorker, nw)
	for i := range workers {
		w, err := newPhWorker(i, repoRoot)
		if err != nil {
			fatal("pkghash: cannot set up the temp module:", err)
		}
		if h := w.hash(); h == "" || strings.ContainsAny(h, " \t") {
			fatal("pkghash: PkgHash on the temp module returned", fmt.Sprintf("%q", h))
		}
		workers[i] = w
	}
	// static partition so that a worker's global key<->hash maps are deterministic
	done := make(chan bool, nw)
	for wi := 0; wi < nw; wi++ {
		go func(wi int) {
			w := workers[wi]
			for idx := wi; idx < len(cases); idx += nw {
				c := &cases[idx]
				if corrupt == "chg" && idx == 0 && len(c.Chg) > 0 {
					c.Chg[0] = !c.Chg[0] // damaged record: flag and keys disagree -> rejected as malformed (exit 2)
				}
				if corrupt == "key" && idx == 0 && len(c.Chg) > 0 {
					// binding demonstration: damage the expected key after step 1 (consistently with its flag)
					if c.Chg[0] {
						c.Keys[1], c.Chg[0] = c.Keys[0], false
					} else {
						c.Keys[1], c.Chg[0] = append([]phKey{{N: "zz.go", S: 9, T: 9}}, c.Keys[0]...), true
					}
					if len(c.Chg) > 1 {
						c.Chg[1] = keyString(c.Keys[2]) != keyString(c.Keys[1])
					}
				}
				runHistory(w, idx, c)
			}
			done <- true
		}(wi)
	}
	for wi := 0; wi < nw; wi++ {
		<-done
	}
	for _, w := range workers {
		os.RemoveAll(w.root)
	}
	for i, r := range phResults {
		if t, ok := phStepSig[i]; ok && r.V == "viol" {
			r.Sig = phFinalSig(t[0], t[1], t[2])
		}
		hlib.Emit(r)
	}
}

func runHistory(w *phWorker, idx int, c *phCase) {
	var ops []string
	for _, op := range c.Ops {
		ops = append(ops, opString(op))
	}
	in := map[string]any{"ops": ops}
	res := hlib.Result{Idx: idx, V: "ok", Input: in}
	fail := func(sig, d string) {
		if res.V != "viol" {
			res.V, res.Sig, res.Detail = "viol", sig, d
		}
	}
	if err := w.reset(); err != nil {
		fatal("pkghash: reset:", err)
	}
	isDir := map[string]bool{}
	for _, e := range c.Start {
		if err := w.put(e.N, e.Kind, e.S, e.T); err != nil {
			fatal("pkghash: start entry:", err)
		}
		isDir[e.N] = e.Kind == "dir"
	}
	if len(c.Keys) != len(c.Ops)+1 || len(c.Chg) != len(c.Ops) {
		fatal("pkghash: malformed case", idx)
	}
	prev := w.hash()
	prevKey := keyString(c.Keys[0])
	var nt []string
	var stepSig *[3]string
	check := func(step int, ks, h, what string) {
		if old, ok := w.k2h[ks]; ok && old != h {
			fail("same-key-different-hash", fmt.Sprintf("%s: key {%s} had hash %s before, now %s; history %v", what, ks, old, h, ops))
		} else if !ok {
			w.k2h[ks] = h
		}
		if old, ok := w.h2k[h]; ok && old != ks {
			fail("different-key-same-hash", fmt.Sprintf("%s: hash %s stands for key {%s} and for key {%s}; history %v", what, h, old, ks, ops))
		} else if !ok {
			w.h2k[h] = ks
		}
	}
	check(0, prevKey, prev, "start")
	for i, op := range c.Ops {
		dirOp := isDir[op.N] || op.K == "Mkdir"
		if err := w.apply(op); err != nil {
			fatal("pkghash: executing", opString(op), "of case", idx, ":", err)
		}
		switch op.K {
		case "Mkdir":
			isDir[op.N] = true
		case "Rmdir", "Delete":
			delete(isDir, op.N)
		}
		h := w.hash()
		ks := keyString(c.Keys[i+1])
		keyChanged := ks != prevKey
		if keyChanged != c.Chg[i] {
			// the record's own flag disagrees with its keys: the case file was damaged (not a verdict)
			fatal(fmt.Sprintf("pkghash: malformed case %d, step %d: chg=%v but keys {%s} -> {%s}", idx, i+1, c.Chg[i], prevKey, ks))
		}
		hashChanged := h != prev
		cls := opClass(op, dirOp)
		direction := "spurious-change"
		if c.Chg[i] {
			direction = "missed-change"
		}
		clsOnly := strings.TrimPrefix(cls, op.K+":")
		if op.K == "Rename" { // attribute a rename to its source-file side (for the signature only)
			clsOnly = nameClass(op.N)
			if !sourceName(op.N) && sourceName(op.M) {
				clsOnly = nameClass(op.M)
			}
		}
		phMu.Lock()
		phMark(phSeen, direction, op.K, clsOnly)
		if c.Chg[i] != hashChanged {
			phMark(phViol, direction, op.K, clsOnly)
			if stepSig == nil {
				stepSig = &[3]string{direction, op.K, clsOnly}
			}
		}
		phMu.Unlock()
		switch {
		case c.Chg[i] && !hashChanged:
			fail("missed-change:"+cls, fmt.Sprintf("step %d %s changes the sources {%s} -> {%s} but PkgHash stays %s; history %v",
				i+1, opString(op), prevKey, ks, h, ops))
		case !c.Chg[i] && hashChanged:
			fail("spurious-change:"+cls, fmt.Sprintf("step %d %s leaves the sources {%s} untouched but PkgHash changes %s -> %s; history %v",
				i+1, opString(op), ks, prev, h, ops))
		}
		check(i+1, ks, h, fmt.Sprintf("step %d %s", i+1, opString(op)))
		nt = append(nt, fmt.Sprintf("%s=%v", cls, c.Chg[i]))
		prev, prevKey = h, ks
	}
	res.NT = strings.Join(nt, ",")
	if res.V == "ok" {
		res.Detail = fmt.Sprintf("changed=%v final key {%s}", c.Chg, prevKey)
	}
	phMu.Lock()
	if stepSig != nil && res.V == "viol" && (strings.HasPrefix(res.Sig, "missed-change:") || strings.HasPrefix(res.Sig, "spurious-change:")) {
		phStepSig[len(phResults)] = *stepSig
	}
	phResults = append(phResults, res)
	phMu.Unlock()
}
