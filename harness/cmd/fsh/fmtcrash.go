package main

// C26 -- xgo fmt crash safety and permission bits (cmd/internal/gopfmt/fmt.go).
//
//	fsh fmt-record  < scenario CASE records (specs/fs/FmtCrash.tla, ExportScenario)
//	    runs the real binary ($VERIF_XGO_BIN) under strace on every scenario, fault-free and with one
//	    error injected per FS-mutating system call, abstracts the calls to the step records of
//	    FmtCrash.tla and writes fmt_traces.ndjson (the constant Progs of FmtCrashTrace.tla) and
//	    fmt_meta.ndjson (what the harness needs to re-run a trace: tids, per-thread call counts,
//	    real final directory state).
//	fsh fmt-confirm < state CASE records (specs/fs/FmtCrashTrace.tla, Export: one per trace prefix)
//	    every prefix is a crash point.  The model's state after the prefix is compared with the real
//	    directory after killing the real process (strace kill injection) at the entry of the next
//	    call; the verdict is the property evaluated on the REAL directory.  A violating prefix of the
//	    model that the real process does not reproduce is reported as "unrepro" (exit 2 upstream).

import (
	"bytes"
	"encoding/json"
	"fmt"
	goformat "go/format"
	"go/parser"
	"go/token"
	"os"
	"os/exec"
	"path/filepath"
	"sort"
	"strconv"
	"strings"
	"sync"
	"sync/atomic"
	"syscall"
	"time"

	"github.com/goplus/xgo/format"
	xformat "github.com/goplus/xgo/x/format"

	"verifharness/hlib"
)

type scenario struct {
	Ext   string `json:"ext"`   // xgo | gox | go
	Mode  int    `json:"mode"`  // permission bits as a number (0644 octal = 420)
	Form  string `json:"form"`  // file-nodir | file-dir | walk-dot | walk-dir
	Flags string `json:"flags"` // plain | smart | smart-mvgo
	Xdev  bool   `json:"xdev"`  // $TMPDIR on another device
	Link  string `json:"link"`  // none | abs | rel : the path is a symbolic link to the source file
}

// modeStr renders a mode number of the model / of stat (4096 = no file).
func modeStr(m int) string {
	if m < 0 || m >= 4096 {
		return "-"
	}
	return fmt.Sprintf("%04o", m)
}

func (s scenario) String() string {
	x := ""
	if s.Xdev {
		x = ",xdev"
	}
	if s.Link != "" && s.Link != "none" {
		x += ",symlink-" + s.Link
	}
	return fmt.Sprintf("%s,%s,%s,%s%s", s.Ext, modeStr(s.Mode), s.Form, s.Flags, x)
}

type step struct {
	Sys   string `json:"sys"`
	Op    string `json:"op"`
	P     string `json:"p"`
	Q     string `json:"q"`
	H     int    `json:"h"`
	Mode  int    `json:"mode"` // as passed to the call (the model applies the umask for open/creat)
	N     int    `json:"n"`
	Match bool   `json:"match"`
	Creat bool   `json:"creat"`
	Trunc bool   `json:"trunc"`
	Res   string `json:"res"`
	Errno string `json:"errno"`
	Next  int    `json:"next"`
	Onerr int    `json:"onerr"`
}

type traceProg struct {
	ID       int      `json:"id"`
	Name     string   `json:"name"`
	Mv       bool     `json:"mv"`
	Xdev     bool     `json:"xdev"`
	Link     string   `json:"link"`
	OrigMode int      `json:"origMode"`
	NewLen   int      `json:"newLen"`
	Sc       scenario `json:"sc"`
	Inject   string   `json:"inject"`
	Steps    []step   `json:"steps"`
}

type dirState struct {
	Target string `json:"target"`
	TMode  string `json:"tmode"`
	Moved  string `json:"moved"`
	MMode  string `json:"mmode"`
	Tmp    string `json:"tmp"`
	Tmpx   string `json:"tmpx"`
	Real   string `json:"real"` // the file a symbolic link at the path points to
	RMode  string `json:"rmode"`
	TLink  bool   `json:"tlink"` // the path itself is (still) a symbolic link
}

type injectSpec struct {
	Sys   string `json:"sys"`
	Event int    `json:"event"` // 0-based index of the FS event the injection must hit
	Kind  string `json:"kind"`  // "kill" | "error"
	Errno string `json:"errno"`
	N     int    `json:"n"` // per-thread invocation count that worked / is tried first
	MaxN  int    `json:"maxn"`
}

type traceMeta struct {
	ID       int          `json:"id"`
	Sc       scenario     `json:"sc"`
	Injects  []injectSpec `json:"injects"`
	Exit     int          `json:"exit"`
	Final    dirState     `json:"final"`
	Shape    string       `json:"shape"`
	Class    string       `json:"class"`
	KillN    []int        `json:"killn"`  // per event: per-thread count of that syscall name before it, +1
	KillMax  []int        `json:"killmax"`
	ModeFrom int          `json:"modefrom"`
	LibSame  bool         `json:"libsame"`
	New      string       `json:"new"` // the complete formatted text of the scenario
}

const (
	okExit   = 1000
	failExit = 1001
)

var (
	xgoBin    string
	workRoot  string
	workSeq   int64
	shmDevOK  bool
	shmBase   string
	traceSys  = "openat,open,creat,write,pwrite64,writev,close,fchmod,fchmodat,chmod,rename,renameat,renameat2,unlink,unlinkat,rmdir,ftruncate,truncate,link,linkat,symlink,symlinkat,mkdir,mkdirat,fsync,fdatasync,clone,clone3,fork,vfork"
)

func sampleSource(ext string) string {
	switch ext {
	case "go":
		return "package main\nimport \"fmt\"\nfunc  main( ) {\nfmt.Println(\"hi\")\n}\n"
	case "gox":
		return "var (\n  x int\n)\nfunc  f( ) {\nprintln( x )\n}\n"
	}
	return "import \"fmt\"\nfunc  main( ) {\nfmt.Println(\"hi\")\n}\n"
}

// libFormat is what gopfmt.gopfmt computes before it writes (same library calls, in-process).
func libFormat(sc scenario, path string, src []byte) ([]byte, error) {
	ext := "." + sc.Ext
	smartFlag := sc.Flags != "plain"
	mvgo := sc.Flags == "smart-mvgo"
	class := ext == ".gox"
	smart := smartFlag && (mvgo || ext != ".go")
	if smart {
		return xformat.GopstyleSource(src, path)
	}
	if !mvgo && ext == ".go" {
		fset := token.NewFileSet()
		f, err := parser.ParseFile(fset, path, src, parser.ParseComments)
		if err != nil {
			return nil, err
		}
		var buf bytes.Buffer
		if err = goformat.Node(&buf, fset, f); err != nil {
			return nil, err
		}
		return buf.Bytes(), nil
	}
	return format.Source(src, class, path)
}

type runEnv struct {
	root, w, tmpdir   string
	target, moved     string // absolute
	real              string // absolute: referent of the symbolic link at target ("" when target is a regular file)
	targetRel, arg    string
	orig              []byte
	sc                scenario
}

func setupRun(sc scenario) (*runEnv, error) {
	n := atomic.AddInt64(&workSeq, 1)
	e := &runEnv{sc: sc}
	e.root = filepath.Join(workRoot, fmt.Sprintf("r%d", n))
	e.w = filepath.Join(e.root, "w")
	e.tmpdir = filepath.Join(e.root, "tmpdir")
	if sc.Xdev {
		e.tmpdir = filepath.Join(shmBase, fmt.Sprintf("r%d", n))
	}
	name := "a." + sc.Ext
	switch sc.Form {
	case "file-nodir":
		e.targetRel, e.arg = name, name
	case "file-dir":
		e.targetRel, e.arg = "sub/"+name, "sub/"+name
	case "walk-dot":
		e.targetRel, e.arg = name, "."
	case "walk-dir":
		e.targetRel, e.arg = "sub/"+name, "sub"
	default:
		return nil, fmt.Errorf("unknown form %q", sc.Form)
	}
	e.target = filepath.Join(e.w, e.targetRel)
	e.moved = strings.TrimSuffix(e.target, ".go") + ".xgo"
	if sc.Ext != "go" {
		e.moved = e.target + ".moved-unused"
	}
	for _, d := range []string{filepath.Dir(e.target), e.tmpdir} {
		if err := os.MkdirAll(d, 0755); err != nil {
			return nil, err
		}
	}
	e.orig = []byte(sampleSource(sc.Ext))
	file := e.target
	e.real = filepath.Join(e.w, "real", name) + ".unused"
	if sc.Link == "abs" || sc.Link == "rel" {
		// the path handed to xgo fmt is a symbolic link; the source file lives in another directory
		e.real = filepath.Join(e.w, "real", name)
		if err := os.MkdirAll(filepath.Dir(e.real), 0755); err != nil {
			return nil, err
		}
		file = e.real
		to := e.real
		if sc.Link == "rel" {
			var err error
			if to, err = filepath.Rel(filepath.Dir(e.target), e.real); err != nil {
				return nil, err
			}
		}
		if err := os.Symlink(to, e.target); err != nil {
			return nil, err
		}
	}
	if err := os.WriteFile(file, e.orig, 0600); err != nil {
		return nil, err
	}
	if err := os.Chmod(file, os.FileMode(sc.Mode)); err != nil {
		return nil, err
	}
	return e, nil
}

func (e *runEnv) cleanup() {
	os.RemoveAll(e.root)
	if e.sc.Xdev {
		os.RemoveAll(e.tmpdir)
	}
}

// run executes the real binary under strace with the given injections.
func (e *runEnv) run(injects []injectSpec) (*straceLog, error) {
	logf := filepath.Join(e.root, "strace.log")
	args := []string{"-f", "-q", "-s", "1048576", "-e", "signal=none", "-e", "trace=" + traceSys}
	for _, in := range injects {
		if in.Kind == "kill" {
			args = append(args, "-e", fmt.Sprintf("inject=%s:signal=KILL:when=%d", in.Sys, in.N))
		} else {
			args = append(args, "-e", fmt.Sprintf("inject=%s:error=%s:when=%d", in.Sys, in.Errno, in.N))
		}
	}
	args = append(args, "-o", logf, xgoBin, "fmt")
	switch e.sc.Flags {
	case "smart":
		args = append(args, "--smart")
	case "smart-mvgo":
		args = append(args, "--smart", "--mvgo")
	}
	args = append(args, e.arg)
	cmd := exec.Command("strace", args...)
	cmd.Dir = e.w
	cmd.SysProcAttr = &syscall.SysProcAttr{Setpgid: true}
	env := []string{}
	for _, kv := range os.Environ() {
		if strings.HasPrefix(kv, "TMPDIR=") || strings.HasPrefix(kv, "GOMAXPROCS=") {
			continue
		}
		env = append(env, kv)
	}
	cmd.Env = append(env, "TMPDIR="+e.tmpdir)
	var out bytes.Buffer
	cmd.Stdout, cmd.Stderr = &out, &out
	if err := cmd.Start(); err != nil {
		return nil, err
	}
	done := make(chan error, 1)
	go func() { done <- cmd.Wait() }()
	// time-outs only decide when an attempt is given up (never a verdict); they follow the duration of the
	// fault-free runs measured on this machine under the current load
	to := runTimeout
	if d := time.Duration(atomic.LoadInt64(&slowestRun)); 25*d > to {
		to = 25 * d
	}
	for _, in := range injects {
		if in.Kind == "error" && in.Sys == "close" {
			to = to / 4 // a close skipped at the wrong place (a pipe of os/exec) blocks the run for ever
		}
	}
	t0 := time.Now()
	select {
	case <-done:
	case <-time.After(to):
		// strace and its tracees form the process group of strace
		syscall.Kill(-cmd.Process.Pid, syscall.SIGKILL)
		cmd.Process.Kill()
		<-done
		return nil, errTimeout
	}
	if len(injects) == 0 {
		if d := int64(time.Since(t0)); d > atomic.LoadInt64(&slowestRun) {
			atomic.StoreInt64(&slowestRun, d)
		}
	}
	lg, err := parseStraceFile(logf)
	if err != nil {
		return nil, fmt.Errorf("strace log: %v (%s)", err, out.String())
	}
	// strace exits with the status of the traced command, or kills itself with the same signal
	if ws, ok := cmd.ProcessState.Sys().(syscall.WaitStatus); ok {
		if ws.Signaled() {
			lg.KilledBy = "SIG" + strings.ToUpper(strings.TrimPrefix(ws.Signal().String(), "signal "))
			if ws.Signal() == syscall.SIGKILL {
				lg.KilledBy = "SIGKILL"
			}
			lg.ExitCode = -1
		} else {
			lg.KilledBy = ""
			lg.ExitCode = ws.ExitStatus()
		}
	}
	if lg.MainTid == 0 {
		return nil, fmt.Errorf("empty strace log: %s", out.String())
	}
	return lg, nil
}

// ---------------------------------------------------------------------------------------------
// strace calls -> FS events (steps of FmtCrash.tla)

type fsEvent struct {
	step
	Tid     int
	CallIdx int
	Killed  bool
	Inj     bool
	Other   string // not representable: reason
}

func (e *runEnv) role(p string) string {
	if !filepath.IsAbs(p) {
		p = filepath.Join(e.w, p)
	}
	p = filepath.Clean(p)
	switch {
	case p == e.target:
		return "target"
	case p == e.moved:
		return "moved"
	case p == e.real:
		return "real"
	case filepath.Dir(p) == filepath.Dir(e.target):
		return "tmp"
	case strings.HasPrefix(p, e.tmpdir+"/"), strings.HasPrefix(p, e.root+"/"):
		return "tmpx"
	}
	return ""
}

func octal(s string) int {
	s = strings.TrimSpace(s)
	n, err := strconv.ParseUint(s, 8, 32)
	if err != nil {
		return 4096
	}
	return int(n & 0o7777)
}

func (e *runEnv) events(lg *straceLog, expect []byte) []fsEvent {
	var evs []fsEvent
	fds := map[int]int{}      // fd -> handle
	hrole := map[int]string{} // handle -> role at open time
	hoff := map[int]int{}
	roles := map[string]string{} // role -> concrete path
	nh := 0
	checkRole := func(r, p string) string {
		if !filepath.IsAbs(p) {
			p = filepath.Join(e.w, p)
		}
		p = filepath.Clean(p)
		if old, ok := roles[r]; ok && old != p {
			return "two different paths in role " + r
		}
		roles[r] = p
		return ""
	}
	strArg := func(a string) string { s, _ := cUnquote(a); return s }
	for ci, c := range lg.Calls {
		if !lg.Threads[c.Tid] {
			continue
		}
		ev := fsEvent{Tid: c.Tid, CallIdx: ci, Killed: c.Killed, Inj: c.Injected}
		ev.Sys = c.Name
		ev.Res = "ok"
		if c.Ret == "-1" {
			ev.Res, ev.Errno = "err", c.Errno
		}
		if c.Killed {
			ev.Res = "killed"
		}
		use := false
		atPath := func(i int) (string, bool) { // (dirfd, path) pair at args[i], args[i+1]
			if len(c.Args) <= i+1 {
				return "", false
			}
			if c.Args[i] != "AT_FDCWD" {
				p := strArg(c.Args[i+1])
				if filepath.IsAbs(p) {
					return p, true
				}
				return "", false
			}
			return strArg(c.Args[i+1]), true
		}
		switch c.Name {
		case "openat", "open", "creat":
			var p, flags, mode string
			ok := true
			switch c.Name {
			case "openat":
				p, ok = atPath(0)
				if len(c.Args) > 2 {
					flags = c.Args[2]
				}
				if len(c.Args) > 3 {
					mode = c.Args[3]
				}
			case "open":
				p = strArg(c.Args[0])
				if len(c.Args) > 1 {
					flags = c.Args[1]
				}
				if len(c.Args) > 2 {
					mode = c.Args[2]
				}
			case "creat":
				p = strArg(c.Args[0])
				flags = "O_WRONLY|O_CREAT|O_TRUNC"
				if len(c.Args) > 1 {
					mode = c.Args[1]
				}
			}
			if !ok {
				continue
			}
			fl := map[string]bool{}
			for _, f := range strings.Split(flags, "|") {
				fl[strings.TrimSpace(f)] = true
			}
			if !(fl["O_WRONLY"] || fl["O_RDWR"] || fl["O_CREAT"] || fl["O_TRUNC"]) {
				continue
			}
			r := e.role(p)
			if r == "" {
				continue
			}
			use = true
			ev.P = r
			ev.Other = checkRole(r, p)
			ev.Creat, ev.Trunc = fl["O_CREAT"], fl["O_TRUNC"]
			if mode != "" {
				ev.Mode = octal(mode) // as requested: the umask is part of the model (FmtCrash.tla: Umask)
			}
			if fl["O_CREAT"] && fl["O_EXCL"] {
				ev.Op = "CreateExcl"
			} else {
				ev.Op = "Open"
			}
			nh++
			ev.H = nh
			if ev.Res == "ok" {
				fd, _ := strconv.Atoi(c.Ret)
				fds[fd] = nh
				hrole[nh] = r
			}
		case "write", "pwrite64", "writev":
			fd, _ := strconv.Atoi(c.Args[0])
			h, ok := fds[fd]
			if !ok {
				continue
			}
			use = true
			ev.Op, ev.H = "Write", h
			if c.Name != "write" {
				ev.Other = "unsupported write variant " + c.Name
			}
			if ev.Res == "ok" {
				n, _ := strconv.Atoi(c.Ret)
				ev.N = n
				data, full := cUnquote(c.Args[1])
				off := hoff[h]
				ev.Match = full && n <= len(data) && off+n <= len(expect) && expect != nil &&
					string(expect[off:off+n]) == data[:n]
				hoff[h] = off + n
			}
		case "close", "fsync", "fdatasync":
			fd, _ := strconv.Atoi(c.Args[0])
			h, ok := fds[fd]
			if !ok {
				continue
			}
			use = true
			ev.H = h
			if c.Name == "close" {
				ev.Op = "Close"
				if !c.Killed {
					delete(fds, fd)
				}
			} else {
				ev.Op = "Sync"
			}
		case "fchmod":
			fd, _ := strconv.Atoi(c.Args[0])
			h, ok := fds[fd]
			if !ok {
				continue
			}
			use = true
			ev.Op, ev.H, ev.Mode = "Chmod", h, octal(c.Args[1])
		case "fchmodat", "chmod":
			var p string
			ok := true
			mi := 1
			if c.Name == "fchmodat" {
				p, ok = atPath(0)
				mi = 2
			} else {
				p = strArg(c.Args[0])
			}
			r := e.role(p)
			if !ok || r == "" {
				continue
			}
			use = true
			ev.Op, ev.P, ev.Mode = "Chmod", r, octal(c.Args[mi])
			ev.Other = checkRole(r, p)
		case "unlink", "unlinkat", "rmdir":
			var p string
			ok := true
			if c.Name == "unlinkat" {
				p, ok = atPath(0)
			} else {
				p = strArg(c.Args[0])
			}
			r := e.role(p)
			if !ok || r == "" {
				continue
			}
			use = true
			ev.Op, ev.P = "Unlink", r
			ev.Other = checkRole(r, p)
			if ev.Res == "ok" {
				delete(roles, r)
			}
		case "rename", "renameat", "renameat2":
			var p, q string
			ok1, ok2 := true, true
			if c.Name == "rename" {
				p, q = strArg(c.Args[0]), strArg(c.Args[1])
			} else {
				p, ok1 = atPath(0)
				q, ok2 = atPath(2)
			}
			r1, r2 := e.role(p), e.role(q)
			if !ok1 || !ok2 || (r1 == "" && r2 == "") {
				continue
			}
			use = true
			ev.Op, ev.P, ev.Q = "Rename", r1, r2
			if r1 == "" || r2 == "" {
				ev.Other = "rename across the watched directories' boundary"
			} else if m := checkRole(r1, p); m != "" {
				ev.Other = m
			}
			if c.Name == "renameat2" && len(c.Args) > 4 && strings.TrimSpace(c.Args[4]) != "0" {
				ev.Other = "renameat2 flags " + c.Args[4]
			}
			if ev.Res == "ok" && ev.Other == "" {
				delete(roles, r1)
				if !filepath.IsAbs(q) {
					q = filepath.Join(e.w, q)
				}
				roles[r2] = filepath.Clean(q)
			}
		case "ftruncate":
			fd, _ := strconv.Atoi(c.Args[0])
			h, ok := fds[fd]
			if !ok {
				continue
			}
			use = true
			ev.Op, ev.H, ev.Other = "Other", h, "ftruncate"
		case "truncate", "link", "linkat", "symlink", "symlinkat", "mkdir", "mkdirat":
			hit := false
			for _, a := range c.Args {
				if strings.HasPrefix(a, "\"") && e.role(strArg(a)) != "" {
					hit = true
				}
			}
			if !hit {
				continue
			}
			use = true
			ev.Op, ev.Other = "Other", c.Name
		default:
			continue
		}
		if use {
			evs = append(evs, ev)
		}
	}
	return evs
}

var umask = 0o022

var slowestRun int64 // duration (ns) of the slowest fault-free run seen so far

var (
	errTimeout = fmt.Errorf("xgo fmt timed out under strace")
	runTimeout = 40 * time.Second
)

func shapeOf(evs []fsEvent) string {
	var b []string
	for _, ev := range evs {
		s := ev.Sys + ":" + ev.Op
		if ev.P != "" {
			s += ":" + ev.P
		}
		if ev.Q != "" {
			s += ">" + ev.Q
		}
		if ev.Res == "err" {
			s += "=" + ev.Errno
		}
		b = append(b, s)
	}
	return strings.Join(b, " ")
}

// classify names the design the fault-free program follows (evidence only).
func classify(evs []fsEvent) string {
	var ops []string
	for _, ev := range evs {
		o := ev.Op
		if ev.Op == "CreateExcl" || ev.Op == "Open" || ev.Op == "Unlink" {
			o += "(" + ev.P + ")"
		}
		if ev.Op == "Rename" {
			o += "(" + ev.P + ">" + ev.Q + ")"
		}
		if ev.Op == "Write" && len(ops) > 0 && ops[len(ops)-1] == "Write" {
			continue
		}
		ops = append(ops, o)
	}
	s := strings.Join(ops, " ")
	switch s {
	case "CreateExcl(tmp) Write Close Unlink(target) Rename(tmp>target)",
		"CreateExcl(tmpx) Write Close Unlink(target) Rename(tmpx>target)":
		return "current"
	case "CreateExcl(tmp) Write Chmod Close Rename(tmp>target)":
		return "fixed"
	case "Open(moved) Write Close Unlink(target)":
		return "mvgo"
	}
	return "other: " + s
}

func fileState(p string, orig, neu []byte) (string, string) {
	st, err := os.Stat(p) // what is seen THROUGH the path: symbolic links are followed
	if err != nil {
		return "absent", "-"
	}
	mode := fmt.Sprintf("%04o", uint32(st.Mode().Perm())|specialBits(st.Mode()))
	b, err := os.ReadFile(p)
	if err != nil {
		return "partial", mode
	}
	switch {
	case bytes.Equal(b, orig):
		return "orig", mode
	case neu != nil && bytes.Equal(b, neu):
		return "new", mode
	}
	return "partial", mode
}

func specialBits(m os.FileMode) uint32 {
	var r uint32
	if m&os.ModeSetuid != 0 {
		r |= 0o4000
	}
	if m&os.ModeSetgid != 0 {
		r |= 0o2000
	}
	if m&os.ModeSticky != 0 {
		r |= 0o1000
	}
	return r
}

func (e *runEnv) inspect(neu []byte) dirState {
	var d dirState
	d.Target, d.TMode = fileState(e.target, e.orig, neu)
	d.Moved, d.MMode = fileState(e.moved, e.orig, neu)
	d.Real, d.RMode = fileState(e.real, e.orig, neu)
	if li, err := os.Lstat(e.target); err == nil && li.Mode()&os.ModeSymlink != 0 {
		d.TLink = true
	}
	d.Tmp, d.Tmpx = "absent", "absent"
	if ents, err := os.ReadDir(filepath.Dir(e.target)); err == nil {
		for _, en := range ents {
			p := filepath.Join(filepath.Dir(e.target), en.Name())
			if p == e.target || p == e.moved || p == e.real || en.IsDir() {
				continue
			}
			d.Tmp, _ = fileState(p, e.orig, neu)
		}
	}
	if ents, err := os.ReadDir(e.tmpdir); err == nil {
		for _, en := range ents {
			d.Tmpx, _ = fileState(filepath.Join(e.tmpdir, en.Name()), e.orig, neu)
		}
	}
	return d
}

func durableReal(d dirState, mv bool) bool {
	if d.Target == "orig" || d.Target == "new" {
		return true
	}
	return mv && d.Target == "absent" && d.Moved == "new"
}

// ---------------------------------------------------------------------------------------------
// injection with verification: the per-thread invocation counter of strace is tried from the value
// seen in the reference run; the log of the injected run must show the injection at event #Event.

func killCounts(lg *straceLog, evs []fsEvent) ([]int, []int) {
	n := make([]int, len(evs))
	mx := make([]int, len(evs))
	for i, ev := range evs {
		cnt, tot := 0, 0
		for ci, c := range lg.Calls {
			if c.Name != ev.Sys || !lg.Threads[c.Tid] {
				continue
			}
			tot++
			if ci < ev.CallIdx && c.Tid == ev.Tid {
				cnt++
			}
		}
		n[i], mx[i] = cnt+1, tot
	}
	return n, mx
}

func sameStruct(a, b fsEvent) bool {
	return a.Sys == b.Sys && a.Op == b.Op && a.P == b.P && a.Q == b.Q
}

// runInjected re-runs the scenario until every injection hits its event; refShape are the events
// (structure) expected before each injection point.
// The per-thread counter of strace makes `when=N` depend on which OS thread runs the main goroutine;
// a call that occurs once in the whole run is hit deterministically with when=1 ("first invocation of
// every thread"), for the others the values that worked before are tried first (learned histogram).
var (
	hitMu   sync.Mutex
	hitHist = map[string]map[int]int{}
	injectRuns int64
)

// shortList: the counter values that are plausible for this injection (learned from earlier hits, most
// frequent first, then the value seen in the reference run); fullList: every value.
func shortList(in injectSpec) []int {
	if in.MaxN == 1 {
		return []int{1}
	}
	key := fmt.Sprintf("%s#%d", in.Sys, in.Event)
	hitMu.Lock()
	h := hitHist[key]
	type kv struct{ n, c int }
	var ks []kv
	for n, c := range h {
		ks = append(ks, kv{n, c})
	}
	hitMu.Unlock()
	sort.Slice(ks, func(i, j int) bool {
		if ks[i].c != ks[j].c {
			return ks[i].c > ks[j].c
		}
		return ks[i].n < ks[j].n
	})
	var out []int
	seen := map[int]bool{}
	for _, k := range ks {
		if !seen[k.n] {
			seen[k.n] = true
			out = append(out, k.n)
		}
	}
	if in.N >= 1 && !seen[in.N] {
		out = append(out, in.N)
	}
	return out
}

func fullList(in injectSpec) []int {
	if in.MaxN == 1 {
		return []int{1}
	}
	var out []int
	for n := 1; n <= in.MaxN+2; n++ {
		out = append(out, n)
	}
	return out
}

// product enumerates the cartesian product of the lists (last list fastest).
func product(lists [][]int) [][]int {
	out := [][]int{{}}
	for _, l := range lists {
		var nxt [][]int
		for _, p := range out {
			for _, v := range l {
				nxt = append(nxt, append(append([]int{}, p...), v))
			}
		}
		out = nxt
	}
	return out
}

// attemptPlan: which counter values to try, in which order: the plausible combinations several times
// (the thread that runs the main goroutine changes from run to run), then every value of one injection
// at a time with plausible values for the others, again and again up to maxTry attempts.
func attemptPlan(injects []injectSpec, maxTry int) [][]int {
	short := make([][]int, len(injects))
	for i, in := range injects {
		short[i] = shortList(in)
	}
	var plan [][]int
	base := product(short)
	for r := 0; r < 4; r++ {
		plan = append(plan, base...)
	}
	for len(plan) < maxTry {
		n0 := len(plan)
		for i := range injects {
			lists := append([][]int{}, short...)
			lists[i] = fullList(injects[i])
			plan = append(plan, product(lists)...)
		}
		plan = append(plan, base...)
		if len(plan) == n0 {
			break
		}
	}
	if len(plan) > maxTry {
		plan = plan[:maxTry]
	}
	return plan
}

func runInjected(sc scenario, injects []injectSpec, ref []step, expect []byte, maxTry int) (*runEnv, *straceLog, []fsEvent, error) {
	// strace counts `when=N` per thread, so the N that worked in an earlier run is only a first guess --
	// for every injection of the list, not only the last one
	last := len(injects) - 1
	plan := attemptPlan(injects, maxTry)
	var lastErr error
	for _, ns := range plan {
		for i := range injects {
			injects[i].N = ns[i]
		}
		e, err := setupRun(sc)
		if err != nil {
			return nil, nil, nil, err
		}
		lg, err := e.run(injects)
		if err == errTimeout { // an injection that hit another call (e.g. of the `go env` child) can hang the run
			e.cleanup()
			lastErr = err
			atomic.AddInt64(&injectRuns, 1)
			continue
		}
		if err != nil {
			e.cleanup()
			return nil, nil, nil, err
		}
		evs := e.events(lg, expect)
		ok := true
		for _, in := range injects {
			if in.Event >= len(evs) {
				ok = false
				break
			}
			ev := evs[in.Event]
			if in.Kind == "kill" && !ev.Killed {
				ok = false
			}
			if in.Kind == "error" && !(ev.Inj && ev.Errno == in.Errno) {
				ok = false
			}
			if ev.Sys != in.Sys {
				ok = false
			}
		}
		if ok && ref != nil {
			for i := 0; i < injects[last].Event && i < len(ref); i++ {
				if evs[i].Sys != ref[i].Sys || evs[i].Op != ref[i].Op || evs[i].P != ref[i].P || evs[i].Res != ref[i].Res {
					ok = false
				}
			}
		}
		atomic.AddInt64(&injectRuns, 1)
		if ok {
			hitMu.Lock()
			for _, in := range injects {
				key := fmt.Sprintf("%s#%d", in.Sys, in.Event)
				if hitHist[key] == nil {
					hitHist[key] = map[int]int{}
				}
				hitHist[key][in.N]++
			}
			hitMu.Unlock()
			return e, lg, evs, nil
		}
		lastErr = fmt.Errorf("injection %v did not hit event %d (got %s)", injects[last], injects[last].Event, shapeOf(evs))
		e.cleanup()
	}
	return nil, nil, nil, lastErr
}

func errnoFor(op, p string) string {
	switch op {
	case "CreateExcl", "Open":
		return "EACCES"
	case "Write":
		return "ENOSPC"
	case "Close", "Sync":
		return "EIO"
	case "Chmod":
		return "EPERM"
	case "Unlink":
		return "EACCES"
	case "Rename":
		return "EXDEV"
	}
	return "EIO"
}

func toSteps(evs []fsEvent, exit int) []step {
	var st []step
	for i, ev := range evs {
		if ev.Killed {
			break
		}
		s := ev.step
		if ev.Other != "" {
			s.Op = "Other"
		}
		s.Next, s.Onerr = i+2, i+2
		st = append(st, s)
	}
	if len(st) > 0 {
		x := okExit
		if exit != 0 {
			x = failExit
		}
		st[len(st)-1].Next, st[len(st)-1].Onerr = x, x
	}
	return st
}

type recorded struct {
	prog traceProg
	meta traceMeta
}

func recordScenario(sc scenario, withFaults bool) ([]recorded, []hlib.Result, error) {
	var out []recorded
	var notes []hlib.Result
	if sc.Xdev && !shmDevOK {
		notes = append(notes, hlib.Result{V: "skip", Detail: "no second device for $TMPDIR", Input: sc.String()})
		return nil, notes, nil
	}
	// reference (fault-free) run
	e, err := setupRun(sc)
	if err != nil {
		return nil, nil, err
	}
	lg, err := e.run(nil)
	if err != nil {
		e.cleanup()
		return nil, nil, err
	}
	// the formatted text: what the library computes (in-process, tree under test) ...
	lib, lerr := libFormat(sc, e.targetRel, e.orig)
	if lerr != nil || bytes.Equal(lib, e.orig) {
		e.cleanup()
		return nil, nil, fmt.Errorf("scenario %s: sample is not reformattable in-process (%v)", sc, lerr)
	}
	mv := sc.Flags == "smart-mvgo"
	// ... which must be what a clean run leaves behind; if the run left something else that is not the
	// original either, the observed bytes are used as "new" and the difference is reported as drift.
	neu := lib
	libSame := true
	if lg.ExitCode == 0 && lg.KilledBy == "" {
		fp := e.target
		if mv {
			fp = e.moved
		}
		if b, err := os.ReadFile(fp); err == nil && !bytes.Equal(b, lib) && !bytes.Equal(b, e.orig) {
			libSame, neu = false, b
		}
	}
	evs := e.events(lg, neu)
	final := e.inspect(neu)
	kn, kmax := killCounts(lg, evs)
	base := recorded{
		prog: traceProg{Name: "trace", Mv: mv, Xdev: sc.Xdev, Link: linkOf(sc), OrigMode: sc.Mode, NewLen: len(neu), Sc: sc, Inject: "none",
			Steps: toSteps(evs, lg.ExitCode)},
		meta: traceMeta{Sc: sc, Exit: lg.ExitCode, Final: final, Shape: shapeOf(evs), Class: classify(evs),
			KillN: kn, KillMax: kmax, ModeFrom: sc.Mode, LibSame: libSame, New: string(neu)},
	}
	e.cleanup()
	if lg.KilledBy != "" {
		return nil, nil, fmt.Errorf("scenario %s: reference run killed by %s", sc, lg.KilledBy)
	}
	if len(evs) == 0 {
		return nil, nil, fmt.Errorf("scenario %s: no file-system event observed (exit %d)", sc, lg.ExitCode)
	}
	out = append(out, base)
	if !withFaults {
		return out, notes, nil
	}
	// one error injected per FS event
	for j, ev := range evs {
		if ev.Res != "ok" || ev.Other != "" {
			continue
		}
		in := injectSpec{Sys: ev.Sys, Event: j, Kind: "error", Errno: errnoFor(ev.Op, ev.P), N: kn[j], MaxN: kmax[j]}
		ins := []injectSpec{in}
		e2, lg2, evs2, err := runInjected(sc, ins, base.prog.Steps, neu, 40)
		if err != nil {
			notes = append(notes, hlib.Result{V: "skip", Sig: "inject-failed", Detail: err.Error(), Input: sc.String()})
			continue
		}
		kn2, kmax2 := killCounts(lg2, evs2)
		r := recorded{
			prog: traceProg{Name: "trace", Mv: mv, Xdev: sc.Xdev, Link: linkOf(sc), OrigMode: sc.Mode, NewLen: len(neu), Sc: sc,
				Inject: fmt.Sprintf("%s#%d=%s", ev.Sys, j, in.Errno), Steps: toSteps(evs2, lg2.ExitCode)},
			meta: traceMeta{Sc: sc, Injects: ins, Exit: lg2.ExitCode, Final: e2.inspect(neu), Shape: shapeOf(evs2),
				Class: base.meta.Class, KillN: kn2, KillMax: kmax2, ModeFrom: sc.Mode, LibSame: libSame, New: string(neu)},
		}
		e2.cleanup()
		out = append(out, r)
	}
	return out, notes, nil
}

// deepScenario: the scenarios that get an error injected at every call and a kill at every crash point
// of every recorded trace.  quick: one per file kind x flags (mode 0644, path with directory) plus one
// without directory component; thorough: every path form with mode 0644, and mode 0444 with directory.
// All other scenarios get the fault-free trace, the final-state/mode check and a kill at every lead.
func linkOf(sc scenario) string {
	if sc.Link == "" {
		return "none"
	}
	return sc.Link
}

func deepScenario(sc scenario) bool {
	if sc.Xdev || linkOf(sc) != "none" {
		return false
	}
	if hlib.Tier() == "thorough" {
		return sc.Mode == 0o644 || (sc.Mode == 0o444 && sc.Form == "file-dir")
	}
	if sc.Mode != 0o644 {
		return false
	}
	return sc.Form == "file-dir" || (sc.Form == "file-nodir" && sc.Ext == "xgo" && sc.Flags == "plain")
}

func initFmt() {
	xgoBin = os.Getenv("VERIF_XGO_BIN")
	if xgoBin == "" {
		fatal("VERIF_XGO_BIN not set")
	}
	cwd, _ := os.Getwd()
	workRoot = filepath.Join(cwd, "fmtw")
	os.MkdirAll(workRoot, 0755)
	syscall.Umask(umask)
	// a second device for the $TMPDIR-on-another-file-system scenarios
	var a, b syscall.Stat_t
	if syscall.Stat("/dev/shm", &a) == nil && syscall.Stat(workRoot, &b) == nil && a.Dev != b.Dev {
		shmBase = fmt.Sprintf("/dev/shm/verif-fsh-%d", os.Getpid())
		if os.MkdirAll(shmBase, 0700) == nil {
			shmDevOK = true
		}
	}
}

func doneFmt() {
	if shmBase != "" {
		os.RemoveAll(shmBase)
	}
}

func fatal(a ...any) {
	fmt.Fprintln(os.Stderr, a...)
	hlib.Flush()
	os.Exit(3)
}

// runFmtRecord: scenarios -> fmt_traces.ndjson + fmt_meta.ndjson
func runFmtRecord() {
	initFmt()
	defer doneFmt()
	var scs []scenario
	seen := map[string]bool{}
	hlib.ForEachCase(func(idx int, c *struct {
		Kind string `json:"kind"`
		scenario
		Sc *scenario `json:"sc"`
	}) {
		s := c.scenario
		if c.Kind == "state" && c.Sc != nil { // replay of one crash point: re-record its scenario
			s = *c.Sc
		} else if c.Kind != "scenario" {
			return
		}
		if !seen[s.String()] {
			seen[s.String()] = true
			scs = append(scs, s)
		}
	})
	sort.Slice(scs, func(i, j int) bool { return scs[i].String() < scs[j].String() })
	results := make([][]recorded, len(scs))
	notes := make([][]hlib.Result, len(scs))
	errs := make([]error, len(scs))
	hlib.Parallel(len(scs), 6, func(i int) {
		sc := scs[i]
		faults := deepScenario(sc) || len(scs) == 1
		results[i], notes[i], errs[i] = recordScenario(sc, faults)
	})
	for i, err := range errs {
		if err != nil {
			fatal("recording", scs[i].String(), ":", err)
		}
	}
	tf, _ := os.Create("fmt_traces.ndjson")
	mf, _ := os.Create("fmt_meta.ndjson")
	defer tf.Close()
	defer mf.Close()
	id := 0
	corrupt := os.Getenv("VERIF_CORRUPT")
	classes := map[string]int{}
	for i := range scs {
		for _, n := range notes[i] {
			hlib.Emit(n)
		}
		for _, r := range results[i] {
			id++
			r.prog.ID, r.meta.ID = id, id
			if corrupt != "" && id == 1 {
				corruptTrace(&r.prog, corrupt)
			}
			b, _ := json.Marshal(r.prog)
			tf.Write(append(b, '\n'))
			b, _ = json.Marshal(r.meta)
			mf.Write(append(b, '\n'))
			if r.prog.Inject == "none" {
				classes[r.meta.Class]++
			}
		}
	}
	hitMu.Lock()
	if hb, err := json.Marshal(hitHist); err == nil {
		os.WriteFile("fmt_hist.json", hb, 0644)
	}
	hitMu.Unlock()
	os.WriteFile("fmt_calib.txt", []byte(strconv.FormatInt(atomic.LoadInt64(&slowestRun), 10)), 0644)
	hlib.EmitRaw(map[string]any{"v": "summary", "traces_recorded": id, "scenarios": len(scs), "record_inject_attempts": atomic.LoadInt64(&injectRuns)})
	hlib.EmitRaw(map[string]any{"v": "summary", "program_classes": classes})
}

// corruptTrace damages one recorded field (binding demonstration, VERIF_CORRUPT=mode|res|order).
func corruptTrace(p *traceProg, how string) {
	switch how {
	case "mode":
		for i := range p.Steps {
			if p.Steps[i].Op == "CreateExcl" || p.Steps[i].Op == "Open" || p.Steps[i].Op == "Chmod" {
				p.Steps[i].Mode = 0o640
			}
		}
	case "res":
		for i := range p.Steps {
			if p.Steps[i].Op == "Rename" || p.Steps[i].Op == "Unlink" {
				p.Steps[i].Res, p.Steps[i].Errno = "err", "EIO"
				break
			}
		}
	case "order":
		if n := len(p.Steps); n >= 2 {
			a, b := p.Steps[0], p.Steps[1]
			a.Next, a.Onerr, b.Next, b.Onerr = b.Next, b.Onerr, a.Next, a.Onerr
			p.Steps[0], p.Steps[1] = b, a
		}
	}
}

// ---------------------------------------------------------------------------------------------

type stateRec struct {
	Kind       string   `json:"kind"`
	ID         int      `json:"id"`
	K          int      `json:"k"`
	Len        int      `json:"len"`
	Status     string   `json:"status"`
	Target     string   `json:"target"`
	TMode      int      `json:"tmode"`
	TLink      bool     `json:"tlink"`
	Real       string   `json:"real"`
	RMode      int      `json:"rmode"`
	Moved      string   `json:"moved"`
	MMode      int      `json:"mmode"`
	Tmp        string   `json:"tmp"`
	Tmpx       string   `json:"tmpx"`
	Durable    bool     `json:"durable"`
	ModeKept   bool     `json:"modeKept"`
	MvModeKept bool     `json:"mvModeKept"`
	Sc         scenario `json:"sc"`
	Inject     string   `json:"inject"`
	idx        int
}

func (s stateRec) dir() dirState {
	return dirState{Target: s.Target, TMode: modeStr(s.TMode), Moved: s.Moved, MMode: modeStr(s.MMode), Tmp: s.Tmp, Tmpx: s.Tmpx,
		Real: s.Real, RMode: modeStr(s.RMode), TLink: s.TLink}
}

func sysLabel(st step) string {
	if st.Res == "err" {
		return st.Sys + "=" + st.Errno
	}
	return st.Sys
}

func windowSig(steps []step, k int, state string) string {
	before, after := "start", "exit"
	if k > 0 {
		before = sysLabel(steps[k-1])
	}
	if k < len(steps) {
		after = steps[k].Sys
	}
	return fmt.Sprintf("crash-window:%s/%s:%s", before, after, state)
}

func runFmtConfirm() {
	initFmt()
	defer doneFmt()
	progs := map[int]*traceProg{}
	metas := map[int]*traceMeta{}
	readND("fmt_traces.ndjson", func(b []byte) {
		var p traceProg
		if json.Unmarshal(b, &p) == nil {
			progs[p.ID] = &p
		}
	})
	readND("fmt_meta.ndjson", func(b []byte) {
		var m traceMeta
		if json.Unmarshal(b, &m) == nil {
			metas[m.ID] = &m
		}
	})
	if hb, err := os.ReadFile("fmt_hist.json"); err == nil {
		json.Unmarshal(hb, &hitHist)
	}
	if cb, err := os.ReadFile("fmt_calib.txt"); err == nil {
		if n, err := strconv.ParseInt(strings.TrimSpace(string(cb)), 10, 64); err == nil {
			atomic.StoreInt64(&slowestRun, n)
		}
	}
	byTrace := map[int][]stateRec{}
	hlib.ForEachCase(func(idx int, c *stateRec) {
		if c.Kind != "state" {
			return
		}
		c.idx = idx
		byTrace[c.ID] = append(byTrace[c.ID], *c)
	})
	ids := make([]int, 0, len(progs))
	for id := range progs {
		ids = append(ids, id)
	}
	sort.Ints(ids)
	tier := hlib.Tier()
	scSeen := map[string]bool{}
	for _, p := range progs {
		scSeen[p.Sc.String()] = true
	}
	nScen := len(scSeen)
	var problems []map[string]any
	var pmu sync.Mutex
	problem := func(kind string, id int, detail string) {
		pmu.Lock()
		problems = append(problems, map[string]any{"kind": kind, "trace": id, "scenario": progs[id].Sc.String(),
			"inject": progs[id].Inject, "detail": detail})
		pmu.Unlock()
	}
	var killRuns, unrepro, unexplained, mismatch int64
	confirmed := sync.Map{} // scenario + structural prefix -> already confirmed result
	hlib.Parallel(len(ids), 6, func(ii int) {
		id := ids[ii]
		p, m := progs[id], metas[id]
		recs := byTrace[id]
		sort.Slice(recs, func(i, j int) bool {
			if recs[i].K != recs[j].K {
				return recs[i].K < recs[j].K
			}
			return recs[i].Status == "run" && recs[j].Status != "run"
		})
		in := func(k int) map[string]any {
			return map[string]any{"scenario": p.Sc.String(), "inject": p.Inject, "crash_after_events": k, "program": m.Shape}
		}
		// (1) acceptance: the whole trace is a behaviour of the model
		var fin *stateRec
		maxk := -1
		for i := range recs {
			if recs[i].K > maxk {
				maxk = recs[i].K
			}
			if recs[i].Status == "done" || recs[i].Status == "failed" {
				fin = &recs[i]
			}
		}
		if fin == nil {
			atomic.AddInt64(&unexplained, 1)
			next := "?"
			if maxk+1 <= len(p.Steps) && maxk >= 0 && maxk < len(p.Steps) {
				b, _ := json.Marshal(p.Steps[maxk])
				next = string(b)
			}
			problem("unexplained-event", id, fmt.Sprintf("model explains %d of %d events; first unexplained: %s; trace: %s", maxk, len(p.Steps), next, m.Shape))
			return
		}
		// (2) final state: model vs real directory, then the property on the real directory
		nt := fmt.Sprintf("%s|%s|final", p.Sc.String(), p.Inject)
		res := hlib.Result{Idx: fin.idx, V: "ok", Input: in(len(p.Steps)), NT: nt,
			Detail: fmt.Sprintf("exit=%d real=%+v", m.Exit, m.Final)}
		if fin.dir() != m.Final {
			atomic.AddInt64(&mismatch, 1)
			problem("final-state-mismatch", id, fmt.Sprintf("model %+v, real directory %+v; trace: %s", fin.dir(), m.Final, m.Shape))
		}
		if !durableReal(m.Final, p.Mv) {
			res.V, res.Sig = "viol", windowSig(p.Steps, len(p.Steps), m.Final.Target)
			res.Detail = fmt.Sprintf("scenario %s inject=%s: after the run (exit %d) the target is %s; directory %+v; calls: %s",
				p.Sc, p.Inject, m.Exit, m.Final.Target, m.Final, m.Shape)
		}
		hlib.Emit(res)
		if m.Exit == 0 && durableReal(m.Final, p.Mv) {
			r2 := hlib.Result{Idx: fin.idx, V: "ok", Input: in(len(p.Steps)), NT: nt + "|mode",
				Detail: fmt.Sprintf("mode %s -> %s", modeStr(p.OrigMode), m.Final.TMode)}
			// bit-for-bit comparison of stat(path) before and after (umask 022 is fixed by the harness)
			if !p.Mv && m.Final.TMode != modeStr(p.OrigMode) {
				r2.V, r2.Sig = "viol", fmt.Sprintf("mode-changed:%s->%s", modeStr(p.OrigMode), m.Final.TMode)
				r2.Detail = fmt.Sprintf("scenario %s inject=%s: successful run changed the permission bits %s -> %s; calls: %s",
					p.Sc, p.Inject, modeStr(p.OrigMode), m.Final.TMode, m.Shape)
			} else if p.Mv && m.Final.MMode != modeStr(p.OrigMode) {
				r2.V, r2.Sig = "drift", fmt.Sprintf("mvgo-mode:%s->%s", modeStr(p.OrigMode), m.Final.MMode)
				r2.Detail = "--mvgo creates the .xgo file with 0666&^umask (the file is moved on purpose; not judged by C26)"
			}
			hlib.Emit(r2)
			if !m.LibSame && p.Inject == "none" {
				hlib.Emit(hlib.Result{Idx: fin.idx, V: "drift", Sig: "formatted-text-differs-from-library", Input: in(len(p.Steps)),
					Detail: "the clean run left bytes that are neither the original nor what format.Source/GopstyleSource/go/format compute in-process"})
			}
		}
		// (3) every prefix k < len is a crash point: kill the real process at the entry of event k+1
		for i := range recs {
			r := recs[i]
			if r.Status != "run" || r.K >= len(p.Steps) {
				continue
			}
			lead := !r.Durable
			if !lead && !deepScenario(p.Sc) && nScen > 1 {
				continue // non-violating prefixes are killed for real in the deep scenarios only
			}
			if !lead && tier != "thorough" && p.Inject != "none" {
				continue // quick: of the faulty traces only the violating prefixes
			}
			nxt := p.Steps[r.K]
			var injects []injectSpec
			skip := ""
			for _, x := range m.Injects {
				if x.Event < r.K {
					if x.Sys == nxt.Sys {
						skip = "kill and error injection on the same system call name"
					}
					injects = append(injects, x)
				}
			}
			key := fmt.Sprintf("%s|%d|", p.Sc, r.K)
			for _, s := range p.Steps[:r.K] {
				key += sysLabel(s) + ":" + s.P + ","
			}
			out := hlib.Result{Idx: r.idx, V: "ok", Input: in(r.K), NT: fmt.Sprintf("%s|%s|k=%d", p.Sc.String(), p.Inject, r.K)}
			var real dirState
			if v, ok := confirmed.Load(key); ok {
				real = v.(dirState)
			} else {
				if skip != "" {
					out.V, out.Detail = "skip", skip
					if lead {
						atomic.AddInt64(&unrepro, 1)
						problem("lead-not-injectable", id, fmt.Sprintf("k=%d: %s", r.K, skip))
					}
					hlib.Emit(out)
					continue
				}
				injects = append(injects, injectSpec{Sys: nxt.Sys, Event: r.K, Kind: "kill", N: m.KillN[r.K], MaxN: m.KillMax[r.K]})
				tries := 8
				if lead {
					tries = 80
				}
				e, _, _, err := runInjected(p.Sc, injects, p.Steps, nil, tries)
				atomic.AddInt64(&killRuns, 1)
				if err != nil {
					out.V, out.Sig, out.Detail = "skip", "inject-failed", err.Error()
					if lead {
						atomic.AddInt64(&unrepro, 1)
						problem("lead-not-injectable", id, fmt.Sprintf("k=%d: %v", r.K, err))
					}
					hlib.Emit(out)
					continue
				}
				real = e.inspect([]byte(m.New))
				e.cleanup()
				confirmed.Store(key, real)
			}
			out.Detail = fmt.Sprintf("killed at entry of %s: directory %+v", nxt.Sys, real)
			realOK := durableReal(real, p.Mv)
			switch {
			case !realOK:
				out.V, out.Sig = "viol", windowSig(p.Steps, r.K, real.Target)
				out.Detail = fmt.Sprintf("scenario %s inject=%s: SIGKILL at the entry of %s (after %d file-system calls) leaves the target %s; directory %+v; calls: %s",
					p.Sc, p.Inject, nxt.Sys, r.K, real.Target, real, m.Shape)
			case lead:
				atomic.AddInt64(&unrepro, 1)
				problem("lead-not-reproduced", id, fmt.Sprintf("k=%d: model %+v, real %+v", r.K, r.dir(), real))
			case r.dir() != real:
				atomic.AddInt64(&mismatch, 1)
				problem("crash-state-mismatch", id, fmt.Sprintf("k=%d: model %+v, real %+v; trace %s", r.K, r.dir(), real, m.Shape))
			}
			hlib.Emit(out)
		}
	})
	if len(problems) > 0 {
		f, _ := os.Create("fmt_problems.ndjson")
		for _, p := range problems {
			b, _ := json.Marshal(p)
			f.Write(append(b, '\n'))
		}
		f.Close()
	}
	hlib.EmitRaw(map[string]any{"v": "summary", "kill_runs": killRuns, "inject_attempts": atomic.LoadInt64(&injectRuns), "unrepro": unrepro, "unexplained": unexplained,
		"model_real_mismatch": mismatch, "traces_validated": len(ids)})
}

func readND(path string, f func([]byte)) {
	b, err := os.ReadFile(path)
	if err != nil {
		fatal("reading", path, ":", err)
	}
	for _, l := range bytes.Split(b, []byte("\n")) {
		if len(bytes.TrimSpace(l)) > 0 {
			f(l)
		}
	}
}
