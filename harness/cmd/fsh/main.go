// fsh: conformance harness for the file-system-shaped properties
// (C26 xgo fmt crash safety, C36 import-cache key).
package main

import (
	"fmt"
	"os"

	"verifharness/hlib"
)

func main() {
	if len(os.Args) < 2 {
		fmt.Fprintln(os.Stderr, "usage: fsh fmt-record|fmt-confirm|pkghash < cases.ndjson")
		os.Exit(3)
	}
	switch os.Args[1] {
	case "fmt-record":
		runFmtRecord()
	case "fmt-confirm":
		runFmtConfirm()
	case "pkghash":
		runPkgHash()
	default:
		fmt.Fprintln(os.Stderr, "unknown mode", os.Args[1])
		os.Exit(3)
	}
	hlib.Flush()
}
