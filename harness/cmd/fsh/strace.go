package main

// Parsing of `strace -f -o <file>` logs: one system call per line,
//   <tid> name(args) = ret [ERRNO (text)] [(INJECTED)]
// with `<unfinished ...>` / `<... name resumed>` pairs when threads interleave and
// `= ?` for a call that never returned (process killed at its entry).

import (
	"bufio"
	"os"
	"strconv"
	"strings"
)

type sysCall struct {
	Tid      int
	Name     string
	Args     []string // top-level arguments, raw text
	Ret      string   // "0", "5", "-1", "?"
	Errno    string   // "ENOSPC" when Ret == "-1"
	Injected bool
	Killed   bool // "= ?" : never returned
	Line     int
}

type straceLog struct {
	Calls    []sysCall
	MainTid  int
	Threads  map[int]bool // thread group of the traced program (computed by finish)
	parent   map[int]int  // tid -> creating tid
	isThread map[int]bool // tid was created with CLONE_THREAD
	KilledBy string       // "SIGKILL" when the main program was killed
	ExitCode int          // exit status of the main thread (-1 unknown)
}

func parseStraceFile(path string) (*straceLog, error) {
	f, err := os.Open(path)
	if err != nil {
		return nil, err
	}
	defer f.Close()
	lg := &straceLog{Threads: map[int]bool{}, ExitCode: -1, parent: map[int]int{}, isThread: map[int]bool{}}
	pending := map[int]string{} // tid -> text before <unfinished ...>
	sc := bufio.NewScanner(f)
	sc.Buffer(make([]byte, 1<<20), 1<<28)
	ln := 0
	for sc.Scan() {
		ln++
		line := sc.Text()
		sp := strings.IndexByte(line, ' ')
		if sp <= 0 {
			continue
		}
		tid, err := strconv.Atoi(line[:sp])
		if err != nil {
			continue
		}
		rest := strings.TrimLeft(line[sp+1:], " ")
		if lg.MainTid == 0 {
			lg.MainTid = tid
			lg.Threads[tid] = true
		}
		switch {
		case strings.HasPrefix(rest, "+++ "):
			if strings.HasPrefix(rest, "+++ killed by ") {
				if tid == lg.MainTid {
					lg.KilledBy = strings.Fields(rest[len("+++ killed by "):])[0]
				}
				// a call of this thread that never resumed was cut by the kill
				if p, ok := pending[tid]; ok {
					if c, ok2 := parseCallText(tid, p+") = ?", ln); ok2 {
						c.Killed = true
						lg.add(c)
					}
					delete(pending, tid)
				}
			} else if strings.HasPrefix(rest, "+++ exited with ") {
				if tid == lg.MainTid {
					lg.ExitCode, _ = strconv.Atoi(strings.Fields(rest[len("+++ exited with "):])[0])
				}
			}
			continue
		case strings.HasPrefix(rest, "--- "):
			continue
		case strings.HasPrefix(rest, "<... "):
			// <... name resumed>tail
			i := strings.Index(rest, " resumed>")
			if i < 0 {
				continue
			}
			tail := rest[i+len(" resumed>"):]
			if p, ok := pending[tid]; ok {
				delete(pending, tid)
				if c, ok2 := parseCallText(tid, p+tail, ln); ok2 {
					lg.add(c)
				}
			}
			continue
		case strings.HasSuffix(rest, "<unfinished ...>"):
			pending[tid] = strings.TrimSuffix(rest, "<unfinished ...>")
			pending[tid] = strings.TrimRight(pending[tid], " ")
			continue
		}
		if c, ok := parseCallText(tid, rest, ln); ok {
			lg.add(c)
		}
	}
	lg.finish()
	return lg, sc.Err()
}

// finish computes the thread group of the traced program: a tid is a member unless the chain of
// creations leading to it from the main thread contains a fork (clone without CLONE_THREAD).  The
// clone line of a parent can be logged after the first calls of the child, hence the second pass.
func (lg *straceLog) finish() {
	tids := map[int]bool{lg.MainTid: true}
	for _, c := range lg.Calls {
		tids[c.Tid] = true
	}
	for t := range tids {
		member := true
		for x, n := t, 0; x != lg.MainTid && n < 64; n++ {
			p, ok := lg.parent[x]
			if !ok {
				break // creation not seen: a thread whose clone never returned before a kill
			}
			if !lg.isThread[x] {
				member = false
				break
			}
			x = p
		}
		if member {
			lg.Threads[t] = true
		}
	}
}

func (lg *straceLog) add(c sysCall) {
	switch c.Name {
	case "clone", "clone3", "fork", "vfork":
		if n, err := strconv.Atoi(c.Ret); err == nil && n > 0 {
			lg.parent[n] = c.Tid
			lg.isThread[n] = strings.Contains(strings.Join(c.Args, ","), "CLONE_THREAD")
		}
		return
	}
	lg.Calls = append(lg.Calls, c)
}

// parseCallText parses `name(args) = ret ...`.
func parseCallText(tid int, s string, ln int) (sysCall, bool) {
	c := sysCall{Tid: tid, Line: ln}
	op := strings.IndexByte(s, '(')
	if op <= 0 {
		return c, false
	}
	c.Name = s[:op]
	for _, ch := range c.Name {
		if !(ch == '_' || ch >= 'a' && ch <= 'z' || ch >= '0' && ch <= '9') {
			return c, false
		}
	}
	// scan arguments up to the matching ')'
	i := op + 1
	depth := 0
	start := i
	inStr := false
	done := false
	for ; i < len(s) && !done; i++ {
		ch := s[i]
		if inStr {
			if ch == '\\' {
				i++
			} else if ch == '"' {
				inStr = false
			}
			continue
		}
		switch ch {
		case '"':
			inStr = true
		case '(', '{', '[':
			depth++
		case '}', ']':
			depth--
		case ')':
			if depth == 0 {
				if a := strings.TrimSpace(s[start:i]); a != "" || len(c.Args) > 0 {
					c.Args = append(c.Args, a)
				}
				done = true
			} else {
				depth--
			}
		case ',':
			if depth == 0 {
				c.Args = append(c.Args, strings.TrimSpace(s[start:i]))
				start = i + 1
			}
		}
	}
	if !done {
		return c, false
	}
	tail := strings.TrimSpace(s[i:])
	if !strings.HasPrefix(tail, "=") {
		return c, false
	}
	fs := strings.Fields(tail[1:])
	if len(fs) == 0 {
		return c, false
	}
	c.Ret = fs[0]
	if c.Ret == "?" {
		c.Killed = true
	}
	if c.Ret == "-1" && len(fs) > 1 {
		c.Errno = fs[1]
	}
	if strings.Contains(tail, "(INJECTED)") {
		c.Injected = true
	}
	return c, true
}

// cUnquote decodes a strace string literal ("..." with C escapes; a trailing "..." means truncated).
func cUnquote(a string) (string, bool) {
	a = strings.TrimSpace(a)
	trunc := false
	if strings.HasSuffix(a, "...") {
		trunc = true
		a = strings.TrimSuffix(a, "...")
	}
	if len(a) < 2 || a[0] != '"' || a[len(a)-1] != '"' {
		return "", false
	}
	a = a[1 : len(a)-1]
	var b strings.Builder
	for i := 0; i < len(a); i++ {
		ch := a[i]
		if ch != '\\' || i+1 >= len(a) {
			b.WriteByte(ch)
			continue
		}
		i++
		switch a[i] {
		case 'n':
			b.WriteByte('\n')
		case 't':
			b.WriteByte('\t')
		case 'r':
			b.WriteByte('\r')
		case 'f':
			b.WriteByte('\f')
		case 'v':
			b.WriteByte('\v')
		case 'a':
			b.WriteByte(7)
		case 'b':
			b.WriteByte(8)
		case 'e':
			b.WriteByte(27)
		case 'x':
			j := i + 1
			for j < len(a) && j < i+3 && isHex(a[j]) {
				j++
			}
			n, _ := strconv.ParseUint(a[i+1:j], 16, 8)
			b.WriteByte(byte(n))
			i = j - 1
		case '0', '1', '2', '3', '4', '5', '6', '7':
			j := i
			for j < len(a) && j < i+3 && a[j] >= '0' && a[j] <= '7' {
				j++
			}
			n, _ := strconv.ParseUint(a[i:j], 8, 16)
			b.WriteByte(byte(n))
			i = j - 1
		default:
			b.WriteByte(a[i])
		}
	}
	return b.String(), !trunc
}

func isHex(c byte) bool {
	return c >= '0' && c <= '9' || c >= 'a' && c <= 'f' || c >= 'A' && c <= 'F'
}
