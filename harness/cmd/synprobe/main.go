package main

import (
	"bufio"
	"fmt"
	"os"
	"strings"

	"github.com/goplus/xgo/ast"
	"github.com/goplus/xgo/parser"
	"github.com/goplus/xgo/token"
	"verifharness/syntree"
)

// probe: each stdin line (with \n escapes) is parsed as expr (prefix "e:") or file; prints tree and spans.
func main() {
	sc := bufio.NewScanner(os.Stdin)
	for sc.Scan() {
		line := strings.ReplaceAll(sc.Text(), `\n`, "\n")
		fset := token.NewFileSet()
		var n ast.Node
		var err error
		src := line
		if strings.HasPrefix(line, "e:") {
			src = line[2:]
			n, err = parser.ParseExprFrom(fset, "", []byte(src), 0)
		} else {
			n, err = parser.ParseFile(fset, "p.xgo", []byte(src), 0)
		}
		fmt.Printf("%q\n  err=%v\n", src, err)
		if n != nil && fmt.Sprint(n) != "<nil>" {
			func() {
				defer func() { recover() }()
				fmt.Printf("  %s\n", syntree.Project(n))
				ast.Inspect(n, func(x ast.Node) bool {
					if x != nil {
						p, e := fset.Position(x.Pos()).Offset, fset.Position(x.End()).Offset
						s := ""
						if p >= 0 && e <= len(src) && p <= e {
							s = src[p:e]
						}
						fmt.Printf("    %-16s [%d,%d) %q\n", syntree.KindOf(x), p, e, s)
					}
					return true
				})
			}()
		}
	}
}
