package main

// C37 -- model cases of specs/gosyn/DeclRoundTrip.tla (declaration foci of GoSyntax.tla plus the
// model of the two converters) replayed into fromgo.ASTFile / togo.ASTFile.
//
// Oracle S: the printed header of every declaration after Go -> XGo -> Go equals the printed header
// of the original.  The model predicts the outcome of each case ("same", "lost:<Kind>.<Field>",
// "panic:<stage>:<Kind>") from its table of what the converters handle; prediction != observation
// is DRIFT (the table has to be brought back in line with the code), never an alarm by itself.

import (
	"fmt"
	goparser "go/parser"
	gotoken "go/token"
	"io"
	"log"
	"strings"

	"verifharness/hlib"
)

func runC37() {
	log.SetOutput(io.Discard)
	cases := hlib.ReadAllCases[synCase]()
	results := make([]hlib.Result, len(cases))
	extras := make([][][2]string, len(cases))
	hlib.Parallel(len(cases), 8, func(i int) {
		c := &cases[i]
		src := wrapSource(c)
		frag := renderText(c.Text)
		res := hlib.Result{Idx: i, V: "ok", Input: map[string]any{"focus": c.Focus, "src": frag}, NT: ntKey(c)}
		fset := gotoken.NewFileSet()
		gf, err := goparser.ParseFile(fset, "case.go", src, goparser.ParseComments|goparser.SkipObjectResolution)
		if err != nil {
			res.V, res.Sig, res.Detail = "skip", "skip:go/parser", err.Error()
			results[i] = res
			return
		}
		modelDrift := ""
		if got := fragmentOf(project(gf), c.Wrap); firstDiffIdx(got, c.Sx) >= 0 {
			k := firstDiffIdx(got, c.Sx)
			modelDrift = fmt.Sprintf("model tree differs from go/parser at %d: go/parser ..%s.. model ..%s..", k, around(got, k), around(c.Sx, k))
		}
		// only the fragment's declarations are judged (the prelude is the same in every case)
		gf.Decls = gf.Decls[preludeDecls:]
		r := roundTrip(fset, gf)
		observed := "same"
		if r.V == "viol" {
			if len(r.More) > 1 {
				extras[i] = r.More[1:]
			}
			observed = r.Sig
			if !predictMatches(c.Predict, observed) {
				r.Detail += "\n  (NOT predicted by the model's converter table)"
			}
			res.V, res.Sig = "viol", r.Sig
			res.Detail = fmt.Sprintf("%s\n  source: %s\n  model predicted: %v", r.Detail, strings.ReplaceAll(frag, "\n", "\\n"), c.Predict)
		}
		if res.V == "ok" {
			switch {
			case modelDrift != "":
				res.V, res.Sig, res.Detail = "drift", "model-tree", modelDrift+" for "+frag
			case !predictMatches(c.Predict, observed):
				res.V, res.Sig = "drift", "model-outcome:"+strings.Join(c.Predict, "+")
				res.Detail = fmt.Sprintf("model predicts %v, the converters give %s for %q", c.Predict, observed, frag)
			default:
				res.Detail = fmt.Sprintf("%d declaration headers unchanged", r.Decls)
			}
		}
		results[i] = res
	})
	for i, r := range results {
		hlib.Emit(r)
		for _, m := range extras[i] {
			hlib.Emit(hlib.Result{Idx: i, V: "viol", Sig: m[0], Detail: m[1] + "\n  source: " + renderText(cases[i].Text), Input: r.Input, NT: r.NT})
		}
	}
}

// predictMatches: the model predicts the SET of losses of a case from its converter table
// (lost:TypeParams, lost:Names, panic:togo:IndexListExpr); the harness observes the first one.
// No prediction must be observed as "same"; an observed violation must be one of the predicted.
func predictMatches(pred []string, observed string) bool {
	if observed == "same" {
		return len(pred) == 0
	}
	class := ""
	switch {
	case strings.HasPrefix(observed, "panic:togo:") && strings.HasSuffix(observed, ":IndexListExpr"):
		class = "panic:togo:IndexListExpr"
	case strings.HasSuffix(observed, ".TypeParams"):
		class = "lost:TypeParams"
	case strings.HasSuffix(observed, "Field.Names(empty)"):
		class = "lost:Names"
	}
	for _, p := range pred {
		if p == class {
			return true
		}
	}
	return false
}
