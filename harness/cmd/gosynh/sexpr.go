package main

// The projection "syntax tree -> s-expression" shared by C14 and C37.
//
// One reflection walker serves go/ast and github.com/goplus/xgo/ast: the XGo ast mirrors go/ast
// (same struct names, same field names), so a node is projected through a fixed schema
//
//	kind -> ordered list of (field, how it is rendered)
//
// The schema *is* the node-name mapping of C14: a node kind of XGo that is not in the table (an
// XGo-only construct: ErrWrapExpr, LambdaExpr, SliceLit, RangeExpr, ForPhraseStmt,
// OverloadFuncDecl, ...) is rendered as (xgo:<Kind> ...) and can never equal a go/ast node.
// Positions, comments, scopes/objects and parser bookkeeping are not part of the projection
// ("same shape, identifiers, literals and operators").  Positions that *encode shape* are
// rendered as flags: CallExpr.Ellipsis ("..."), TypeSpec.Assign ("="), GenDecl.Lparen ("group").
//
// XGo-only fields of shared kinds:
//   - BasicLit.Extra (*StringLitEx: the `${..}` parts XGo pre-parses inside a string literal) is an
//     annotation of the same literal; Kind and Value are compared, Extra is ignored.
//   - CallExpr.NoParenEnd (position, set for command-style calls) is ignored; the arguments are
//     compared.
//   - SendStmt.Values/Ellipsis (XGo allows `ch <- a, b` and `ch <- s...`): exactly one value and no
//     ellipsis is the Go send statement and is rendered as go/ast's Value.
//   - FuncDecl.Operator/Static/Shadow/IsClass, RangeStmt.NoRangeOp, ValueSpec.Tag: rendered only
//     when set (a Go file that sets one of them has a different tree).

import (
	"fmt"
	"reflect"
	"strings"
)

// fk says how a field is rendered.
type fk int

const (
	fNode  fk = iota // child node; nil -> atom "nil"
	fList            // slice of nodes -> "[" ... "]"
	fStr             // string atom (Ident.Name, BasicLit.Value)
	fTok             // token -> its String()
	fPos             // position used as a flag: atom Flag when valid, nothing otherwise
	fBool            // bool flag: atom Flag when true, nothing otherwise
	fDir             // ChanDir -> send|recv|both
	fXNode           // XGo-only child node: rendered as (xgo:<Field> ..) only when non-nil
	fXBool           // XGo-only bool: atom xgo:<Field> only when true
)

type fspec struct {
	Name string
	K    fk
	Flag string
}

var schema = map[string][]fspec{
	"File":     {{"Name", fNode, ""}, {"Decls", fList, ""}},
	"GenDecl":  {{"Tok", fTok, ""}, {"Lparen", fPos, "group"}, {"Specs", fList, ""}},
	"FuncDecl": {{"Recv", fNode, ""}, {"Name", fNode, ""}, {"Type", fNode, ""}, {"Body", fNode, ""}, {"Operator", fXBool, ""}, {"Static", fXBool, ""}, {"Shadow", fXBool, ""}, {"IsClass", fXBool, ""}},

	"ImportSpec": {{"Name", fNode, ""}, {"Path", fNode, ""}},
	"ValueSpec":  {{"Names", fList, ""}, {"Type", fNode, ""}, {"Values", fList, ""}, {"Tag", fXNode, ""}},
	"TypeSpec":   {{"Name", fNode, ""}, {"TypeParams", fNode, ""}, {"Assign", fPos, "="}, {"Type", fNode, ""}},

	"Field":     {{"Names", fList, ""}, {"Type", fNode, ""}, {"Tag", fNode, ""}},
	"FieldList": {{"List", fList, ""}},

	"Ident":          {{"Name", fStr, ""}},
	"BasicLit":       {{"Kind", fTok, ""}, {"Value", fStr, ""}},
	"Ellipsis":       {{"Elt", fNode, ""}},
	"FuncLit":        {{"Type", fNode, ""}, {"Body", fNode, ""}},
	"CompositeLit":   {{"Type", fNode, ""}, {"Elts", fList, ""}},
	"ParenExpr":      {{"X", fNode, ""}},
	"SelectorExpr":   {{"X", fNode, ""}, {"Sel", fNode, ""}},
	"IndexExpr":      {{"X", fNode, ""}, {"Index", fNode, ""}},
	"IndexListExpr":  {{"X", fNode, ""}, {"Indices", fList, ""}},
	"SliceExpr":      {{"X", fNode, ""}, {"Low", fNode, ""}, {"High", fNode, ""}, {"Max", fNode, ""}, {"Slice3", fBool, "3"}},
	"TypeAssertExpr": {{"X", fNode, ""}, {"Type", fNode, ""}},
	"CallExpr":       {{"Fun", fNode, ""}, {"Args", fList, ""}, {"Ellipsis", fPos, "..."}},
	"StarExpr":       {{"X", fNode, ""}},
	"UnaryExpr":      {{"Op", fTok, ""}, {"X", fNode, ""}},
	"BinaryExpr":     {{"Op", fTok, ""}, {"X", fNode, ""}, {"Y", fNode, ""}},
	"KeyValueExpr":   {{"Key", fNode, ""}, {"Value", fNode, ""}},

	"ArrayType":     {{"Len", fNode, ""}, {"Elt", fNode, ""}},
	"StructType":    {{"Fields", fNode, ""}},
	"FuncType":      {{"TypeParams", fNode, ""}, {"Params", fNode, ""}, {"Results", fNode, ""}},
	"InterfaceType": {{"Methods", fNode, ""}},
	"MapType":       {{"Key", fNode, ""}, {"Value", fNode, ""}},
	"ChanType":      {{"Dir", fDir, ""}, {"Value", fNode, ""}},

	"BadExpr": {}, "BadStmt": {}, "BadDecl": {},

	"DeclStmt":       {{"Decl", fNode, ""}},
	"EmptyStmt":      {{"Implicit", fBool, "implicit"}},
	"LabeledStmt":    {{"Label", fNode, ""}, {"Stmt", fNode, ""}},
	"ExprStmt":       {{"X", fNode, ""}},
	"SendStmt":       {{"Chan", fNode, ""}, {"Value", fNode, ""}},
	"IncDecStmt":     {{"Tok", fTok, ""}, {"X", fNode, ""}},
	"AssignStmt":     {{"Tok", fTok, ""}, {"Lhs", fList, ""}, {"Rhs", fList, ""}},
	"GoStmt":         {{"Call", fNode, ""}},
	"DeferStmt":      {{"Call", fNode, ""}},
	"ReturnStmt":     {{"Results", fList, ""}},
	"BranchStmt":     {{"Tok", fTok, ""}, {"Label", fNode, ""}},
	"BlockStmt":      {{"List", fList, ""}},
	"IfStmt":         {{"Init", fNode, ""}, {"Cond", fNode, ""}, {"Body", fNode, ""}, {"Else", fNode, ""}},
	"CaseClause":     {{"List", fList, ""}, {"Body", fList, ""}},
	"SwitchStmt":     {{"Init", fNode, ""}, {"Tag", fNode, ""}, {"Body", fNode, ""}},
	"TypeSwitchStmt": {{"Init", fNode, ""}, {"Assign", fNode, ""}, {"Body", fNode, ""}},
	"CommClause":     {{"Comm", fNode, ""}, {"Body", fList, ""}},
	"SelectStmt":     {{"Body", fNode, ""}},
	"ForStmt":        {{"Init", fNode, ""}, {"Cond", fNode, ""}, {"Post", fNode, ""}, {"Body", fNode, ""}},
	"RangeStmt":      {{"Key", fNode, ""}, {"Value", fNode, ""}, {"Tok", fTok, ""}, {"X", fNode, ""}, {"Body", fNode, ""}, {"NoRangeOp", fXBool, ""}},
}

// N is a projected node.  Atom != "" means a leaf (string/token/flag/nil).
type N struct {
	Kind   string // node kind ("" for atoms and lists)
	Atom   string
	IsList bool
	Field  string // field name under the parent
	Kids   []*N
}

const (
	goAstPkg  = "go/ast"
	xgoAstPkg = "github.com/goplus/xgo/ast"
)

func isAstStruct(t reflect.Type) bool {
	return t.Kind() == reflect.Struct && (t.PkgPath() == goAstPkg || t.PkgPath() == xgoAstPkg)
}

// project turns an AST value (go/ast or xgo ast) into its projection.
func project(v any) *N {
	return projValue(reflect.ValueOf(v), "")
}

func atom(s, field string) *N { return &N{Atom: s, Field: field} }

func projValue(v reflect.Value, field string) *N {
	for v.Kind() == reflect.Interface {
		if v.IsNil() {
			return atom("nil", field)
		}
		v = v.Elem()
	}
	if v.Kind() == reflect.Ptr {
		if v.IsNil() {
			return atom("nil", field)
		}
		v = v.Elem()
	}
	if !v.IsValid() {
		return atom("nil", field)
	}
	t := v.Type()
	if !isAstStruct(t) {
		// e.g. the private tupleExpr wrapper or tpl nodes: opaque
		return &N{Kind: "xgo:" + t.String(), Field: field}
	}
	kind := t.Name()
	sch, ok := schema[kind]
	n := &N{Kind: kind, Field: field}
	if !ok {
		n.Kind = "xgo:" + kind
		genericKids(v, n)
		return n
	}
	for _, f := range sch {
		fv := v.FieldByName(f.Name)
		if !fv.IsValid() {
			// XGo spells one shared field differently
			if kind == "SendStmt" && f.Name == "Value" {
				vals := v.FieldByName("Values")
				ell := v.FieldByName("Ellipsis")
				if vals.IsValid() && vals.Len() == 1 && !(ell.IsValid() && ell.Int() != 0) {
					n.Kids = append(n.Kids, projValue(vals.Index(0), "Value"))
				} else {
					x := &N{Kind: "xgo:SendValues", Field: "Value"}
					if vals.IsValid() {
						for i := 0; i < vals.Len(); i++ {
							x.Kids = append(x.Kids, projValue(vals.Index(i), "Values"))
						}
					}
					if ell.IsValid() && ell.Int() != 0 {
						x.Kids = append(x.Kids, atom("...", "Ellipsis"))
					}
					n.Kids = append(n.Kids, x)
				}
			}
			continue // field absent in this AST flavour (XGo-only flag on a go/ast node)
		}
		switch f.K {
		case fNode:
			n.Kids = append(n.Kids, projValue(fv, f.Name))
		case fList:
			l := &N{IsList: true, Field: f.Name}
			for i := 0; i < fv.Len(); i++ {
				l.Kids = append(l.Kids, projValue(fv.Index(i), f.Name))
			}
			n.Kids = append(n.Kids, l)
		case fStr:
			n.Kids = append(n.Kids, atom(fv.String(), f.Name))
		case fTok:
			n.Kids = append(n.Kids, atom(tokString(fv), f.Name))
		case fPos:
			if fv.Int() != 0 {
				n.Kids = append(n.Kids, atom(f.Flag, f.Name))
			}
		case fBool:
			if fv.Bool() {
				n.Kids = append(n.Kids, atom(f.Flag, f.Name))
			}
		case fDir:
			d := "both"
			switch fv.Int() {
			case 1:
				d = "send"
			case 2:
				d = "recv"
			}
			n.Kids = append(n.Kids, atom(d, f.Name))
		case fXNode:
			if !fv.IsNil() {
				x := &N{Kind: "xgo:" + f.Name, Field: f.Name}
				x.Kids = append(x.Kids, projValue(fv, f.Name))
				n.Kids = append(n.Kids, x)
			}
		case fXBool:
			if fv.Bool() {
				n.Kids = append(n.Kids, atom("xgo:"+f.Name, f.Name))
			}
		}
	}
	return n
}

func tokString(v reflect.Value) string {
	if s, ok := v.Interface().(fmt.Stringer); ok {
		return s.String()
	}
	return fmt.Sprint(v.Int())
}

// genericKids renders an XGo-only node: every exported field that is a node, a node list, a
// string or a token, in declaration order (enough to make the detail readable and the projection
// deterministic).
func genericKids(v reflect.Value, n *N) {
	t := v.Type()
	for i := 0; i < t.NumField(); i++ {
		sf := t.Field(i)
		if !sf.IsExported() {
			continue
		}
		fv := v.Field(i)
		switch fv.Kind() {
		case reflect.Interface, reflect.Ptr:
			if fv.IsNil() {
				continue
			}
			et := fv.Type()
			if fv.Kind() == reflect.Interface {
				et = fv.Elem().Type()
			}
			for et.Kind() == reflect.Ptr {
				et = et.Elem()
			}
			if isAstStruct(et) && et.Name() != "CommentGroup" && et.Name() != "Object" && et.Name() != "Scope" {
				n.Kids = append(n.Kids, projValue(fv, sf.Name))
			}
		case reflect.Slice:
			et := fv.Type().Elem()
			if et.Kind() == reflect.Interface || (et.Kind() == reflect.Ptr && isAstStruct(et.Elem())) {
				l := &N{IsList: true, Field: sf.Name}
				for j := 0; j < fv.Len(); j++ {
					l.Kids = append(l.Kids, projValue(fv.Index(j), sf.Name))
				}
				n.Kids = append(n.Kids, l)
			}
		case reflect.String:
			n.Kids = append(n.Kids, atom(fv.String(), sf.Name))
		case reflect.Int:
			if sf.Type.Name() == "Token" {
				n.Kids = append(n.Kids, atom(tokString(fv), sf.Name))
			}
		}
	}
}

// flat renders the projection as the token list the TLA+ model uses:
// "(Kind" kids... ")" for nodes, "[" kids... "]" for lists, atoms as they are.
func (n *N) flat(out []string) []string {
	switch {
	case n == nil:
		return append(out, "nil")
	case n.IsList:
		out = append(out, "[")
		for _, k := range n.Kids {
			out = k.flat(out)
		}
		return append(out, "]")
	case n.Kind == "":
		return append(out, n.Atom)
	}
	out = append(out, "("+n.Kind)
	for _, k := range n.Kids {
		out = k.flat(out)
	}
	return append(out, ")")
}

func (n *N) String() string { return strings.Join(n.flat(nil), " ") }

func (n *N) label() string {
	switch {
	case n == nil:
		return "nil"
	case n.IsList:
		return fmt.Sprintf("list%d", len(n.Kids))
	case n.Kind == "":
		return n.Atom
	}
	return n.Kind
}

// Diff is the first structural difference of two projections in a lock-step preorder walk.
type Diff struct {
	Path   string // e.g. File.Decls[3].Body.List[0]
	Parent string // kind of the node that owns the differing field
	Field  string // field name
	A, B   string // what each side has there (kind, atom, or listN)
	AtomAt bool   // the difference is an atom (identifier/literal/operator/flag) of a common kind
}

func diff(a, b *N) *Diff {
	return diffAt(a, b, "", "", "")
}

func diffAt(a, b *N, path, parent, field string) *Diff {
	mk := func(atomAt bool) *Diff {
		return &Diff{Path: path, Parent: parent, Field: field, A: a.label(), B: b.label(), AtomAt: atomAt}
	}
	if a.IsList != b.IsList || (a.Kind == "") != (b.Kind == "") {
		return mk(false)
	}
	if a.IsList {
		for i := 0; i < len(a.Kids) && i < len(b.Kids); i++ {
			if d := diffAt(a.Kids[i], b.Kids[i], fmt.Sprintf("%s[%d]", path, i), parent, field); d != nil {
				return d
			}
		}
		if len(a.Kids) != len(b.Kids) {
			return mk(false)
		}
		return nil
	}
	if a.Kind == "" {
		if a.Atom != b.Atom {
			return mk(true)
		}
		return nil
	}
	if a.Kind != b.Kind {
		return mk(false)
	}
	// same kind: compare children positionally (flags may be missing on one side)
	for i := 0; i < len(a.Kids) && i < len(b.Kids); i++ {
		ka, kb := a.Kids[i], b.Kids[i]
		f := ka.Field
		if ka.Field != kb.Field {
			// an optional flag present on one side only
			return &Diff{Path: path + "." + f, Parent: a.Kind, Field: pick(ka.Field, kb.Field, a.Kind), A: ka.label(), B: kb.label(), AtomAt: true}
		}
		p := path + "." + f
		if path == "" {
			p = a.Kind + "." + f
		}
		if d := diffAt(ka, kb, p, a.Kind, f); d != nil {
			return d
		}
	}
	if len(a.Kids) != len(b.Kids) {
		var extra *N
		if len(a.Kids) > len(b.Kids) {
			extra = a.Kids[len(b.Kids)]
		} else {
			extra = b.Kids[len(a.Kids)]
		}
		return &Diff{Path: path + "." + extra.Field, Parent: a.Kind, Field: extra.Field, A: fmt.Sprint(len(a.Kids)), B: fmt.Sprint(len(b.Kids)), AtomAt: true}
	}
	return nil
}

// pick chooses the flag field that exists in the schema order first (deterministic).
func pick(fa, fb, kind string) string {
	for _, f := range schema[kind] {
		if f.Name == fa || f.Name == fb {
			return f.Name
		}
	}
	return fa
}

// find returns the sub-projection reached by following field names / list indexes.
func (n *N) child(field string) *N {
	for _, k := range n.Kids {
		if k.Field == field {
			return k
		}
	}
	return nil
}
