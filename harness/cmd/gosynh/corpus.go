package main

// Corpus runs: every .go file under the given roots through the C14 / C37 comparator.  The corpus
// is an ADDITION to the spec-driven enumeration (counted separately), not a replacement.
//
// Domain of C14 for corpus files: go/parser accepts AND the file's package type-checks.  A corpus
// file is type-checked together with the other files of its directory that share its package
// clause, against the standard library only (source importer).  Directories whose packages need
// anything else (module dependencies) or do not type-check are outside the domain and skipped
// (counted), except when the caller vouches for them (-trust: the files belong to packages that
// `go vet` of the tree under test accepts -- established by the engine, see props/c14.py).

import (
	"fmt"
	goast "go/ast"
	goparser "go/parser"
	gotoken "go/token"
	"go/types"
	"io"
	"io/fs"
	"log"
	"os"
	"path/filepath"
	"sort"
	"strings"

	"verifharness/hlib"
)

type corpusFile struct {
	path    string
	trusted bool
}

func listGoFiles(roots []string) (files []corpusFile) {
	for _, root := range roots {
		trusted := false
		if strings.HasPrefix(root, "trust:") {
			trusted, root = true, root[len("trust:"):]
		}
		if st, err := os.Stat(root); err == nil && !st.IsDir() {
			files = append(files, corpusFile{root, trusted})
			continue
		}
		filepath.WalkDir(root, func(path string, d fs.DirEntry, err error) error {
			if err != nil {
				return nil
			}
			if d.IsDir() {
				if n := d.Name(); n == ".git" || n == "node_modules" {
					return filepath.SkipDir
				}
				return nil
			}
			if strings.HasSuffix(path, ".go") {
				files = append(files, corpusFile{path, trusted})
			}
			return nil
		})
	}
	sort.Slice(files, func(i, j int) bool { return files[i].path < files[j].path })
	return
}

// dirTypeChecks type-checks the files of one directory grouped by package name; returns the set
// of files that belong to a package that type-checks.
func dirTypeChecks(dir string, names []string) map[string]bool {
	ok := map[string]bool{}
	fset := gotoken.NewFileSet()
	byPkg := map[string][]*goast.File{}
	fileOf := map[*goast.File]string{}
	for _, n := range names {
		f, err := goparser.ParseFile(fset, n, nil, goparser.ParseComments|goparser.SkipObjectResolution)
		if err != nil {
			continue
		}
		byPkg[f.Name.Name] = append(byPkg[f.Name.Name], f)
		fileOf[f] = n
	}
	for name, fs := range byPkg {
		bad := false
		conf := types.Config{Importer: stdImporter(), FakeImportC: true, Error: func(error) { bad = true }}
		func() {
			defer func() {
				if recover() != nil {
					bad = true
				}
			}()
			conf.Check(name, fset, fs, nil)
		}()
		if !bad {
			for _, f := range fs {
				ok[fileOf[f]] = true
			}
		}
	}
	return ok
}

func runCorpus(roots []string, which string) {
	log.SetOutput(io.Discard)
	files := listGoFiles(roots)
	byDir := map[string][]string{}
	for _, f := range files {
		byDir[filepath.Dir(f.path)] = append(byDir[filepath.Dir(f.path)], f.path)
	}
	typed := map[string]bool{}
	if which == "c14" {
		var dirs []string
		for d := range byDir {
			dirs = append(dirs, d)
		}
		sort.Strings(dirs)
		oks := make([]map[string]bool, len(dirs))
		hlib.Parallel(len(dirs), 8, func(i int) { oks[i] = dirTypeChecks(dirs[i], byDir[dirs[i]]) })
		for _, m := range oks {
			for k := range m {
				typed[k] = true
			}
		}
	}
	results := make([]hlib.Result, len(files))
	hlib.Parallel(len(files), 8, func(i int) {
		cf := files[i]
		res := hlib.Result{Idx: i, V: "ok", Input: map[string]any{"file": cf.path}}
		src, err := os.ReadFile(cf.path)
		if err != nil {
			res.V, res.Sig, res.Detail = "skip", "skip:read", err.Error()
			results[i] = res
			return
		}
		switch which {
		case "c14":
			o := compareSrc(cf.path, src, false, false)
			switch {
			case o.V == "skip":
				res.V, res.Sig, res.Detail = "skip", "skip:"+o.Why, o.Detail
			case !typed[cf.path] && !cf.trusted:
				res.V, res.Sig, res.Detail = "skip", "skip:go/types", "package does not type-check against the standard library alone"
			case o.V == "viol":
				res.V, res.Sig, res.Detail = "viol", o.Sig, cf.path+": "+o.Detail
			}
			if o.GoTree != nil && res.V != "skip" {
				set := map[string]bool{}
				kindSet(o.GoTree, set)
				res.NT = "corpus:" + strings.Join(sortedKeys(set), ",")
				if res.V == "ok" {
					res.Detail = fmt.Sprintf("same tree (%d node kinds)", len(set))
				}
			}
		case "c37":
			fset := gotoken.NewFileSet()
			gf, err := goparser.ParseFile(fset, cf.path, src, goparser.ParseComments|goparser.SkipObjectResolution)
			if err != nil {
				res.V, res.Sig, res.Detail = "skip", "skip:go/parser", err.Error()
				break
			}
			r := roundTrip(fset, gf)
			if r.V == "viol" {
				res.V, res.Sig, res.Detail = "viol", r.Sig, cf.path+": "+r.Detail
			} else {
				res.Detail = fmt.Sprintf("%d declaration headers unchanged", r.Decls)
			}
			res.NT = "corpus:" + strings.Join(sortedKeys(r.Kinds), ",") + fmt.Sprint(r.Decls > 20)
		}
		results[i] = res
	})
	for _, r := range results {
		hlib.Emit(r)
	}
}
