package main

// Corpus runs: every .go file under the given roots through the C14 / C37 comparator.  The corpus
// is an ADDITION to the spec-driven enumeration (counted separately), not a replacement.
//
// Domain of C14 for corpus files: go/parser accepts AND go/types accepts.  Agreement of the two
// parsers needs no domain check (nothing is alleged), so go/types is run LAZILY: only when the XGo
// parser rejects a file or builds a different tree is the file's package (the files go/build selects
// in its directory, imports resolved from source: standard library and module cache) type-checked;
// if that fails, or the file is excluded by build constraints, the file is outside the domain and
// skipped (counted), never judged.

import (
	"fmt"
	goast "go/ast"
	"go/build"
	goparser "go/parser"
	gotoken "go/token"
	"go/types"
	"io"
	"io/fs"
	"log"
	"os"
	"path/filepath"
	"sort"
	"strings"
	"sync"

	"verifharness/hlib"
)

func listGoFiles(roots []string) (files []string) {
	for _, root := range roots {
		if st, err := os.Stat(root); err == nil && !st.IsDir() {
			files = append(files, root)
			continue
		}
		filepath.WalkDir(root, func(path string, d fs.DirEntry, err error) error {
			if err != nil {
				return nil
			}
			if d.IsDir() {
				if n := d.Name(); n == ".git" || n == "node_modules" {
					return filepath.SkipDir
				}
				return nil
			}
			if strings.HasSuffix(path, ".go") {
				files = append(files, path)
			}
			return nil
		})
	}
	sort.Strings(files)
	return
}

var (
	pkgOKMu sync.Mutex
	pkgOK   = map[string]error{}
)

// fileTypeChecks establishes that a corpus file is in the domain: its package type-checks.
func fileTypeChecks(path string) error {
	dir, base := filepath.Dir(path), filepath.Base(path)
	bp, err := build.Default.ImportDir(dir, 0)
	if err != nil {
		if _, multi := err.(*build.MultiplePackageError); !multi && bp == nil {
			return err
		}
	}
	var names []string
	key := dir
	switch {
	case contains(bp.GoFiles, base) || contains(bp.CgoFiles, base):
		names = append(append(names, bp.GoFiles...), bp.CgoFiles...)
	case contains(bp.TestGoFiles, base):
		names = append(append(append(names, bp.GoFiles...), bp.CgoFiles...), bp.TestGoFiles...)
		key += "#test"
	case contains(bp.XTestGoFiles, base):
		names = bp.XTestGoFiles
		key += "#xtest"
	default:
		return fmt.Errorf("%s is not selected by go/build in %s (build constraints, ignored or invalid file)", base, dir)
	}
	pkgOKMu.Lock()
	defer pkgOKMu.Unlock()
	if e, done := pkgOK[key]; done {
		return e
	}
	fset := gotoken.NewFileSet()
	var files []*goast.File
	var first error
	for _, n := range names {
		f, err := goparser.ParseFile(fset, filepath.Join(dir, n), nil, goparser.SkipObjectResolution)
		if err != nil {
			first = err
			break
		}
		files = append(files, f)
	}
	if first == nil && len(files) > 0 {
		conf := types.Config{Importer: stdImporter(), FakeImportC: true, Error: func(e error) {
			if first == nil {
				first = e
			}
		}}
		func() {
			defer func() {
				if e := recover(); e != nil && first == nil {
					first = fmt.Errorf("go/types panic: %v", e)
				}
			}()
			conf.Check(files[0].Name.Name, fset, files, nil)
		}()
	}
	pkgOK[key] = first
	return first
}

// stdOnlyPackage: every import of every Go file of the directory is a standard-library path.
func stdOnlyPackage(path string) bool {
	bp, _ := build.Default.ImportDir(filepath.Dir(path), 0)
	if bp == nil {
		return false
	}
	for _, l := range [][]string{bp.Imports, bp.TestImports, bp.XTestImports} {
		for _, imp := range l {
			first := imp
			if k := strings.IndexByte(imp, '/'); k >= 0 {
				first = imp[:k]
			}
			if strings.Contains(first, ".") {
				return false
			}
		}
	}
	return true
}

func contains(l []string, s string) bool {
	for _, x := range l {
		if x == s {
			return true
		}
	}
	return false
}

func runCorpus(roots []string, which string) {
	log.SetOutput(io.Discard)
	files := listGoFiles(roots)
	// go/build resolves module imports by running `go list` in the process's working directory:
	// stand inside the module whose files are judged (nothing is written there).
	for _, r := range roots {
		if _, err := os.Stat(filepath.Join(r, "go.mod")); err == nil {
			os.Chdir(r)
			break
		}
	}
	results := make([]hlib.Result, len(files))
	extras := make([][][2]string, len(files))
	sigExtras := make([][]string, len(files))
	hlib.Parallel(len(files), 8, func(i int) {
		path := files[i]
		res := hlib.Result{Idx: i, V: "ok", Input: map[string]any{"file": path}}
		src, err := os.ReadFile(path)
		if err != nil {
			res.V, res.Sig, res.Detail = "skip", "skip:read", err.Error()
			results[i] = res
			return
		}
		switch which {
		case "c14":
			o := compareSrc(path, src, false, false)
			switch o.V {
			case "skip":
				res.V, res.Sig, res.Detail = "skip", "skip:"+o.Why, o.Detail
			case "viol":
				// domain check deferred to the sequential second phase
				sigs := explain(path, src, false, o)
				res.V, res.Sig, res.Detail = "viol", sigs[0], path+": "+o.Detail+"\n  raw signature: "+o.Sig
				sigExtras[i] = sigs[1:]
			}
			if o.GoTree != nil && res.V != "skip" {
				set := map[string]bool{}
				kindSet(o.GoTree, set)
				res.NT = "corpus:" + strings.Join(sortedKeys(set), ",")
				if res.V == "ok" {
					res.Detail = fmt.Sprintf("same tree (%d node kinds)", len(set))
				}
			}
		case "c37":
			fset := gotoken.NewFileSet()
			gf, err := goparser.ParseFile(fset, path, src, goparser.ParseComments|goparser.SkipObjectResolution)
			if err != nil {
				res.V, res.Sig, res.Detail = "skip", "skip:go/parser", err.Error()
				break
			}
			r := roundTrip(fset, gf)
			if r.V == "viol" {
				if len(r.More) > 1 {
					extras[i] = r.More[1:]
				}
				res.V, res.Sig, res.Detail = "viol", r.Sig, path+": "+r.Detail
			} else {
				res.Detail = fmt.Sprintf("%d declaration headers unchanged", r.Decls)
			}
			res.NT = "corpus:" + strings.Join(sortedKeys(r.Kinds), ",") + fmt.Sprint(r.Decls > 20)
		}
		results[i] = res
	})
	if which == "c14" {
		// Second phase: a disagreement counts only if the file is in the domain.  go/types over a
		// whole package (dependencies from source) is expensive, so per signature at most `demos`
		// files are domain-checked (1 in the quick tier, 3 in the thorough tier); further files
		// with an already demonstrated signature are not judged (skip), which loses nothing: the
		// engine reports one violation per signature.
		demos := 1
		if hlib.Tier() == "thorough" {
			demos = 3
		}
		shown, tried := map[string]int{}, map[string]int{}
		for i := range results {
			r := &results[i]
			if r.V != "viol" {
				continue
			}
			sig := r.Sig
			switch {
			case shown[sig] >= demos:
				r.V, r.Sig, r.Detail = "skip", "skip:not-judged", "parsers disagree ("+sig+"); signature already demonstrated on a type-checked file in this run"
			case tried[sig] >= demos+3:
				r.V, r.Sig, r.Detail = "skip", "skip:not-judged", "parsers disagree ("+sig+"); domain check budget for this signature used up"
			case hlib.Tier() != "thorough" && !stdOnlyPackage(files[i]):
				r.V, r.Sig, r.Detail = "skip", "skip:not-judged", "parsers disagree ("+sig+"); the domain check needs module dependencies type-checked from source (thorough tier only)"
			default:
				tried[sig]++
				if terr := fileTypeChecks(files[i]); terr != nil {
					r.V, r.Sig = "skip", "skip:go/types"
					r.Detail = fmt.Sprintf("parsers disagree (%s) but the package is outside the domain: %v", sig, terr)
				} else {
					shown[sig]++
				}
			}
			if r.V == "skip" {
				r.NT = nil
			}
		}
	}
	for i, r := range results {
		hlib.Emit(r)
		for _, m := range extras[i] {
			hlib.Emit(hlib.Result{Idx: i, V: "viol", Sig: m[0], Detail: files[i] + ": " + m[1], Input: r.Input, NT: r.NT})
		}
		if r.V == "viol" {
			for _, sig := range sigExtras[i] {
				x := r
				x.Sig = sig
				hlib.Emit(x)
			}
		}
	}
}
