package main

// The C37 comparator: go/ast file -> fromgo.ASTFile -> togo.ASTFile; the printed header of every
// declaration must equal the printed header of the original declaration.
//
// "Header" (the statement's list: names, receivers, type parameters, parameter/result types, type
// definitions, constant and variable values) = the declaration without function bodies.  Both
// converters drop bodies on purpose (fromgo: "ignore function body", "skip closure body"; mode
// KeepFuncBody panics "doesn't support keeping func body now"), so before printing, on BOTH sides:
// FuncDecl.Body = nil, FuncLit.Body = {}, comments dropped (togo does not carry Doc), positions
// collapsed (a valid position becomes 1, so position-encoded shape -- variadic call "...", alias
// "=", grouping "(" -- survives, line layout does not).

import (
	"bytes"
	"fmt"
	goast "go/ast"
	"go/printer"
	gotoken "go/token"
	"reflect"
	"strings"

	xast "github.com/goplus/xgo/ast"
	"github.com/goplus/xgo/ast/fromgo"
	"github.com/goplus/xgo/ast/togo"
	xtoken "github.com/goplus/xgo/token"
)

type rtOutcome struct {
	V       string // ok | viol | skip
	Sig     string
	Detail  string
	Decls   int
	Kinds   map[string]bool
	Outcome string // same | the signature (what the model predicts is compared with this)
	More    [][2]string // every distinct (signature, detail) of the file, the first one included
}

var (
	posType   = reflect.TypeOf(gotoken.Pos(0))
	cgType    = reflect.TypeOf((*goast.CommentGroup)(nil))
	objType   = reflect.TypeOf((*goast.Object)(nil))
	scopeType = reflect.TypeOf((*goast.Scope)(nil))
)

// normalize deep-copies a go/ast value into header form.
func normalize(v reflect.Value) reflect.Value {
	switch v.Kind() {
	case reflect.Interface:
		if v.IsNil() {
			return v
		}
		r := reflect.New(v.Type()).Elem()
		r.Set(normalize(v.Elem()))
		return r
	case reflect.Ptr:
		if v.IsNil() {
			return v
		}
		switch v.Type() {
		case cgType, objType, scopeType:
			return reflect.Zero(v.Type())
		}
		switch n := v.Interface().(type) {
		case *goast.FuncLit:
			c := &goast.FuncLit{Body: &goast.BlockStmt{Lbrace: 1, Rbrace: 1}}
			if n.Type != nil {
				c.Type = normalize(reflect.ValueOf(n.Type)).Interface().(*goast.FuncType)
			}
			return reflect.ValueOf(c)
		}
		r := reflect.New(v.Type().Elem())
		r.Elem().Set(normalize(v.Elem()))
		if fd, ok := r.Interface().(*goast.FuncDecl); ok {
			fd.Body = nil
		}
		return r
	case reflect.Struct:
		r := reflect.New(v.Type()).Elem()
		for i := 0; i < v.NumField(); i++ {
			if !v.Type().Field(i).IsExported() {
				continue
			}
			r.Field(i).Set(normalize(v.Field(i)))
		}
		return r
	case reflect.Slice:
		if v.IsNil() {
			return v
		}
		r := reflect.MakeSlice(v.Type(), v.Len(), v.Len())
		for i := 0; i < v.Len(); i++ {
			r.Index(i).Set(normalize(v.Index(i)))
		}
		return r
	}
	if v.Type() == posType {
		if v.Int() != 0 {
			return reflect.ValueOf(gotoken.Pos(1))
		}
	}
	return v
}

func header(d goast.Decl) goast.Decl {
	return normalize(reflect.ValueOf(&d).Elem()).Interface().(goast.Decl)
}

func printDecl(d goast.Decl) (string, error) {
	var b bytes.Buffer
	err := (&printer.Config{Mode: printer.RawFormat}).Fprint(&b, gotoken.NewFileSet(), d)
	return b.String(), err
}

func declKinds(d goast.Decl) (declKind string) {
	switch v := d.(type) {
	case *goast.FuncDecl:
		return "FuncDecl"
	case *goast.GenDecl:
		switch v.Tok {
		case gotoken.IMPORT:
			return "ImportSpec"
		case gotoken.TYPE:
			return "TypeSpec"
		case gotoken.CONST:
			return "ConstSpec"
		case gotoken.VAR:
			return "VarSpec"
		}
	}
	return kindOf(d)
}

func guard(f func()) (pan any) {
	defer func() { pan = recover() }()
	f()
	return nil
}

// roundTrip runs the conversion pair on every declaration of the file separately (so that one
// declaration the converters cannot handle does not hide the others) and on the file as a whole.
func roundTrip(fset *gotoken.FileSet, gf *goast.File) rtOutcome {
	r := rtOutcome{V: "ok", Outcome: "same", Kinds: map[string]bool{}}
	fail := func(sig, detail string) {
		if r.V != "viol" {
			r.V, r.Sig, r.Detail, r.Outcome = "viol", sig, detail, sig
		}
		for _, m := range r.More {
			if m[0] == sig {
				return
			}
		}
		r.More = append(r.More, [2]string{sig, detail})
	}
	for _, d := range gf.Decls {
		if _, bad := d.(*goast.BadDecl); bad {
			continue
		}
		r.Decls++
		dk := declKinds(d)
		r.Kinds[dk] = true
		one := &goast.File{Name: gf.Name, Package: gf.Package, Decls: []goast.Decl{d}}
		var xf *xast.File
		if p := guard(func() { xf = fromgo.ASTFile(one, 0) }); p != nil {
			fail("panic:fromgo:"+dk+":"+culpritGo(d), fmt.Sprintf("fromgo.ASTFile panics on %s: %v", srcOf(fset, d), p))
			continue
		}
		var back *goast.File
		if p := guard(func() { back = togo.ASTFile(xf, 0) }); p != nil {
			fail("panic:togo:"+dk+":"+culpritXGo(xf.Decls[0]), fmt.Sprintf("togo.ASTFile panics on %s: %v", srcOf(fset, d), p))
			continue
		}
		if len(back.Decls) != 1 {
			fail("header-diff:"+dk+":File.Decls", fmt.Sprintf("%d declarations come back for one", len(back.Decls)))
			continue
		}
		if back.Name == nil || back.Name.Name != gf.Name.Name {
			fail("header-diff:File.Name", "package name lost")
		}
		h0, h1 := header(d), header(back.Decls[0])
		s0, e0 := printDecl(h0)
		if e0 != nil {
			continue // the original header itself is unprintable: outside the domain
		}
		s1, e1 := printDecl(h1)
		if e1 != nil {
			fail("header-unprintable:"+dk, fmt.Sprintf("go/printer fails on the converted %s: %v", srcOf(fset, d), e1))
			continue
		}
		if s0 != s1 {
			detail := fmt.Sprintf("header changes in the round trip:\n  original : %s\n  converted: %s", oneLine(s0), oneLine(s1))
			culprits := culpritFields(h0, header(back.Decls[0]), s0)
			if len(culprits) == 0 {
				fail("header-diff:"+dk, detail)
			}
			for _, c := range culprits {
				if strings.HasSuffix(c, "(empty)") {
					// nil-vs-empty of one slice field is ONE root cause wherever the field occurs:
					// the declaration kind is not part of the signature
					fail("header-diff:"+c, detail)
				} else {
					fail("header-diff:"+dk+":"+c, detail)
				}
			}
		}
	}
	return r
}

// fieldDiff is one field in which two normalized go/ast values differ (the sub-trees below a
// differing field are not compared further); apply copies the original's value into the converted
// tree.
type fieldDiff struct {
	where string // <StructKind>.<Field>
	apply func()
}

// deepDiffAll collects the differing fields in preorder; unlike the projection it tells a nil slice
// from an empty one (go/printer does too: `func() int` vs `func() (int)`).
func deepDiffAll(a, b reflect.Value, out *[]fieldDiff) {
	for a.Kind() == reflect.Interface || a.Kind() == reflect.Ptr {
		if a.IsNil() || b.IsNil() {
			return
		}
		a, b = a.Elem(), b.Elem()
	}
	switch a.Kind() {
	case reflect.Struct:
		for i := 0; i < a.NumField(); i++ {
			f := a.Type().Field(i)
			if !f.IsExported() || f.Name == "Incomplete" {
				continue
			}
			fa, fb := a.Field(i), b.Field(i)
			if shallowDiffer(fa, fb) {
				if fb.CanSet() {
					where := a.Type().Name() + "." + f.Name
					if fa.Kind() == reflect.Slice && fa.Len() == 0 && fb.Len() == 0 {
						where += "(empty)" // nil on one side, empty non-nil on the other: nothing is lost but nil-ness
					}
					*out = append(*out, fieldDiff{where, func() { fb.Set(fa) }})
				}
				continue
			}
			deepDiffAll(fa, fb, out)
		}
	case reflect.Slice:
		for i := 0; i < a.Len(); i++ {
			deepDiffAll(a.Index(i), b.Index(i), out)
		}
	}
}

func shallowDiffer(a, b reflect.Value) bool {
	switch a.Kind() {
	case reflect.Interface:
		if a.IsNil() != b.IsNil() {
			return true
		}
		return !a.IsNil() && a.Elem().Type() != b.Elem().Type()
	case reflect.Ptr:
		return a.IsNil() != b.IsNil()
	case reflect.Slice:
		return a.IsNil() != b.IsNil() || a.Len() != b.Len()
	case reflect.String:
		return a.String() != b.String()
	case reflect.Int, reflect.Int64, reflect.Int32:
		return a.Int() != b.Int()
	case reflect.Bool:
		return a.Bool() != b.Bool()
	}
	return false
}

// culpritFields names the fields whose loss explains the printed difference: the differing fields
// are restored from the original group by group (a group = all differing fields of one
// <StructKind>.<Field>), in preorder; every group whose restoration changes the printed header is a
// culprit; the walk stops when the header prints like the original.
func culpritFields(orig goast.Decl, conv goast.Decl, want string) []string {
	var all []fieldDiff
	deepDiffAll(reflect.ValueOf(&orig).Elem(), reflect.ValueOf(&conv).Elem(), &all)
	var order []string
	seen := map[string]bool{}
	for _, d := range all {
		if !seen[d.where] {
			seen[d.where] = true
			order = append(order, d.where)
		}
	}
	prev, _ := printDecl(conv)
	var culprits []string
	for _, g := range order {
		for _, d := range all {
			if d.where == g {
				d.apply()
			}
		}
		got, err := printDecl(conv)
		if err != nil || got != prev {
			culprits = append(culprits, g)
		}
		prev = got
		if err == nil && got == want {
			break
		}
	}
	return culprits
}

func oneLine(s string) string { return strings.Join(strings.Fields(s), " ") }

func srcOf(fset *gotoken.FileSet, d goast.Decl) string {
	s, err := printDecl(header(d))
	if err != nil {
		return kindOf(d)
	}
	s = oneLine(s)
	if len(s) > 200 {
		s = s[:200] + "..."
	}
	return s
}

// culpritGo finds, without looking at the panic text, the innermost expression of a declaration
// header that fromgo cannot convert: the first node in post-order whose conversion (wrapped as
// `var _ = <expr>`) panics.
func culpritGo(d goast.Decl) string {
	var post []goast.Expr
	var walk func(n goast.Node)
	walk = func(n goast.Node) {
		goast.Inspect(n, func(c goast.Node) bool {
			switch v := c.(type) {
			case *goast.BlockStmt:
				return false
			case goast.Expr:
				if c != n {
					walk(v)
					post = append(post, v)
					return false
				}
			}
			return true
		})
	}
	walk(d)
	for _, e := range post {
		f := &goast.File{Name: goast.NewIdent("p"), Decls: []goast.Decl{&goast.GenDecl{Tok: gotoken.VAR, Specs: []goast.Spec{
			&goast.ValueSpec{Names: []*goast.Ident{goast.NewIdent("_")}, Values: []goast.Expr{e}}}}}}
		if guard(func() { fromgo.ASTFile(f, 0) }) != nil {
			return kindOf(e)
		}
	}
	return "?"
}

func culpritXGo(d xast.Decl) string {
	var post []xast.Expr
	var walk func(n xast.Node)
	walk = func(n xast.Node) {
		xast.Inspect(n, func(c xast.Node) bool {
			switch v := c.(type) {
			case *xast.BlockStmt:
				return false
			case xast.Expr:
				if c != n {
					walk(v)
					post = append(post, v)
					return false
				}
			}
			return true
		})
	}
	if guard(func() { walk(d) }) != nil {
		return "?"
	}
	for _, e := range post {
		f := &xast.File{Name: xast.NewIdent("p"), Decls: []xast.Decl{&xast.GenDecl{Tok: xtoken.VAR, Specs: []xast.Spec{
			&xast.ValueSpec{Names: []*xast.Ident{xast.NewIdent("_")}, Values: []xast.Expr{e}}}}}}
		if guard(func() { togo.ASTFile(f, 0) }) != nil {
			t := reflect.TypeOf(e)
			for t.Kind() == reflect.Ptr {
				t = t.Elem()
			}
			return t.Name()
		}
	}
	return "?"
}
