// gosynh: conformance harness of the Go-syntax family (specs/gosyn):
//
//	c14   < cases.ndjson   valid Go parses to the go/parser tree (model cases of GoSyntax.tla)
//	c37   < cases.ndjson   Go -> XGo -> Go declaration round trip (model cases of DeclRoundTrip.tla)
//	corpus14 <dir>...      every .go file under the directories through the C14 comparator
//	corpus37 <dir>...      every .go file under the directories through the C37 comparator
//	probe <file.go>...     print what the comparators say about hand-written files (development aid)
package main

import (
	"fmt"
	"os"

	"verifharness/hlib"
)

func main() {
	if len(os.Args) < 2 {
		fmt.Fprintln(os.Stderr, "usage: gosynh c14|c37|corpus14|corpus37|probe ...")
		os.Exit(3)
	}
	switch os.Args[1] {
	case "c14":
		runC14()
	case "c37":
		runC37()
	case "corpus14":
		runCorpus(os.Args[2:], "c14")
	case "corpus37":
		runCorpus(os.Args[2:], "c37")
	case "probe37":
		runProbe37()
	case "probe":
		runProbe(os.Args[2:])
	default:
		fmt.Fprintln(os.Stderr, "unknown mode", os.Args[1])
		os.Exit(3)
	}
	hlib.Flush()
}

func runProbe(files []string) {
	for _, fn := range files {
		src, err := os.ReadFile(fn)
		if err != nil {
			fmt.Println(fn, err)
			continue
		}
		o := compareSrc(fn, src, true, true)
		fmt.Printf("%s: C14 %s %s %s\n", fn, o.V, o.Sig, o.Detail)
		if o.GoFile != nil {
			r := roundTrip(o.GoFset, o.GoFile)
			fmt.Printf("%s: C37 %s %s %s\n", fn, r.V, r.Sig, r.Detail)
		}
	}
}
