package main

// C14 -- model cases of specs/gosyn/GoSyntax.tla replayed into go/parser, go/types and the XGo parser.
//
// A CASE record is {focus, wrap, sx, text, moves, cost}:
//   text  Tokens(tree) in alternating form  tok gap tok ... tok ; gaps: "><" nothing, "<_>" blank,
//         "\n" newline, "<;>" semicolon, "<c>"/"<gc>" block comment (with/without blanks),
//         "<lc>" line comment + newline;
//   sx    the model's tree of the fragment (projection schema of sexpr.go);
//   wrap  "stmts": the fragment is the body of the last function of the file;
//         "decls": the fragment is the list of top-level declarations after the prelude.
// The harness renders the text, wraps it with the fixed prelude (declarations of the typed
// variables the grammar's leaves name), and judges by oracle D: go/parser + go/types accept
// (else skip) => XGo accepts and builds the same projection.  Model tree != go/parser tree is DRIFT.

import (
	"fmt"
	"io"
	"log"
	"strings"

	"verifharness/hlib"
)

type synCase struct {
	Focus string   `json:"focus"`
	Wrap  string   `json:"wrap"`
	Sx    []string `json:"sx"`
	Text  []string `json:"text"`
	Moves int      `json:"moves"`
	Cost  int      `json:"cost"`
	// DeclRoundTrip.tla adds:
	Predict []string `json:"predict"`
}

// prelude declares what the leaves of the grammar refer to (GoSyntax.tla NameTab).
const prelude = `package p

type T struct{ A, B int }

type R struct{ C int }

func (t T) M() int { return t.A }

var (
	a, b, n int
	c, d    bool
	s, r    string
	p, q    *int
	pp      **int
	l, u    []int
	m       map[string]int
	mk      map[T]int
	ch      chan int
	f       func(int) int
	g       func(int, int) int
	v       func(int, ...int) int
	x, y    interface{}
	t       T
	pt      *T
	lt      []T
	fl      float64
	e       error
)
`

const preludeDecls = 4 // type T, type R, method M, var block

func renderText(text []string) string {
	var b strings.Builder
	for i, t := range text {
		if i%2 == 0 {
			b.WriteString(t)
			continue
		}
		switch t {
		case "><":
		case "<_>":
			b.WriteByte(' ')
		case "\n":
			b.WriteByte('\n')
		case "<;>":
			b.WriteString("; ")
		case "<c>":
			b.WriteString(" /*c*/ ")
		case "<gc>":
			b.WriteString("/*c*/")
		case "<lc>":
			b.WriteString(" //c\n")
		default:
			b.WriteString(" ?" + t + "? ")
		}
	}
	return b.String()
}

func wrapSource(c *synCase) string {
	frag := renderText(c.Text)
	switch c.Wrap {
	case "decls":
		return prelude + "\n" + frag + "\n"
	default:
		return prelude + "\nfunc _() {\n" + frag + "\n}\n"
	}
}

// fragmentOf extracts the projection of the fragment from the projection of the whole file.
func fragmentOf(file *N, wrap string) []string {
	decls := file.child("Decls")
	if decls == nil {
		return nil
	}
	var out []string
	switch wrap {
	case "decls":
		for i, d := range decls.Kids {
			if i >= preludeDecls {
				out = d.flat(out)
			}
		}
	default:
		if len(decls.Kids) == 0 {
			return nil
		}
		fn := decls.Kids[len(decls.Kids)-1]
		body := fn.child("Body")
		if body == nil || body.child("List") == nil {
			return nil
		}
		for _, s := range body.child("List").Kids {
			out = s.flat(out)
		}
	}
	return out
}

func firstDiffIdx(a, b []string) int {
	for i := 0; i < len(a) && i < len(b); i++ {
		if a[i] != b[i] {
			return i
		}
	}
	if len(a) != len(b) {
		if len(a) < len(b) {
			return len(a)
		}
		return len(b)
	}
	return -1
}

func around(a []string, i int) string {
	lo, hi := i-4, i+3
	if lo < 0 {
		lo = 0
	}
	if hi > len(a) {
		hi = len(a)
	}
	return strings.Join(a[lo:hi], " ")
}

// ntKey: the set of node kinds of the fragment + the gap kinds used: what makes a case distinct.
func ntKey(c *synCase) string {
	set := map[string]bool{}
	for _, t := range c.Sx {
		if strings.HasPrefix(t, "(") {
			set[t[1:]] = true
		}
	}
	for i, t := range c.Text {
		if i%2 == 1 && t != "><" && t != "<_>" && t != "\n" {
			set["gap"+t] = true
		}
	}
	return c.Focus + ":" + strings.Join(sortedKeys(set), ",")
}

func runC14() {
	log.SetOutput(io.Discard)
	cases := hlib.ReadAllCases[synCase]()
	results := make([]hlib.Result, len(cases))
	extras := make([][]string, len(cases))
	hlib.Parallel(len(cases), 8, func(i int) {
		c := &cases[i]
		src := wrapSource(c)
		frag := renderText(c.Text)
		res := hlib.Result{Idx: i, V: "ok", Input: map[string]any{"focus": c.Focus, "src": frag}, NT: ntKey(c)}
		o := compareSrc("case.go", []byte(src), true, true)
		switch o.V {
		case "skip":
			res.V, res.Sig, res.Detail = "skip", "skip:"+o.Why, o.Detail
		case "viol":
			sigs := explain("case.go", []byte(src), true, o)
			res.V, res.Sig = "viol", sigs[0]
			res.Detail = fmt.Sprintf("%s\n  raw signature: %s\n  source fragment: %s", o.Detail, o.Sig, strings.ReplaceAll(frag, "\n", "\\n"))
			extras[i] = sigs[1:]
		}
		if o.GoTree != nil && res.V != "skip" {
			got := fragmentOf(o.GoTree, c.Wrap)
			if k := firstDiffIdx(got, c.Sx); k >= 0 && res.V == "ok" {
				res.V, res.Sig = "drift", "model-tree"
				res.Detail = fmt.Sprintf("model tree differs from go/parser at %d: go/parser ..%s.. model ..%s.. for %q", k, around(got, k), around(c.Sx, k), frag)
			}
		}
		if res.V == "ok" {
			res.Detail = "go/parser = XGo parser = model: " + strings.Join(c.Sx, " ")
			if len(res.Detail) > 300 {
				res.Detail = res.Detail[:300] + "..."
			}
		}
		results[i] = res
	})
	for i, r := range results {
		hlib.Emit(r)
		for _, sig := range extras[i] {
			x := r
			x.Sig = sig
			hlib.Emit(x)
		}
	}
}
