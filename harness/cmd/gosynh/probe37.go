package main

// probe37: which of the converter deviations that DeclRoundTrip.tla names as switches does the tree
// under test have?  Answered by converting three canonical declarations with the real code.

import (
	goast "go/ast"
	goparser "go/parser"
	gotoken "go/token"
	"io"
	"log"

	"github.com/goplus/xgo/ast/fromgo"
	"github.com/goplus/xgo/ast/togo"

	"verifharness/hlib"
)

func runProbe37() {
	log.SetOutput(io.Discard)
	conv := func(src string) (back *goast.File) {
		gf, err := goparser.ParseFile(gotoken.NewFileSet(), "p.go", src, goparser.SkipObjectResolution)
		if err != nil {
			return nil
		}
		if guard(func() { back = togo.ASTFile(fromgo.ASTFile(gf, 0), 0) }) != nil {
			return nil
		}
		return back
	}
	tp, il, nn := false, false, false
	if f := conv("package p\nfunc F[P any]() {}\n"); f != nil {
		tp = f.Decls[0].(*goast.FuncDecl).Type.TypeParams != nil
	}
	il = conv("package p\nvar V = G[int, string]\n") != nil
	if f := conv("package p\nfunc F() int\n"); f != nil {
		nn = f.Decls[0].(*goast.FuncDecl).Type.Results.List[0].Names == nil
	}
	hlib.EmitRaw(map[string]any{"v": "summary", "TogoCopiesTypeParams": tp, "TogoHandlesIndexList": il, "NilForNoNames": nn})
}
