package main

// Root-cause signatures of C14.
//
// The raw signature of a disagreement (tree-diff:<kinds> / xgo-reject:<kind>@<token>) depends on how
// the deviating construct is spelled and on what surrounds it, so one root cause shows up under many
// raw signatures.  A disagreement is therefore EXPLAINED before it is reported: for each known
// trigger class there is a probe, a semantics-preserving edit of the Go source that removes exactly
// that trigger (nothing else), and the comparator is run again:
//
//	command-call-blank        delete the blanks/comments between the head operand (identifier, `map` keyword or
//	                          selector chain) of an expression/assignment/send/inc-dec statement and
//	                          the token after it            (`f (x)`, `ch <-v`, `m [k] = v`)
//	semicolon-after-ellipsis  replace a line break that directly follows `...` by a blank
//	semicolon-after-not       replace a line break that directly follows `!` by a blank
//	string-dollar             replace every `$` inside string literals by `S`
//
// A probe counts only if it makes the disagreement vanish or moves it (different raw signature);
// the probes are applied cumulatively.  What cannot be edited away is classified structurally on
// the go/parser tree at the position of XGo's first error:
//
//	type-parameters           inside the TypeParams list of a FuncType / TypeSpec
//	interface-type-set        inside an interface element that is neither a method nor a type name
//	for-send-init             inside the header of a for statement whose init is a send statement
//
// The signature is xgo-cause:<class> for every class that took part.  Whatever is left unexplained
// keeps its RAW signature: a new root cause cannot hide behind an old signature (it is neither
// removed by a probe nor inside one of the three structural regions), and a new spelling of an old
// root cause does not look new.

import (
	"bytes"
	goast "go/ast"
	goparser "go/parser"
	goscanner "go/scanner"
	gotoken "go/token"
	"sort"
)

type probe struct {
	name string
	edit func(src []byte) []byte
}

var probes = []probe{
	{"command-call-blank", glueStatementHeads},
	{"semicolon-after-ellipsis", func(src []byte) []byte { return joinLineAfter(src, gotoken.ELLIPSIS) }},
	{"semicolon-after-not", func(src []byte) []byte { return joinLineAfter(src, gotoken.NOT) }},
	{"string-dollar", neutraliseDollar},
}

// explain returns the signatures to report for a disagreement (o.V == "viol").
func explain(name string, src []byte, allModes bool, o outcome) []string {
	var causes []string
	cur, curOut := src, o
	explained := false
	for _, p := range probes {
		edited := p.edit(cur)
		if bytes.Equal(edited, cur) {
			continue
		}
		out := compareSrc(name, edited, false, allModes)
		switch {
		case out.V == "skip":
			// the edit is not neutral for go/parser here: not a usable probe
		case out.V == "ok":
			causes = append(causes, p.name)
			explained = true
		case out.Sig != curOut.Sig:
			causes = append(causes, p.name)
			cur, curOut = edited, out
		}
		if explained {
			break
		}
	}
	var sigs []string
	for _, c := range causes {
		sigs = append(sigs, "xgo-cause:"+c)
	}
	if !explained {
		if c := structuralCause(curOut); c != "" {
			sigs = append(sigs, "xgo-cause:"+c)
		} else {
			sigs = append(sigs, curOut.Sig) // unexplained: raw signature
		}
	}
	return sigs
}

// structuralCause classifies a rejection by where XGo's first error lies in the go/parser tree.
func structuralCause(o outcome) string {
	if o.ErrOff < 0 || o.GoFile == nil {
		return ""
	}
	tf := o.GoFset.File(o.GoFile.Pos())
	if tf == nil || o.ErrOff > tf.Size() {
		return ""
	}
	pos := tf.Pos(o.ErrOff)
	var stack, best []goast.Node
	goast.Inspect(o.GoFile, func(n goast.Node) bool {
		if n == nil {
			stack = stack[:len(stack)-1]
			return true
		}
		stack = append(stack, n)
		if n.Pos() <= pos && pos <= n.End() && len(stack) > len(best) {
			switch n.(type) {
			case *goast.CommentGroup, *goast.Comment:
			default:
				best = append(best[:0:0], stack...)
			}
		}
		return true
	})
	for i := len(best) - 1; i > 0; i-- {
		switch v := best[i].(type) {
		case *goast.FieldList:
			switch par := best[i-1].(type) {
			case *goast.FuncType:
				if par.TypeParams == v {
					return "type-parameters"
				}
			case *goast.TypeSpec:
				if par.TypeParams == v {
					return "type-parameters"
				}
			}
		case *goast.Field:
			if fl, ok := best[i-1].(*goast.FieldList); ok && i >= 2 {
				if it, ok := best[i-2].(*goast.InterfaceType); ok && it.Methods == fl && len(v.Names) == 0 {
					switch v.Type.(type) {
					case *goast.Ident, *goast.SelectorExpr:
					default:
						return "interface-type-set"
					}
				}
			}
		case *goast.ForStmt:
			if _, ok := v.Init.(*goast.SendStmt); ok && v.Body != nil && pos < v.Body.Lbrace {
				return "for-send-init"
			}
		}
	}
	// a type-parameter list that XGo took for something else may end before the error position
	return ""
}

// headOperand descends to the operand a statement starts with.
func headOperand(e goast.Expr) goast.Expr {
	for {
		switch v := e.(type) {
		case *goast.CallExpr:
			e = v.Fun
		case *goast.IndexExpr:
			e = v.X
		case *goast.IndexListExpr:
			e = v.X
		case *goast.SliceExpr:
			e = v.X
		case *goast.TypeAssertExpr:
			e = v.X
		case *goast.BinaryExpr:
			e = v.X
		case *goast.CompositeLit:
			if v.Type == nil {
				return nil
			}
			e = v.Type
		case *goast.Ident, *goast.SelectorExpr:
			return v
		case *goast.MapType:
			return v // `map [K]V{..}[k] = v`: XGo also takes the keyword `map` + blank as a command head
		default:
			return nil
		}
	}
}

func glueStatementHeads(src []byte) []byte {
	fset := gotoken.NewFileSet()
	f, err := goparser.ParseFile(fset, "p.go", src, goparser.SkipObjectResolution)
	if err != nil {
		return src
	}
	tf := fset.File(f.Pos())
	type cut struct{ from, to int }
	var cuts []cut
	goast.Inspect(f, func(n goast.Node) bool {
		var head goast.Expr
		switch s := n.(type) {
		case *goast.ExprStmt:
			head = s.X
		case *goast.AssignStmt:
			if len(s.Lhs) > 0 {
				head = s.Lhs[0]
			}
		case *goast.SendStmt:
			head = s.Chan
		case *goast.IncDecStmt:
			head = s.X
		}
		if head == nil {
			return true
		}
		op := headOperand(head)
		if op == nil {
			return true
		}
		from := tf.Offset(op.End())
		if mt, ok := op.(*goast.MapType); ok {
			from = tf.Offset(mt.Map) + len("map")
		}
		to := from
		for to < len(src) {
			switch {
			case src[to] == ' ' || src[to] == '\t':
				to++
				continue
			case src[to] == '/' && to+1 < len(src) && src[to+1] == '*':
				if k := bytes.Index(src[to+2:], []byte("*/")); k >= 0 && !bytes.Contains(src[to:to+2+k], []byte("\n")) {
					to += k + 4
					continue
				}
			}
			break
		}
		if to > from {
			cuts = append(cuts, cut{from, to})
		}
		return true
	})
	if len(cuts) == 0 {
		return src
	}
	sort.Slice(cuts, func(i, j int) bool { return cuts[i].from > cuts[j].from })
	out := append([]byte(nil), src...)
	last := len(out) + 1
	for _, c := range cuts {
		if c.to > last {
			continue // overlapping (nested statements share no head, but be safe)
		}
		out = append(out[:c.from], out[c.to:]...)
		last = c.from
	}
	return out
}

func scanTokens(src []byte, f func(off int, tok gotoken.Token, lit string)) {
	fset := gotoken.NewFileSet()
	file := fset.AddFile("", fset.Base(), len(src))
	var sc goscanner.Scanner
	sc.Init(file, src, nil, 0)
	for {
		pos, tok, lit := sc.Scan()
		if tok == gotoken.EOF {
			return
		}
		f(file.Offset(pos), tok, lit)
	}
}

func joinLineAfter(src []byte, want gotoken.Token) []byte {
	out := append([]byte(nil), src...)
	changed := false
	scanTokens(src, func(off int, tok gotoken.Token, lit string) {
		if tok != want {
			return
		}
		k := off + len(tok.String())
		for k < len(out) && (out[k] == ' ' || out[k] == '\t' || out[k] == '\r') {
			k++
		}
		if k < len(out) && out[k] == '\n' {
			out[k] = ' '
			changed = true
		}
	})
	if !changed {
		return src
	}
	return out
}

func neutraliseDollar(src []byte) []byte {
	out := append([]byte(nil), src...)
	changed := false
	scanTokens(src, func(off int, tok gotoken.Token, lit string) {
		if tok != gotoken.STRING {
			return
		}
		for i := 0; i < len(lit); i++ {
			if lit[i] == '$' {
				out[off+i] = 'S'
				changed = true
			}
		}
	})
	if !changed {
		return src
	}
	return out
}
