package main

// The C14 comparator: one Go source text -> go/parser (+ go/types) vs the XGo parser.

import (
	"fmt"
	goast "go/ast"
	"go/importer"
	goparser "go/parser"
	goscanner "go/scanner"
	gotoken "go/token"
	"go/types"
	"reflect"
	"sort"
	"strings"
	"sync"

	xast "github.com/goplus/xgo/ast"
	xparser "github.com/goplus/xgo/parser"
	"github.com/goplus/xgo/parser/fsx/memfs"
	xtoken "github.com/goplus/xgo/token"
)

// outcome of comparing one file.
type outcome struct {
	V      string // ok | viol | skip
	Sig    string
	Detail string
	GoTree *N
	GoFile *goast.File
	GoFset *gotoken.FileSet
	Why    string // skip reason class
	ErrOff int      // byte offset of XGo's first error (-1: none)
	Sigs   []string // root-cause signatures to report (explain); Sig is the raw signature
}

var (
	srcImpOnce sync.Once
	srcImp     types.Importer
	srcImpMu   sync.Mutex
)

type lockedImporter struct{ imp types.Importer }

func (l lockedImporter) Import(path string) (*types.Package, error) {
	srcImpMu.Lock()
	defer srcImpMu.Unlock()
	return l.imp.Import(path)
}

// ImportFrom resolves module dependencies relative to the importing directory (go/build asks the go
// command, which finds them in the module cache).
func (l lockedImporter) ImportFrom(path, dir string, mode types.ImportMode) (*types.Package, error) {
	srcImpMu.Lock()
	defer srcImpMu.Unlock()
	if from, ok := l.imp.(types.ImporterFrom); ok {
		return from.ImportFrom(path, dir, mode)
	}
	return l.imp.Import(path)
}

// stdImporter type-checks imported standard-library packages from source (no export data is
// installed for go1.23); shared and serialised.
func stdImporter() types.Importer {
	srcImpOnce.Do(func() {
		srcImp = lockedImporter{importer.ForCompiler(gotoken.NewFileSet(), "source", nil)}
	})
	return srcImp
}

// typeCheck runs go/types over one file as a package of its own. Any error (hard or soft) puts
// the file outside the domain of C14.
func typeCheck(fset *gotoken.FileSet, f *goast.File) error {
	var first error
	conf := types.Config{
		Importer: stdImporter(),
		Error: func(err error) {
			if first == nil {
				first = err
			}
		},
	}
	func() {
		defer func() {
			if e := recover(); e != nil && first == nil {
				first = fmt.Errorf("go/types panic: %v", e)
			}
		}()
		conf.Check(f.Name.Name, fset, []*goast.File{f}, nil)
	}()
	return first
}

type xgoParse struct {
	name string
	f    *xast.File
	err  error
	pan  any
}

// xgoParses runs the XGo parser the ways the tool chain can reach it for a .go file, always with the
// mode flag that says so (ParseGoAsGoPlus, "parse Go files by gop/parser"): ParseFile with and without
// ParseComments (what cl/tool add), and ParseFSDir over an in-memory directory (without the flag
// ParseFSDir hands .go files to go/parser).
func xgoParses(name string, src []byte, all bool) []xgoParse {
	var out []xgoParse
	one := func(label string, fn func() (*xast.File, error)) {
		r := xgoParse{name: label}
		func() {
			defer func() {
				if e := recover(); e != nil {
					r.pan = e
				}
			}()
			r.f, r.err = fn()
		}()
		out = append(out, r)
	}
	one("ParseFile/ParseGoAsGoPlus|ParseComments", func() (*xast.File, error) {
		return xparser.ParseFile(xtoken.NewFileSet(), name, src, xparser.ParseGoAsGoPlus|xparser.ParseComments)
	})
	if !all {
		return out
	}
	one("ParseFile/ParseGoAsGoPlus", func() (*xast.File, error) {
		return xparser.ParseFile(xtoken.NewFileSet(), name, src, xparser.ParseGoAsGoPlus)
	})
	one("ParseFSDir/ParseGoAsGoPlus", func() (*xast.File, error) {
		fs := memfs.SingleFile("/m", "x.go", string(src))
		pkgs, err := xparser.ParseFSDir(xtoken.NewFileSet(), fs, "/m", xparser.Config{Mode: xparser.ParseGoAsGoPlus | xparser.ParseComments})
		for _, p := range pkgs {
			for _, f := range p.Files {
				return f, err
			}
			if len(p.GoFiles) > 0 {
				return nil, fmt.Errorf("ParseFSDir used go/parser despite ParseGoAsGoPlus")
			}
		}
		if err == nil {
			err = fmt.Errorf("ParseFSDir returned no file")
		}
		return nil, err
	})
	return out
}

// compareSrc is the oracle of C14 for one source text.
func compareSrc(name string, src []byte, needTypes bool, allModes bool) outcome {
	fset := gotoken.NewFileSet()
	gf, gerr := goparser.ParseFile(fset, name, src, goparser.ParseComments|goparser.SkipObjectResolution)
	if gerr != nil {
		return outcome{V: "skip", Why: "go/parser", Detail: "go/parser: " + gerr.Error()}
	}
	o := outcome{GoFile: gf, GoFset: fset, ErrOff: -1}
	if needTypes {
		if terr := typeCheck(fset, gf); terr != nil {
			o.V, o.Why, o.Detail = "skip", "go/types", "go/types: "+terr.Error()
			return o
		}
	}
	gt := project(gf)
	o.GoTree = gt
	o.V = "ok"
	for _, xp := range xgoParses(name, src, allModes) {
		switch {
		case xp.pan != nil:
			o.V, o.Sig = "viol", "xgo-panic:"+construct(fset, gf, -1)
			o.Detail = fmt.Sprintf("%s panics: %v", xp.name, xp.pan)
			return o
		case xp.err != nil:
			off := firstErrOffset(xp.err)
			o.ErrOff = off
			o.V, o.Sig = "viol", "xgo-reject:"+construct(fset, gf, off)+"@"+tokenAt(src, off)
			o.Detail = fmt.Sprintf("%s rejects a file go/parser and go/types accept: %v", xp.name, firstErr(xp.err))
			return o
		}
		xt := project(xp.f)
		if d := diff(gt, xt); d != nil {
			o.V, o.Sig = "viol", diffSig(d)
			o.Detail = fmt.Sprintf("%s: trees differ at %s: go/parser has %s, XGo has %s", xp.name, d.Path, d.A, d.B)
			return o
		}
	}
	return o
}

func diffSig(d *Diff) string {
	switch {
	case d.AtomAt:
		return "tree-diff:" + d.Parent + "." + d.Field
	case strings.HasPrefix(d.A, "list") && strings.HasPrefix(d.B, "list"):
		return "tree-diff:" + d.Parent + "." + d.Field + "#len"
	}
	a := d.A
	if d.B == "ParenExpr" && exprKinds[a] {
		a = "Expr" // XGo wrapped an expression go/parser has bare: one signature whatever the expression is
	}
	return "tree-diff:" + a + "/" + d.B
}

var exprKinds = map[string]bool{"Ident": true, "BasicLit": true, "FuncLit": true, "CompositeLit": true, "SelectorExpr": true,
	"IndexExpr": true, "IndexListExpr": true, "SliceExpr": true, "TypeAssertExpr": true, "CallExpr": true, "StarExpr": true,
	"UnaryExpr": true, "BinaryExpr": true, "KeyValueExpr": true, "ArrayType": true, "StructType": true, "FuncType": true,
	"InterfaceType": true, "MapType": true, "ChanType": true}

func firstErr(err error) string {
	if l, ok := err.(goscanner.ErrorList); ok && len(l) > 0 {
		return l[0].Error()
	}
	return err.Error()
}

func firstErrOffset(err error) int {
	if l, ok := err.(goscanner.ErrorList); ok && len(l) > 0 {
		return l[0].Pos.Offset
	}
	return -1
}

// construct names the Go construct at a byte offset of the file as go/parser sees it: the kind of
// the innermost go/ast node covering the offset.  Together with tokenAt it is the structural
// signature of an xgo-reject: <Kind>@<token>.
func construct(fset *gotoken.FileSet, f *goast.File, off int) string {
	if off < 0 {
		return "File"
	}
	tf := fset.File(f.Pos())
	if tf == nil || off > tf.Size() {
		return "File"
	}
	pos := tf.Pos(off)
	var stack []goast.Node
	var best []goast.Node
	goast.Inspect(f, func(n goast.Node) bool {
		if n == nil {
			stack = stack[:len(stack)-1]
			return true
		}
		stack = append(stack, n)
		if _, isCG := n.(*goast.CommentGroup); isCG {
			return true
		}
		if _, isC := n.(*goast.Comment); isC {
			return true
		}
		if n.Pos() <= pos && pos < n.End() && len(stack) > len(best) {
			best = append(best[:0:0], stack...)
		}
		return true
	})
	if len(best) == 0 {
		return "File"
	}
	return kindOf(best[len(best)-1])
}

// tokenAt names the go/scanner token that starts at, or is the last one before, a byte offset:
// operator spelling, keyword, or literal class (IDENT, INT, STRING, ...).
func tokenAt(src []byte, off int) string {
	fset := gotoken.NewFileSet()
	file := fset.AddFile("", fset.Base(), len(src))
	var sc goscanner.Scanner
	sc.Init(file, src, nil, 0)
	last := "BOF"
	for {
		pos, tok, lit := sc.Scan()
		if tok == gotoken.EOF || file.Offset(pos) > off {
			break
		}
		if tok == gotoken.SEMICOLON && lit == "\n" {
			continue
		}
		last = tok.String()
	}
	return last
}

func kindOf(n goast.Node) string {
	t := reflect.TypeOf(n)
	for t.Kind() == reflect.Ptr {
		t = t.Elem()
	}
	return t.Name()
}

// fieldOf finds the field of parent that holds child.
func fieldOf(parent, child goast.Node) string {
	pv := reflect.ValueOf(parent)
	for pv.Kind() == reflect.Ptr {
		pv = pv.Elem()
	}
	cp := reflect.ValueOf(child).Pointer()
	t := pv.Type()
	for i := 0; i < t.NumField(); i++ {
		fv := pv.Field(i)
		switch fv.Kind() {
		case reflect.Ptr:
			if !fv.IsNil() && fv.Pointer() == cp {
				return t.Field(i).Name
			}
		case reflect.Interface:
			if !fv.IsNil() && fv.Elem().Kind() == reflect.Ptr && fv.Elem().Pointer() == cp {
				return t.Field(i).Name
			}
		case reflect.Slice:
			for j := 0; j < fv.Len(); j++ {
				e := fv.Index(j)
				if e.Kind() == reflect.Interface && !e.IsNil() {
					e = e.Elem()
				}
				if e.Kind() == reflect.Ptr && !e.IsNil() && e.Pointer() == cp {
					return t.Field(i).Name
				}
			}
		}
	}
	return "?"
}

// kindHistogram counts node kinds of a projection (used as the non-triviality key of corpus files).
func kindSet(n *N, set map[string]bool) {
	if n == nil {
		return
	}
	if n.Kind != "" {
		set[n.Kind] = true
	}
	for _, k := range n.Kids {
		kindSet(k, set)
	}
}

func sortedKeys(m map[string]bool) []string {
	var ks []string
	for k := range m {
		ks = append(ks, k)
	}
	sort.Strings(ks)
	return ks
}
