package main

import (
	"fmt"
	"sort"
	"strings"

	"github.com/goplus/xgo/ast"
	"github.com/goplus/xgo/parser"
	"github.com/goplus/xgo/scanner"
	"github.com/goplus/xgo/token"

	"verifharness/hlib"
	"verifharness/syntree"
)

// C17: in an error-free parse every node's Pos is the offset of its first token, End the offset just after
// its last token; children lie inside the parent, in source order, without overlap; the source slice of an
// expression node parses to the same expression.
// Oracle S: nesting/order/token-boundary/re-parse are checked on the real tree and text alone.
// Oracle M: the first/last token of every node comes from the model's Spans(t); the harness knows the byte
// offsets of the tokens it laid out.

type tokSpan struct{ start, end int }

// scanTokens returns the byte spans of the real tokens of src (automatic semicolons are no tokens).
func scanTokens(src string) []tokSpan {
	var out []tokSpan
	fset := token.NewFileSet()
	f := fset.AddFile("", fset.Base(), len(src))
	var s scanner.Scanner
	s.Init(f, []byte(src), func(token.Position, string) {}, 0)
	for {
		pos, tok, lit := s.Scan()
		if tok == token.EOF {
			break
		}
		if tok == token.SEMICOLON && lit == "\n" {
			continue
		}
		n := len(lit)
		if n == 0 || (tok.IsOperator() && tok != token.UNIT) {
			n = len(tok.String())
		}
		switch tok {
		case token.SEMICOLON:
			n = 1
		case token.CSTRING: // c"..." : the literal text is reported without its prefix
			n = len(lit) + 1
		case token.PYSTRING:
			n = len(lit) + 2
		}
		o := f.Offset(pos)
		if tok == token.UNIT && len(out) > 0 { // the scanner reports the unit's position imprecisely
			o = out[len(out)-1].end
		}
		out = append(out, tokSpan{o, o + n})
	}
	return out
}

// synthetic nodes have no source of their own: the implicit main function of a script and its body
func synthetic(n ast.Node) bool {
	if fd, ok := n.(*ast.FuncDecl); ok && fd.Shadow {
		return true
	}
	return false
}

// marker nodes without any token: the empty receiver list the parser makes up for `func .name()` in class files
func tokenless(n ast.Node) bool {
	fl, ok := n.(*ast.FieldList)
	return ok && len(fl.List) == 0 && !fl.Opening.IsValid() && !fl.Closing.IsValid()
}

var noReparse = map[string]bool{
	"KeyValueExpr": true, "ForPhrase": true, "RangeExpr": true, "ElemEllipsis": true, "Ellipsis": true,
	"BadExpr": true, "Field": true, "FieldList": true,
}

type spanChecker struct {
	p      *parsedCase
	toks   []tokSpan
	probs  []problem
	badEnd map[ast.Node]bool // nodes whose End (or Pos) is already known to be wrong
	parent map[ast.Node]ast.Node
	inLit  map[ast.Node]bool // nodes whose text lies inside a string / domain-text literal token
	model  bool              // model spans are available: they decide Pos/End exactness
}

func (sc *spanChecker) add(sig, detail string) {
	for _, p := range sc.probs {
		if p.sig == sig {
			return
		}
	}
	sc.probs = append(sc.probs, problem{sig, detail})
}

func (sc *spanChecker) slice(a, b int) string {
	if a < 0 || b > len(sc.p.src) || a > b {
		return fmt.Sprintf("<%d,%d>", a, b)
	}
	return sc.p.src[a:b]
}

// index fills parent / inLit for the tree.
func (sc *spanChecker) index(root ast.Node) {
	sc.parent, sc.inLit, sc.badEnd = map[ast.Node]ast.Node{}, map[ast.Node]bool{}, map[ast.Node]bool{}
	var rec func(n ast.Node, lit bool)
	rec = func(n ast.Node, lit bool) {
		sc.inLit[n] = lit
		for _, c := range syntree.Children(n) {
			sc.parent[c.Node] = n
			inner := lit
			switch n.(type) {
			case *ast.BasicLit:
				inner = true
			case *ast.DomainTextLit:
				inner = lit || strings.Contains(c.Field, ".")
			}
			rec(c.Node, inner)
		}
	}
	rec(root, false)
}

// innermost: a wrong End is attributed to the innermost node that ends there (a parent whose End is
// derived from the child's is not a second defect).
func (sc *spanChecker) endBlamedOnChild(n ast.Node) bool {
	for _, c := range syntree.Children(n) {
		if sc.badEnd[c.Node] && c.Node.End() == n.End() {
			return true
		}
	}
	return false
}

// checkNode: token boundaries (only without model spans) and the re-parse obligation.
func (sc *spanChecker) checkNode(n ast.Node) {
	if tokenless(n) {
		return
	}
	kind := syntree.KindOf(n)
	pos, end := sc.p.off(n.Pos()), sc.p.off(n.End())
	if _, isFile := n.(*ast.File); isFile {
		return // File.Pos/End are documented differently (package keyword / last declaration)
	}
	if pos >= 0 && end < 0 && n.End().IsValid() {
		// End is a valid token.Pos before the file's base (e.g. Rbrack+1 with Rbrack unset): End < Pos
		sc.badEnd[n] = true
		sc.add("end-before-pos:"+kind, fmt.Sprintf("%s: End (token.Pos %d) lies before Pos %d in %q", kind, n.End(), pos, clip(sc.p.src)))
		return
	}
	if pos < 0 || end < 0 {
		sc.badEnd[n] = true
		if !sc.endBlamedOnChild(n) {
			sc.add("pos-invalid:"+kind, fmt.Sprintf("%s: Pos=%d End=%d (invalid position) in %q", kind, pos, end, sc.p.src))
		}
		return
	}
	if end < pos {
		sc.badEnd[n] = true
		if sc.endBlamedOnChild(n) {
			return
		}
		sc.add("end-before-pos:"+kind, fmt.Sprintf("%s: End %d < Pos %d in %q", kind, end, pos, clip(sc.p.src)))
		return
	}
	if _, isEmpty := n.(*ast.EmptyStmt); isEmpty {
		return
	}
	if !sc.model && !sc.inLit[n] {
		i := sort.Search(len(sc.toks), func(i int) bool { return sc.toks[i].start >= pos })
		if i >= len(sc.toks) || sc.toks[i].start != pos {
			if !(sc.parent[n] != nil && kind == "FuncType") { // see child-order:FuncDecl
				sc.add("pos-off-token:"+kind, fmt.Sprintf("%s: Pos %d is not the start of a token: node text %q", kind, pos, clip(sc.slice(pos, end))))
			}
		}
		j := sort.Search(len(sc.toks), func(i int) bool { return sc.toks[i].end >= end })
		if j >= len(sc.toks) || sc.toks[j].end != end {
			sc.badEnd[n] = true
			if !sc.endBlamedOnChild(n) {
				if j < len(sc.toks) && sc.toks[j].start < end {
					sc.add("end-short:"+kind, fmt.Sprintf("%s: End %d cuts the token %q: node text %q", kind, end, sc.slice(sc.toks[j].start, sc.toks[j].end), clip(sc.slice(pos, end))))
				} else {
					sc.add("end-long:"+kind, fmt.Sprintf("%s: End %d is behind its last token: node text %q", kind, end, clip(sc.slice(pos, end))))
				}
			}
		}
	}
	// re-parse
	if e, isExpr := n.(ast.Expr); isExpr && !noReparse[kind] && !strings.HasSuffix(kind, "Stmt") && !sc.badEnd[n] {
		if c, ok := n.(*ast.CallExpr); ok && c.IsCommand() {
			return
		}
		if _, ok := n.(*ast.FuncType); ok {
			if _, underDecl := sc.parent[n].(*ast.FuncDecl); underDecl || !n.(*ast.FuncType).Func.IsValid() {
				return
			}
		}
		if id, ok := n.(*ast.Ident); ok && (token.Lookup(id.Name) != token.IDENT || !isIdentName(id.Name)) {
			return // keyword or operator used as a name (goto, type, + ...)
		}
		text := sc.slice(pos, end)
		got, err := parser.ParseExpr(text)
		want := syntree.Project(e)
		if err != nil {
			sc.add("reparse:"+kind, fmt.Sprintf("%s: source slice %q does not parse as an expression: %s", kind, clip(text), firstLine(err.Error())))
		} else if g := syntree.Project(got); !syntree.Equal(g, want) {
			sc.add("reparse:"+kind, fmt.Sprintf("%s: source slice %q parses to %s, node is %s", kind, clip(text), clip(g.String()), clip(want.String())))
		}
	}
}

func isIdentName(s string) bool {
	if s == "" {
		return false
	}
	c := s[0]
	return c == '_' || c >= 'a' && c <= 'z' || c >= 'A' && c <= 'Z' || c >= 0x80
}

func clip(s string) string {
	if len(s) > 160 {
		return s[:160] + "..."
	}
	return s
}

// checkTree walks the real tree (children first, so that a wrong End is blamed on the innermost node) and
// checks nesting, order and the per-node obligations.
func (sc *spanChecker) checkTree(root ast.Node) {
	var rec func(n ast.Node)
	rec = func(n ast.Node) {
		syn := synthetic(n)
		kids := syntree.OrderedChildren(n)
		for _, c := range kids {
			if synthetic(c.Node) {
				if fd := c.Node.(*ast.FuncDecl); fd.Body != nil {
					for _, s := range fd.Body.List {
						rec(s)
					}
				}
				continue
			}
			rec(c.Node)
		}
		if !syn {
			sc.checkNode(n)
		}
		_, isFile := n.(*ast.File)
		ppos, pend := sc.p.off(n.Pos()), sc.p.off(n.End())
		prevEnd, prevPos := -1, -1
		pk := syntree.KindOf(n)
		for _, c := range kids {
			if synthetic(c.Node) {
				continue
			}
			if tokenless(c.Node) {
				continue
			}
			cp, ce := sc.p.off(c.Node.Pos()), sc.p.off(c.Node.End())
			if cp >= 0 && ce >= 0 && !syn && !isFile && ppos >= 0 && pend >= 0 && !sc.badEnd[n] && !sc.badEnd[c.Node] {
				if cp < ppos || ce > pend {
					sc.add(fmt.Sprintf("child-outside:%s.%s", pk, c.Field),
						fmt.Sprintf("%s [%d,%d) does not contain its %s (%s) [%d,%d): %q", pk, ppos, pend, c.Field, syntree.KindOf(c.Node), cp, ce, clip(sc.slice(ppos, pend))))
				}
			}
			if cp >= 0 && prevEnd >= 0 {
				if cp < prevPos {
					sc.add("child-order:"+pk, fmt.Sprintf("%s: child %s starts at %d, before its predecessor at %d: %q", pk, c.Field, cp, prevPos, clip(sc.slice(ppos, pend))))
				} else if cp < prevEnd && !sc.badEnd[c.Node] {
					sc.add(fmt.Sprintf("child-overlap:%s.%s", pk, c.Field),
						fmt.Sprintf("%s: child %s [%d,%d) overlaps its predecessor ending at %d: %q", pk, c.Field, cp, ce, prevEnd, clip(sc.slice(ppos, pend))))
				}
			}
			if cp >= 0 && ce >= 0 && !sc.badEnd[c.Node] {
				prevPos, prevEnd = cp, ce
			}
		}
	}
	rec(root)
}

// checkModelSpans compares Pos/End of every node with the offsets of the model's first/last token
// (innermost nodes first).  Returns a description when the real tree is not the model's tree (drift).
func (sc *spanChecker) checkModelSpans(root ast.Node, c *Case) (drift string) {
	var nodes []ast.Node
	for _, n := range realPreorder(root) {
		if !sc.inLit[n] { // children inside a literal token have no tokens of their own in the model
			nodes = append(nodes, n)
		}
	}
	if len(nodes) != len(c.Spans) {
		return fmt.Sprintf("preorder length %d, model %d", len(nodes), len(c.Spans))
	}
	for i, n := range nodes {
		if syntree.KindOf(n) != c.Spans[i].K {
			return fmt.Sprintf("node %d is a %s, model says %s", i, syntree.KindOf(n), c.Spans[i].K)
		}
	}
	for i := len(nodes) - 1; i >= 0; i-- {
		n, sp := nodes[i], c.Spans[i]
		kind := sp.K
		if synthetic(n) || kind == "File" || kind == "EmptyStmt" || sp.L < sp.F || sc.inLit[n] {
			continue
		}
		if par, ok := sc.parent[n].(*ast.FuncDecl); ok {
			if par.Shadow {
				continue // body of the implicit main function
			}
			if kind == "FuncType" {
				continue // FuncDecl.Type starts at the func keyword by design: see child-order:FuncDecl
			}
		}
		wantPos, wantEnd := sc.p.offs[sp.F-1][0], sc.p.offs[sp.L-1][1]
		pos, end := sc.p.off(n.Pos()), sc.p.off(n.End())
		d := fmt.Sprintf("%s: Pos/End = [%d,%d) %q, first/last token give [%d,%d) %q in %q", kind, pos, end,
			sc.slice(pos, end), wantPos, wantEnd, sc.slice(wantPos, wantEnd), clip(sc.p.src))
		if pos != wantPos {
			sc.badEnd[n] = true
			if pos < wantPos {
				sc.add("pos-early:"+kind, d)
			} else {
				sc.add("pos-late:"+kind, d)
			}
		}
		if end != wantEnd {
			sc.badEnd[n] = true
			if sc.endBlamedOnChild(n) {
				// derived from a child's wrong End: not a second defect
			} else if end <= pos {
				sc.add("end-before-pos:"+kind, d)
			} else {
				if end < wantEnd {
					sc.add("end-short:"+kind, d)
				} else {
					sc.add("end-long:"+kind, d)
				}
			}
		}
	}
	return ""
}

func runC17() {
	cases := hlib.ReadAllCases[Case]()
	outs := make([][]hlib.Result, len(cases))
	lays := []string{"canon", "wide"}
	if hlib.Tier() == "thorough" {
		lays = layouts
	}
	hlib.Parallel(len(cases), 8, func(i int) {
		c := &cases[i]
		var rs []hlib.Result
		if !c.OK || len(c.Toks) == 0 {
			outs[i] = []hlib.Result{{Idx: i, V: "skip", Detail: "not parseable by construction"}}
			return
		}
		rnd := caseRand(i)
		use := append([]string{}, lays...)
		if hlib.Tier() != "thorough" {
			use = append(use, []string{"tight", "nl", "rnd"}[(int(hlib.Seed())+i)%3])
		}
		for _, lay := range use {
			p, err := parseCase(c, lay, rnd)
			in := map[string]any{"tree": c.PT.String(), "layout": lay, "src": p.src}
			nt := lay + ":" + shapeKey(c.T, c.PT)
			if err != nil {
				rs = append(rs, hlib.Result{Idx: i, V: "drift", Sig: "model-text-rejected", Input: in,
					Detail: fmt.Sprintf("%q: %s", p.src, firstLine(err.Error()))})
				continue
			}
			sc := &spanChecker{p: p, toks: scanTokens(p.src), model: true}
			sc.index(p.root)
			drift := sc.checkModelSpans(p.root, c)
			if drift != "" {
				sc.model = false
			}
			sc.checkTree(p.root)
			for _, q := range sc.probs {
				rs = append(rs, hlib.Result{Idx: i, V: "viol", Sig: q.sig, Detail: q.detail, Input: in, NT: nt})
			}
			if len(sc.probs) == 0 {
				if drift != "" {
					rs = append(rs, hlib.Result{Idx: i, V: "drift", Sig: "preorder-mismatch", Detail: drift + fmt.Sprintf(" for %q", p.src), Input: in, NT: nt})
				} else {
					rs = append(rs, hlib.Result{Idx: i, V: "ok", Detail: fmt.Sprintf("%d nodes: Pos/End = first/last token, nested, ordered, re-parse equal", len(c.Spans)), Input: in, NT: nt})
				}
			}
		}
		outs[i] = rs
	})
	for _, rs := range outs {
		for _, r := range rs {
			hlib.Emit(r)
		}
	}
}

var _ = strings.Join
