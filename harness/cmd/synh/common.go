package main

import (
	"fmt"
	"math/rand"
	"strings"

	"github.com/goplus/xgo/ast"
	"github.com/goplus/xgo/parser"
	"github.com/goplus/xgo/token"

	"verifharness/hlib"
	"verifharness/syntree"
)

// parsedCase is the real parser's view of one rendered model tree.
type parsedCase struct {
	root ast.Node    // the node that corresponds to the model tree pt
	file *ast.File   // set when the text was parsed as a file
	src  string      // the rendered text
	offs [][2]int    // [start,end) byte offsets of the model tokens in src
	tf   *token.File // maps positions to offsets
}

func (p *parsedCase) off(pos token.Pos) int {
	if !pos.IsValid() {
		return -1
	}
	if int(pos) < p.tf.Base() || int(pos) > p.tf.Base()+p.tf.Size() {
		return -2
	}
	return p.tf.Offset(pos)
}

func isExprKind(k string) bool {
	return strings.HasSuffix(k, "Expr") || strings.HasSuffix(k, "Lit") || strings.HasSuffix(k, "Type") ||
		k == "Ident" || k == "LambdaExpr2" || k == "Ellipsis"
}

// parseCase renders the model tokens under a layout and parses the text with the real parser:
// expression trees with parser.ParseExprFrom, everything else as (part of) a file.
func parseCase(c *Case, layout string, rnd *rand.Rand) (*parsedCase, error) {
	src, offs := Layout(c.Toks, layout, func() int { return rnd.Int() })
	p := &parsedCase{src: src, offs: offs}
	fset := token.NewFileSet()
	if c.Ctx != "stmt" && isExprKind(c.PT.K) {
		e, err := parser.ParseExprFrom(fset, "case.xgo", []byte(src), 0)
		if err != nil {
			return p, err
		}
		p.root = e
	} else {
		mode := parser.Mode(0)
		name := "case.xgo"
		if c.PT.K == "File" && strings.Contains(c.PT.A, "class") {
			mode |= parser.ParseGoPlusClass
			name = "case.gox"
		}
		f, err := parser.ParseFile(fset, name, []byte(src), mode)
		if err != nil {
			return p, err
		}
		p.file = f
		switch {
		case c.PT.K == "File":
			p.root = f
		case strings.HasSuffix(c.PT.K, "Decl"):
			if len(f.Decls) != 1 {
				return p, fmt.Errorf("expected one declaration, got %d", len(f.Decls))
			}
			p.root = f.Decls[0]
		default:
			var stmts []ast.Stmt
			for _, d := range f.Decls {
				if fd, ok := d.(*ast.FuncDecl); ok && fd.Shadow && fd.Body != nil {
					stmts = append(stmts, fd.Body.List...)
				}
			}
			if len(stmts) != 1 {
				return p, fmt.Errorf("expected one statement, got %d statements / %d declarations", len(stmts), len(f.Decls))
			}
			p.root = stmts[0]
		}
	}
	fset.Iterate(func(f *token.File) bool { p.tf = f; return false })
	return p, nil
}

// realPreorder lists the nodes under root, parents first, children in source order (comments left out:
// the model trees have none).
func realPreorder(root ast.Node) []ast.Node {
	var out []ast.Node
	var rec func(n ast.Node)
	rec = func(n ast.Node) {
		out = append(out, n)
		for _, c := range syntree.OrderedChildren(n) {
			rec(c.Node)
		}
	}
	rec(root)
	return out
}

func caseRand(idx int) *rand.Rand {
	return rand.New(rand.NewSource(hlib.Seed()*1000003 + int64(idx)))
}

var layouts = []string{"canon", "tight", "wide", "nl", "rnd"}
