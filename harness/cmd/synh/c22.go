package main

import (
	"bytes"
	"encoding/json"
	"fmt"
	"os"
	"os/exec"
	"strings"
	"sync"

	"github.com/goplus/xgo/ast"
	"github.com/goplus/xgo/parser"
	"github.com/goplus/xgo/printer"
	"github.com/goplus/xgo/scanner"
	"github.com/goplus/xgo/token"

	"verifharness/hlib"
	"verifharness/syntree"
)

// C22: printing a synthesized tree (no positions, no ParenExpr) gives text that parses back to the
// same tree.  Oracle M: the tree set and the parentheses a correct printer needs come from the model;
// the alarm is raised only when the REAL printer's text does not parse back (real parser) to the tree.

type rtResult struct {
	ok    bool
	text  string
	got   *syntree.Tree
	stage string // "", "build", "print-panic", "parse-error", "differs"
	err   string
}

// roundTrip builds the real ast value, prints it with printer.Fprint, parses the text back.
func roundTrip(t *syntree.Tree, ctx string) (r rtResult) {
	stage := "print-panic"
	defer func() {
		if e := recover(); e != nil {
			r.ok, r.stage, r.err = false, stage, fmt.Sprint(e)
		}
	}()
	node, err := syntree.Build(t)
	if err != nil {
		return rtResult{stage: "build", err: err.Error()}
	}
	var buf bytes.Buffer
	var what any = node
	if st, ok := node.(ast.Stmt); ok {
		// a ForPhraseStmt also satisfies ast.Expr (embedded *ForPhrase), and printer.Fprint tests ast.Expr first and
		// ends in log.Fatalf (see fprintProbe / signature print-fatal:ForPhraseStmt); statements are therefore handed
		// over as a one-element statement list, which the printer supports as well
		what = []ast.Stmt{st}
	}
	if err := printer.Fprint(&buf, token.NewFileSet(), what); err != nil {
		return rtResult{stage: "print-panic", err: err.Error()}
	}
	r.text = buf.String()
	stage = "parse-panic"
	var got *syntree.Tree
	if ctx == "expr" || (ctx == "file" && isExprKind(t.K)) {
		e, err := parser.ParseExpr(r.text)
		if err != nil {
			r.stage, r.err = "parse-error", err.Error()
			return
		}
		got = syntree.Project(e)
	} else {
		mode, name := parser.Mode(0), "case.xgo"
		if t.K == "File" && strings.Contains(t.A, "class") {
			mode, name = parser.ParseGoPlusClass, "case.gox"
		}
		f, err := parser.ParseFile(token.NewFileSet(), name, r.text, mode)
		if err != nil {
			r.stage, r.err = "parse-error", err.Error()
			return
		}
		got = fileBody(f, t)
	}
	r.got = syntree.Strip(got)
	if syntree.Equal(r.got, syntree.Strip(t)) {
		r.ok = true
	} else {
		r.stage = "differs"
	}
	return
}

// fileBody projects what a parsed file holds in the shape of want: a File, a declaration, or the
// statement(s) of the implicit main function.
func fileBody(f *ast.File, want *syntree.Tree) *syntree.Tree {
	if want.K == "File" {
		return syntree.Project(f)
	}
	var stmts []ast.Stmt
	var decls []ast.Decl
	for _, d := range f.Decls {
		if fd, ok := d.(*ast.FuncDecl); ok && fd.Shadow {
			stmts = append(stmts, fd.Body.List...)
		} else {
			decls = append(decls, d)
		}
	}
	if len(stmts) == 1 && len(decls) == 0 {
		return syntree.Project(stmts[0])
	}
	if len(stmts) == 0 && len(decls) == 1 {
		return syntree.Project(decls[0])
	}
	return syntree.Project(f)
}

// standalone: can this subtree be printed and parsed on its own as an expression?
func standalone(t *syntree.Tree) bool {
	if t.IsPseudo() {
		return false
	}
	switch t.K {
	case "KeyValueExpr", "ForPhrase", "RangeExpr", "ElemEllipsis", "FieldList", "Field", "Ellipsis":
		return false
	}
	if t.K == "CallExpr" && syntree.IsCmdKind(t.A) {
		return false
	}
	if (t.K == "FuncType" && t.A == "decl") || t.K == "MatrixLit" {
		return false // a method signature / a matrix literal (only accepted as call argument) cannot stand alone
	}
	return strings.HasSuffix(t.K, "Expr") || strings.HasSuffix(t.K, "Lit") || strings.HasSuffix(t.K, "Type") ||
		t.K == "Ident" || t.K == "LambdaExpr2"
}

type slot struct {
	parent *syntree.Tree // the real node owning the slot
	field  string
	holder *syntree.Tree // node (real or List) whose C[idx] is the slot
	idx    int
}

// slots lists the standalone descendants of cur reachable without passing through another standalone node.
func slots(cur *syntree.Tree) []slot {
	var out []slot
	var rec func(real *syntree.Tree, field string, holder *syntree.Tree)
	rec = func(real *syntree.Tree, field string, holder *syntree.Tree) {
		for i, c := range holder.C {
			f := field
			if holder == real {
				f = syntree.FieldName(real.K, i)
			}
			switch {
			case c.K == "Nil":
			case c.K == "List":
				rec(real, f, c)
			case standalone(c) || c.K == "MatrixLit":
				out = append(out, slot{real, f, holder, i})
			default:
				rec(c, "", c)
			}
		}
	}
	rec(cur, "", cur)
	return out
}

// diagnose computes the structural signature of a failed round trip: the smallest failing subtree, the
// child slot responsible, and whether explicit parentheses around that child repair it.
func diagnose(t *syntree.Tree, ctx string) (sig, detail string) {
	cur, curCtx := t, ctx
descend:
	for {
		for _, s := range slots(cur) {
			ch := s.holder.C[s.idx]
			if len(ch.C) == 0 || !standalone(ch) {
				continue
			}
			if r := roundTrip(ch, "expr"); !r.ok && r.stage != "build" {
				cur, curCtx = ch, "expr"
				continue descend
			}
		}
		break
	}
	base := roundTrip(cur, curCtx)
	detail = fmt.Sprintf("tree %s printed as %q", syntree.Strip(cur), base.text)
	if base.got != nil {
		detail += fmt.Sprintf(" parses to %s", base.got)
	} else {
		detail += fmt.Sprintf(" %s: %s", base.stage, firstLine(base.err))
	}
	if base.stage == "print-panic" {
		return "print-panic:" + cur.K, detail
	}
	parsePanic := base.stage == "parse-panic"
	_ = parsePanic
	for _, s := range slots(cur) {
		orig := s.holder.C[s.idx]
		if orig.K == "Ident" {
			continue
		}
		s.holder.C[s.idx] = syntree.N("Ident", "z")
		fixed := roundTrip(cur, curCtx).ok
		s.holder.C[s.idx] = orig
		if !fixed {
			continue
		}
		s.holder.C[s.idx] = syntree.N("ParenExpr", "", orig)
		paren := roundTrip(cur, curCtx).ok
		s.holder.C[s.idx] = orig
		class := "misprint"
		if paren {
			class = "noparen"
		}
		if parsePanic { // the printed text crashes the parser (a parser defect of its own, C13)
			detail += " [the parser PANICS on this text]"
		}
		// two grammar hazards have one root cause each, whatever the slot:
		if colonSlot(s.parent.K, s.field) && rightEdgeErrWrap(orig) {
			return class + ":errwrap-before-colon", detail
		}
		if s.parent.K == "CaseClause" && s.field == "List" && rightEdgeErrWrap(orig) {
			return class + ":errwrap-before-case-colon", detail // the same hazard at the ':' of a case clause (own code path)
		}
		if elementSlot(s.parent, s.field) && leftEdgeBrace(orig) {
			return class + ":brace-literal-element", detail
		}
		// one signature per root cause: a lambda used as an operand is never parenthesised by the
		// printer, whatever the parent; otherwise the slot whose child lost its parentheses
		if strings.HasPrefix(orig.K, "LambdaExpr") && !strings.HasPrefix(s.parent.K, "LambdaExpr") {
			if lambdaFreeSlot(s.parent, s.field) {
				// a slot the printer prints at the lowest precedence but the parser reads without lambdas
				return class + ":element-LambdaExpr", detail
			}
			return class + ":operand-LambdaExpr", detail
		}
		// `x?:d` is a unary-level expression; as operand of a postfix operator it needs parentheses, whatever the operator
		if orig.K == "ErrWrapExpr" && len(orig.C) == 2 && syntree.FieldName(s.parent.K, 0) == s.field && s.parent.K != "BinaryExpr" {
			return class + ":operand-ErrWrapDefault", detail
		}
		return fmt.Sprintf("%s:%s.%s", class, s.parent.K, s.field), detail
	}
	// no single slot repairs it: several lambda operands at once?
	for _, s := range slots(cur) {
		if strings.HasPrefix(s.holder.C[s.idx].K, "LambdaExpr") && !strings.HasPrefix(s.parent.K, "LambdaExpr") {
			if lambdaFreeSlot(s.parent, s.field) {
				return "noparen:element-LambdaExpr", detail
			}
			return "noparen:operand-LambdaExpr", detail
		}
	}
	return "misprint:" + cur.K, detail
}

func firstLine(s string) string {
	if i := strings.IndexByte(s, '\n'); i >= 0 {
		return s[:i]
	}
	return s
}

// scanSpellings tokenises text with the real scanner (automatic semicolons dropped, unit glued to its number).
func scanSpellings(text string) []string {
	var out []string
	fset := token.NewFileSet()
	f := fset.AddFile("", fset.Base(), len(text))
	var s scanner.Scanner
	s.Init(f, []byte(text), nil, 0)
	for {
		_, tok, lit := s.Scan()
		if tok == token.EOF {
			break
		}
		if tok == token.SEMICOLON {
			continue
		}
		if tok == token.UNIT && len(out) > 0 {
			out[len(out)-1] += lit
			continue
		}
		if lit == "" || tok.IsOperator() {
			lit = tok.String()
		}
		switch tok { // the scanner reports these literals without their prefix
		case token.CSTRING:
			lit = "c" + lit
		case token.PYSTRING:
			lit = "py" + lit
		}
		out = append(out, lit)
	}
	return out
}

// fprintProbe: printer.Fprint(node) for a single tree, run in a child process (`synh fprintprobe`) because the
// defect it looks for ends the process with log.Fatalf.
func runFprintProbe() {
	var t syntree.Tree
	if err := json.NewDecoder(os.Stdin).Decode(&t); err != nil {
		os.Exit(3)
	}
	node, err := syntree.Build(&t)
	if err != nil {
		os.Exit(3)
	}
	var buf bytes.Buffer
	if err := printer.Fprint(&buf, token.NewFileSet(), node); err != nil {
		fmt.Fprintln(os.Stderr, err)
		os.Exit(4)
	}
	os.Stdout.Write(buf.Bytes())
}

var (
	probeOnce   sync.Once
	probeFatal  bool
	probeOutput string
)

// fprintFatal reports (once per run) whether printer.Fprint on a bare *ast.ForPhraseStmt kills the process.
func fprintFatal(t *syntree.Tree) (bool, string) {
	probeOnce.Do(func() {
		in, _ := json.Marshal(t)
		cmd := exec.Command(os.Args[0], "fprintprobe")
		cmd.Stdin = bytes.NewReader(in)
		var out, errb bytes.Buffer
		cmd.Stdout, cmd.Stderr = &out, &errb
		if err := cmd.Run(); err != nil && strings.Contains(errb.String(), "unreachable") {
			probeFatal, probeOutput = true, strings.TrimSpace(errb.String())
		}
	})
	return probeFatal, probeOutput
}

func runC22() {
	cases := hlib.ReadAllCases[Case]()
	results := make([]hlib.Result, len(cases))
	var extra []hlib.Result
	var extraMu sync.Mutex
	hlib.Parallel(len(cases), 8, func(i int) {
		c := &cases[i]
		res := hlib.Result{Idx: i, V: "ok"}
		// non-trivial / distinct: the multiset of node kinds + whether parentheses are needed
		res.NT = shapeKey(c.T, c.PT)
		if !c.OK {
			// the model itself cannot round-trip this tree / the parser has no syntax for it: outside the domain
			res.V, res.Detail = "skip", "model: not parseable"
			results[i] = res
			return
		}
		if c.NoDom {
			// not a well-formed paren-free tree: a composite literal directly in a control clause needs its
			// ParenExpr in the tree (go/ast convention), the printer is not expected to invent it
			res.V, res.Detail = "skip", "composite literal directly in a control clause"
			results[i] = res
			return
		}
		if c.T.K == "ForPhraseStmt" {
			if fatal, msg := fprintFatal(c.T); fatal {
				extraMu.Lock()
				if len(extra) == 0 {
					extra = append(extra, hlib.Result{Idx: i, V: "viol", Sig: "print-fatal:ForPhraseStmt",
						Detail: "printer.Fprint(w, fset, *ast.ForPhraseStmt) ends the process: " + msg + " [tree " + c.T.String() + "]",
						Input:  map[string]any{"tree": c.T.String()}})
				}
				extraMu.Unlock()
			}
		}
		r := roundTrip(c.T, c.Ctx)
		res.Input = map[string]any{"tree": c.T.String(), "printed": r.text}
		switch {
		case r.stage == "build":
			res.V, res.Sig, res.Detail = "viol", "harness-build", r.err
		case r.ok:
			res.Detail = "parses back to the tree"
			// drift: the real printer's tokens differ from the model's minimal-paren printing
			var want []string
			for _, t := range c.Toks {
				if t.G != "n" && t.S != ";" { // row separators of a matrix literal are line breaks in the printer's text
					want = append(want, t.S)
				}
			}
			got := scanSpellings(r.text)
			if c.Ctx != "file" && strings.Join(got, " ") != strings.Join(want, " ") {
				res.V = "drift"
				res.Sig = "print-tokens:" + tokenDiff(want, got)
				res.Detail = fmt.Sprintf("model prints %q, printer %q (parses back correctly)", strings.Join(want, " "), r.text)
			}
		default:
			res.V = "viol"
			res.Sig, res.Detail = diagnose(syntree.Clone(c.T), c.Ctx)
		}
		results[i] = res
	})
	for _, r := range results {
		hlib.Emit(r)
	}
	for _, r := range extra {
		hlib.Emit(r)
	}
}

// tokenDiff abstracts the first difference between the model's and the printer's token sequences.
func tokenDiff(want, got []string) string {
	i := 0
	for i < len(want) && i < len(got) && want[i] == got[i] {
		i++
	}
	w, g := "<end>", "<end>"
	if i < len(want) {
		w = want[i]
	}
	if i < len(got) {
		g = got[i]
	}
	cls := func(s string) string {
		if s == "" {
			return s
		}
		c := s[0]
		if c >= 'a' && c <= 'z' || c >= 'A' && c <= 'Z' || c >= '0' && c <= '9' || c == '"' || c == '`' || c == '\'' {
			return "word"
		}
		return s
	}
	return "model=" + cls(w) + ",printer=" + cls(g)
}

func shapeKey(t, pt *syntree.Tree) string {
	var ks []string
	for _, n := range syntree.Preorder(pt) {
		k := n.K
		if n.K == "BinaryExpr" || n.K == "UnaryExpr" || n.K == "ErrWrapExpr" || n.K == "CallExpr" {
			k += n.A
		}
		ks = append(ks, k)
	}
	return strings.Join(ks, " ")
}

// colonSlot: is the slot directly followed by ":" in the source
func colonSlot(kind, field string) bool {
	switch kind + "." + field {
	case "SliceExpr.Low", "SliceExpr.High", "KeyValueExpr.Key", "RangeExpr.First", "RangeExpr.Last":
		return true
	}
	return false
}

// rightEdgeErrWrap: the rightmost unparenthesised primary of t is `x!` / `x?` without default
// (followed by ":" the parser reads `x?:d`, parseErrWrapExpr)
func rightEdgeErrWrap(t *syntree.Tree) bool {
	for {
		switch {
		case t.K == "BinaryExpr" || t.K == "KeyValueExpr" || (t.K == "ErrWrapExpr" && len(t.C) == 2):
			t = t.C[1]
		case t.K == "UnaryExpr" || t.K == "StarExpr":
			t = t.C[0]
		case t.K == "LambdaExpr" && !strings.Contains(t.A, "r") && len(t.C[1].C) > 0:
			t = t.C[1].C[len(t.C[1].C)-1]
		default:
			return t.K == "ErrWrapExpr" && len(t.C) == 1
		}
	}
}

// elementSlot: element of a composite literal / {..} comprehension (parseValue: a leading "{" is a complete literal)
func elementSlot(parent *syntree.Tree, field string) bool {
	switch parent.K {
	case "CompositeLit":
		return field == "Elts"
	case "ComprehensionExpr":
		return field == "Elt" && parent.A == "{"
	case "KeyValueExpr":
		return true
	}
	return false
}

// leftEdgeBrace: the text of t starts with "{" although t is not itself a brace literal
func leftEdgeBrace(t *syntree.Tree) bool {
	top := t
	for {
		switch t.K {
		case "BinaryExpr", "ErrWrapExpr", "SelectorExpr", "IndexExpr", "IndexListExpr", "SliceExpr", "TypeAssertExpr", "CallExpr", "KeyValueExpr":
			t = t.C[0]
		default:
			return t != top && ((t.K == "CompositeLit" && t.C[0].K == "Nil") || (t.K == "ComprehensionExpr" && t.A == "{"))
		}
	}
}

// lambdaFreeSlot: slots that are no operator operands but are parsed with lhs = true / as binary
// expressions, so that a lambda needs parentheses there (composite literal elements and keys, range
// bounds, conditions, expression statements).
func lambdaFreeSlot(parent *syntree.Tree, field string) bool {
	switch parent.K {
	case "CompositeLit":
		return field == "Elts"
	case "KeyValueExpr":
		return field == "Key"
	case "ComprehensionExpr":
		return field == "Elt" && parent.A == "{"
	case "RangeExpr", "ExprStmt", "IncDecStmt":
		return true
	case "ForPhrase":
		return field == "Cond"
	}
	return false
}
