package main

import (
	"fmt"
	"os"

	"verifharness/hlib"
)

func main() {
	if len(os.Args) < 2 {
		fmt.Fprintln(os.Stderr, "usage: synh c22|c17|c18 < cases.ndjson | synh corpus c17|c18 <root> [file...]")
		os.Exit(3)
	}
	switch os.Args[1] {
	case "c22":
		runC22()
	case "fprintprobe":
		runFprintProbe()
	case "c17":
		runC17()
	case "c18":
		runC18()
	case "corpus":
		runCorpus(os.Args[2:])
	default:
		fmt.Fprintln(os.Stderr, "unknown mode", os.Args[1])
		os.Exit(3)
	}
	hlib.Flush()
}
