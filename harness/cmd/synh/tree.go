// synh: conformance harness of the syntax family (specs/syntax/Syntax.tla).
//
// CASE RECORD (one per tree explored by TLC, see Export in Syntax.tla):
//
//	{"ctx":  "expr" | "stmt",            how the text is parsed: parser.ParseExpr | a statement of a file
//	 "t":    <tree>,                     the abstract tree, no ParenExpr (Mode "gen")
//	 "pt":   <tree>,                     Par(t): the same tree with the parentheses a correct printer must insert
//	 "toks": [{"s":spelling,"g":gap class,"sep":blank required,"nl":line break allowed before}, ...]  tokens of pt
//	 "spans":[{"k":kind,"f":first,"l":last}, ...]   1-based token indexes of every node of pt, preorder
//	 "walk": ["BinaryExpr","Ident","nil",...]       what ast.Walk must show the visitor for pt
//	 "ok":   true,                       the model parser maps toks back to pt
//	 "nodom": false}                     true: t is not a well-formed paren-free tree (composite literal directly
//	                                     in a control clause); C22 skips it
//
// <tree> is the JSON tree shape {"k":kind,"a":attribute,"c":[children]} described at the top of
// verifharness/syntree (harness/syntree/tree.go): k = Go type name of the ast node (or the pseudo kinds
// "Nil" = absent optional child, "List" = one []T field), a = operator/name/literal/flags, c = children in
// source order.  syntree.Build makes the real ast value (no positions), syntree.Project maps an ast value
// back, syntree.Strip removes ParenExpr.
package main

import (
	"strings"

	"verifharness/syntree"
)

// Tok is one rendered token of the model.
type Tok struct {
	S   string `json:"s"`
	G   string `json:"g"` // f free, b free (canonical blank), g glued, w white space required, s same as previous gap, n statement separator
	Sep bool   `json:"sep"`
	NL  bool   `json:"nl"`
}

// Span is the model's first/last token (1-based) of a node.
type Span struct {
	K string `json:"k"`
	F int    `json:"f"`
	L int    `json:"l"`
}

// Case is one CASE record.
type Case struct {
	Ctx   string        `json:"ctx"`
	T     *syntree.Tree `json:"t"`
	PT    *syntree.Tree `json:"pt"`
	Toks  []Tok         `json:"toks"`
	Spans []Span        `json:"spans"`
	Walk  []string      `json:"walk"`
	OK    bool          `json:"ok"`
	NoDom bool          `json:"nodom"` // outside the domain of C22: a composite literal directly in a control clause
}

// Layout renders the tokens; returns the text and the [start,end) byte offsets of every token.
// mode: "canon" (blank where the model's canonical printing has one), "tight" (only required blanks),
// "wide" (blank in every free gap), "nl" (line break wherever one is legal, else wide),
// "rnd" (seeded choice per gap).  Statement separators (g = "n") are a newline, or "; " in tight mode.
func Layout(toks []Tok, mode string, rnd func() int) (string, [][2]int) {
	var b strings.Builder
	offs := make([][2]int, len(toks))
	prevGap := false
	for i, t := range toks {
		gap := ""
		if i > 0 {
			want := false
			switch t.G {
			case "w":
				want = true
			case "g":
				want = false
			case "s":
				want = prevGap
			case "b":
				want = mode != "tight"
			case "n":
				want = true
			default:
				want = mode == "wide" || mode == "nl"
			}
			if mode == "rnd" && (t.G == "f" || t.G == "b") {
				want = rnd()%2 == 0
			}
			if t.Sep {
				want = true
			}
			if want {
				gap = " "
				if t.NL && (mode == "nl" || (mode == "rnd" && rnd()%3 == 0)) {
					gap = "\n"
				}
			}
			prevGap = want
		}
		if t.G == "n" { // statement separator
			if mode == "tight" || (mode == "rnd" && rnd()%2 == 0) {
				b.WriteString(";")
				offs[i] = [2]int{b.Len() - 1, b.Len()}
			} else {
				if mode == "wide" || (mode == "rnd" && rnd()%2 == 0) {
					b.WriteString(" ") // trailing blank before the line break
				}
				offs[i] = [2]int{b.Len(), b.Len()}
				b.WriteString("\n")
			}
			prevGap = true
			continue
		}
		b.WriteString(gap)
		offs[i][0] = b.Len()
		b.WriteString(t.S)
		offs[i][1] = b.Len()
	}
	if mode == "wide" {
		b.WriteString(" ") // trailing blank at the end of the text
	}
	return b.String(), offs
}
