package main

import (
	"fmt"
	"io/fs"
	"os"
	"path/filepath"
	"sort"
	"strings"

	"github.com/goplus/xgo/parser"
	"github.com/goplus/xgo/token"

	"verifharness/hlib"
)

// corpus mode: every .xgo/.gop/.gox/.go file below the given root that the XGo parser accepts without
// error is put through the traversal (c18) or span (c17) comparator.  TLC has no part in choosing these
// files; they are counted separately (summary line) and never replace the model-driven cases.
func runCorpus(args []string) {
	if len(args) < 2 {
		fmt.Fprintln(os.Stderr, "usage: synh corpus c17|c18 <root> [file...]")
		os.Exit(3)
	}
	which, root := args[0], args[1]
	var files []string
	if len(args) > 2 {
		files = args[2:]
	} else {
		filepath.WalkDir(root, func(path string, d fs.DirEntry, err error) error {
			if err != nil {
				return nil
			}
			if d.IsDir() {
				if d.Name() == ".git" {
					return filepath.SkipDir
				}
				return nil
			}
			switch filepath.Ext(path) {
			case ".xgo", ".gop", ".gox", ".go":
				files = append(files, path)
			}
			return nil
		})
		sort.Strings(files)
	}
	type out struct {
		rs     []hlib.Result
		parsed bool
	}
	outs := make([]out, len(files))
	hlib.Parallel(len(files), 8, func(i int) {
		path := files[i]
		rel, _ := filepath.Rel(root, path)
		src, err := os.ReadFile(path)
		if err != nil {
			return
		}
		mode := parser.Mode(0)
		if filepath.Ext(path) == ".gox" {
			mode |= parser.ParseGoPlusClass
		}
		var rs []hlib.Result
		func() {
			defer func() {
				if e := recover(); e != nil {
					// a parser panic on a repository file is not this property's business (C13)
					rs = append(rs, hlib.Result{Idx: -1, V: "skip", Detail: fmt.Sprintf("%s: parser panic: %v", rel, e)})
				}
			}()
			fset := token.NewFileSet()
			f, err := parser.ParseFile(fset, path, src, mode)
			if err != nil || f == nil {
				rs = append(rs, hlib.Result{Idx: -1, V: "skip", Detail: rel + ": does not parse"})
				return
			}
			outs[i].parsed = true
			in := map[string]any{"file": rel}
			var probs []problem
			nodes := 0
			if which == "c18" {
				probs, _ = checkTraversal(f, true)
				nodes = len(realPreorder(f))
			} else {
				p := &parsedCase{root: f, file: f, src: string(src)}
				fset.Iterate(func(tf *token.File) bool { p.tf = tf; return false })
				sc := &spanChecker{p: p, toks: scanTokens(p.src)}
				sc.index(f)
				sc.checkTree(f)
				probs = sc.probs
				nodes = len(sc.parent) + 1
			}
			for _, q := range probs {
				rs = append(rs, hlib.Result{Idx: -1, V: "viol", Sig: q.sig, Detail: rel + ": " + q.detail, Input: in, NT: "corpus:" + rel})
			}
			if len(probs) == 0 {
				rs = append(rs, hlib.Result{Idx: -1, V: "ok", Detail: fmt.Sprintf("%d nodes", nodes), Input: in, NT: "corpus:" + rel})
			}
		}()
		outs[i].rs = rs
	})
	n := 0
	for _, o := range outs {
		if o.parsed {
			n++
		}
		for _, r := range o.rs {
			hlib.Emit(r)
		}
	}
	hlib.EmitRaw(map[string]any{"v": "summary", "corpus_files_seen": len(files), "corpus_files_parsed": n})
}

var _ = strings.TrimSpace
