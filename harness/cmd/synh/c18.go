package main

import (
	"fmt"
	"strings"

	"github.com/goplus/xgo/ast"

	"verifharness/hlib"
	"verifharness/syntree"
)

// C18: ast.Walk / ast.Inspect visit every non-nil child exactly once, parents first, siblings in source
// order, with a nil call after each node's children, without panicking.
// Oracle S: the expected event sequence is the reflection-based enumeration of the node's fields.
// Oracle M: its kinds equal the model's WalkEvents(t) (checked; a mismatch alone is drift).

type wnode struct {
	n    ast.Node
	kids []*wnode
}

type walkObs struct {
	root     *wnode
	kinds    []string // event kinds in order ("nil" for the closing call)
	panicked any
	last     ast.Node // node given to the visitor last (the one being expanded at a panic)
	unclosed string   // kind of a node whose closing nil never came (without a panic)
	orphan   bool
}

type recVisitor struct {
	o     *walkObs
	stack *[]*wnode
}

func (v recVisitor) Visit(n ast.Node) ast.Visitor {
	v.o.event(n, v.stack)
	return v
}

func (o *walkObs) event(n ast.Node, stack *[]*wnode) {
	if n == nil {
		o.kinds = append(o.kinds, "nil")
		if len(*stack) == 0 {
			o.orphan = true
			return
		}
		*stack = (*stack)[:len(*stack)-1]
		return
	}
	o.kinds = append(o.kinds, syntree.KindOf(n))
	o.last = n
	w := &wnode{n: n}
	if len(*stack) == 0 {
		if o.root == nil {
			o.root = w
		} else {
			o.orphan = true
		}
	} else {
		top := (*stack)[len(*stack)-1]
		top.kids = append(top.kids, w)
	}
	*stack = append(*stack, w)
}

func observe(root ast.Node, useInspect bool) (o *walkObs) {
	o = &walkObs{}
	var stack []*wnode
	defer func() {
		if e := recover(); e != nil {
			o.panicked = e
		} else if len(stack) > 0 {
			o.unclosed = syntree.KindOf(stack[len(stack)-1].n)
		}
	}()
	if useInspect {
		ast.Inspect(root, func(n ast.Node) bool { o.event(n, &stack); return true })
	} else {
		ast.Walk(recVisitor{o, &stack}, root)
	}
	return
}

type problem struct{ sig, detail string }

// compareWalk checks the observed traversal against the reflection-based expectation, node by node.
func compareWalk(root ast.Node, o *walkObs, api string, positional bool) []problem {
	var ps []problem
	add := func(sig, d string) {
		for _, p := range ps {
			if p.sig == sig {
				return
			}
		}
		ps = append(ps, problem{sig, api + ": " + d})
	}
	if o.panicked != nil {
		k := "?"
		if o.last != nil {
			k = syntree.KindOf(o.last)
		}
		add("walk-panic:"+k, fmt.Sprintf("panic while walking a %s: %v", k, o.panicked))
	}
	if o.unclosed != "" {
		add("walk-missing-nil:"+o.unclosed, "no closing Visit(nil) for a "+o.unclosed)
	}
	if o.orphan {
		add("walk-extra-event", "events outside the root node")
	}
	if o.root == nil || o.root.n != root {
		add("walk-root", "the root node is not the first event")
		return ps
	}
	var rec func(w *wnode)
	rec = func(w *wnode) {
		kind := syntree.KindOf(w.n)
		want := syntree.OrderedChildren(w.n)
		if o.panicked != nil && w.n == o.last {
			return // expansion of this node was cut short by the panic already reported
		}
		seen := map[ast.Node]int{}
		for _, k := range w.kids {
			seen[k.n]++
		}
		wantSet := map[ast.Node]string{}
		for _, c := range want {
			wantSet[c.Node] = c.Field
		}
		for _, c := range want {
			switch seen[c.Node] {
			case 0:
				if o.panicked == nil || !under(w, o.last) {
					add(fmt.Sprintf("walk-missing-child:%s.%s", kind, baseField(c.Field)),
						fmt.Sprintf("%s.%s (a %s) is never visited", kind, c.Field, syntree.KindOf(c.Node)))
				}
			case 1:
			default:
				add(fmt.Sprintf("walk-duplicate:%s.%s", kind, baseField(c.Field)), fmt.Sprintf("%s.%s visited %d times", kind, c.Field, seen[c.Node]))
			}
		}
		for _, k := range w.kids {
			if _, ok := wantSet[k.n]; !ok {
				add("walk-extra:"+kind, fmt.Sprintf("%s: visits a %s that is not one of its children", kind, syntree.KindOf(k.n)))
			}
		}
		// order among the children both sides know
		var a, b []ast.Node
		for _, c := range want {
			if seen[c.Node] > 0 {
				a = append(a, c.Node)
			}
		}
		done := map[ast.Node]bool{}
		for _, k := range w.kids {
			if _, ok := wantSet[k.n]; ok && !done[k.n] {
				b = append(b, k.n)
				done[k.n] = true
			}
		}
		for i := range a {
			if positional && i < len(b) && a[i] != b[i] {
				add("walk-order:"+kind, fmt.Sprintf("%s: child %s (%s) visited where %s (%s) is due", kind,
					wantSet[b[i]], syntree.KindOf(b[i]), wantSet[a[i]], syntree.KindOf(a[i])))
				break
			}
		}
		for _, k := range w.kids {
			rec(k)
		}
	}
	rec(o.root)
	return ps
}

func baseField(f string) string {
	if i := strings.IndexByte(f, '.'); i >= 0 {
		return f[i+1:] + "@" + f[:i] // DomainTextLit.Extra.Args -> "Args@Extra"
	}
	return f
}

// under reports whether node n was reached below w in the observed traversal.
func under(w *wnode, n ast.Node) bool {
	if w.n == n {
		return true
	}
	for _, k := range w.kids {
		if under(k, n) {
			return true
		}
	}
	return false
}

// checkTraversal runs Walk and Inspect over root; returns problems and the event kinds Walk produced.
// positional: the tree has source positions, so sibling order is judged by them; for a synthesized tree
// (no positions) the order is judged against the model's sequence by the caller (orderAgainstModel).
func checkTraversal(root ast.Node, positional bool) ([]problem, []string) {
	ow := observe(root, false)
	ps := compareWalk(root, ow, "Walk", positional)
	oi := observe(root, true)
	for _, p := range compareWalk(root, oi, "Inspect", positional) {
		dup := false
		for _, q := range ps {
			if q.sig == p.sig {
				dup = true
			}
		}
		if !dup {
			ps = append(ps, p)
		}
	}
	if ow.panicked == nil && oi.panicked == nil && strings.Join(ow.kinds, " ") != strings.Join(oi.kinds, " ") {
		ps = append(ps, problem{"walk-inspect-differ", "Walk and Inspect produce different event sequences"})
	}
	return ps, ow.kinds
}

// orderAgainstModel: every node shows the right set of children but the event sequence differs from the
// model's WalkEvents(t): name the node whose children come in the wrong order.
func orderAgainstModel(kinds, model []string) (string, bool) {
	var stack []string
	for i := 0; i < len(kinds) && i < len(model); i++ {
		if kinds[i] != model[i] {
			if len(stack) == 0 {
				return "?", true
			}
			return stack[len(stack)-1], true
		}
		if kinds[i] == "nil" {
			if len(stack) > 0 {
				stack = stack[:len(stack)-1]
			}
		} else {
			stack = append(stack, kinds[i])
		}
	}
	return "", len(kinds) != len(model)
}

func runC18() {
	cases := hlib.ReadAllCases[Case]()
	type out struct{ rs []hlib.Result }
	outs := make([]out, len(cases))
	hlib.Parallel(len(cases), 8, func(i int) {
		c := &cases[i]
		var rs []hlib.Result
		nt := strings.Join(c.Walk, " ")
		emit := func(v, sig, detail, which string) {
			rs = append(rs, hlib.Result{Idx: i, V: v, Sig: sig, Detail: detail, NT: which + ":" + nt,
				Input: map[string]any{"tree": c.PT.String(), "from": which}})
		}
		model := strings.Join(c.Walk, " ")
		// (1) the synthesized tree
		if node, err := syntree.Build(c.PT); err != nil {
			emit("viol", "harness-build", err.Error(), "synth")
		} else {
			ps, kinds := checkTraversal(node, false)
			for _, p := range ps {
				emit("viol", p.sig, p.detail+" [synthesized "+c.PT.String()+"]", "synth")
			}
			if len(ps) == 0 {
				if strings.Join(kinds, " ") != model {
					// same children everywhere, different order: the model (source order) decides
					k, _ := orderAgainstModel(kinds, c.Walk)
					emit("viol", "walk-order:"+k, fmt.Sprintf("%s: children visited in the order %v, source order is %v [synthesized %s]", k, kinds, c.Walk, c.PT), "synth")
				} else {
					emit("ok", "", "Walk = Inspect = reflection = model: "+model, "synth")
				}
			}
		}
		// (2) the tree the real parser builds from the rendered text
		if len(c.Toks) > 0 && c.OK {
			p, err := parseCase(c, "canon", caseRand(i))
			if err != nil {
				emit("drift", "model-text-rejected", fmt.Sprintf("%q: %v", p.src, firstLine(err.Error())), "parsed")
			} else {
				ps, kinds := checkTraversal(p.root, true)
				for _, q := range ps {
					emit("viol", q.sig, q.detail+fmt.Sprintf(" [parsed from %q]", p.src), "parsed")
				}
				if len(ps) == 0 {
					if strings.Join(kinds, " ") != model {
						emit("drift", "walk-model-mismatch", fmt.Sprintf("%q: events %v, model %v", p.src, kinds, c.Walk), "parsed")
					} else {
						emit("ok", "", "Walk = Inspect = reflection = model: "+model, "parsed")
					}
				}
			}
		}
		outs[i].rs = rs
	})
	for _, o := range outs {
		for _, r := range o.rs {
			hlib.Emit(r)
		}
	}
}
