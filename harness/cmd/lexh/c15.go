package main

import (
	"fmt"
	"strings"
	"unicode/utf8"

	"verifharness/hlib"
)

// C15 -- scanning is total and exact (oracle S: the statement is evaluated on the real token stream).
//
// For every exported input the real XGo scanner is run in both comment modes and the statement is
// checked on what it returns:
//   token-bound       EOF is returned within len(src)+2+#inserted-semicolons calls of Scan
//   offset-range      every offset lies in [0, len(src)]
//   offset-order      offsets never decrease and strictly increase from one token with source extent
//                     to the next one (inserted "\n" semicolons and EOF are zero-width)
//   text-mismatch     identifier / keyword / literal / comment / operator text = source at the offset
//                     (carriage returns aside for comments and raw strings)
//   overlap/uncovered with ScanComments: token extents are disjoint and every byte outside them is
//                     white space (an initial BOM is ignorable)
// The model's token stream for the exported (dialect, comment mode) is compared too: a difference that
// does not break the statement is DRIFT.

var keywordSet = map[string]bool{}

func init() {
	for _, k := range strings.Fields("break case chan const continue default defer else fallthrough for func go goto if import interface map package range return select struct switch type var") {
		keywordSet[k] = true
	}
}

func isExactLitKind(k string) bool {
	switch k {
	case "IDENT", "INT", "FLOAT", "IMAG", "RAT", "CHAR", "UNIT", "CSTRING", "PYSTRING":
		return true
	}
	return keywordSet[k]
}

func isBlankByte(b byte) bool { return b == ' ' || b == '\t' || b == '\r' || b == '\n' }

// matchModCR walks src from off and consumes lit, skipping source '\r' bytes that the literal does not
// have.  It returns the end of the extent and whether the literal was matched completely.
func matchModCR(src []byte, off int, lit string) (int, bool) {
	i := off
	for j := 0; j < len(lit); j++ {
		for i < len(src) && src[i] != lit[j] && src[i] == '\r' {
			i++
		}
		if i >= len(src) || src[i] != lit[j] {
			return i, false
		}
		i++
	}
	return i, true
}

// extentOf returns the end offset of a token's source extent and whether its text is the source text.
// checked=false means the statement says nothing about this token's text (ILLEGAL).
func extentOf(src []byte, t Tok) (end int, exact bool, checked bool) {
	switch {
	case t.Auto:
		return t.Off, true, false
	case t.Kind == "ILLEGAL":
		if t.Off >= len(src) {
			return t.Off, true, false
		}
		_, w := utf8.DecodeRune(src[t.Off:])
		return t.Off + w, true, false
	case t.Kind == "COMMENT" || (t.Kind == "STRING" && strings.HasPrefix(t.Lit, "`")):
		e, ok := matchModCR(src, t.Off, t.Lit)
		return e, ok, true
	case t.Kind == "STRING" || isExactLitKind(t.Kind):
		e := t.Off + len(t.Lit)
		return e, e <= len(src) && string(src[t.Off:e]) == t.Lit, true
	default: // operator / delimiter: the kind is the spelling
		e := t.Off + len(t.Kind)
		return e, e <= len(src) && string(src[t.Off:e]) == t.Kind, true
	}
}

// checkStatement evaluates the statement of C15 on one real stream.  It returns "" or a signature and
// a detail text.
func checkStatement(src []byte, st Stream, comments bool) (sig, detail string) {
	if st.Panic != "" {
		if !comments {
			return "panic [comments off]: after " + kindAt(st.Toks, len(st.Toks)-1), st.Panic
		}
		return "panic: scanning lexeme starting with " + lexemeStart(src, st), st.Panic
	}
	nauto := 0
	for _, t := range st.Toks {
		if t.Auto {
			nauto++
		}
	}
	if st.EOFOff < 0 || st.Calls > len(src)+2+nauto {
		return "token-bound", fmt.Sprintf("%d calls of Scan, EOF reached=%v, bound len+2+inserted=%d", st.Calls, st.EOFOff >= 0, len(src)+2+nauto)
	}
	if st.EOFOff > len(src) {
		return "offset-range:EOF", fmt.Sprintf("EOF at %d, len %d", st.EOFOff, len(src))
	}
	prevOff, prevExtOff, prevEnd := 0, -1, 0
	prevKind, prevExtKind := "BOF", "BOF"
	if len(src) >= 3 && src[0] == 0xEF && src[1] == 0xBB && src[2] == 0xBF {
		prevEnd = 3 // an initial BOM is ignorable
	}
	for _, t := range st.Toks {
		if t.Off < 0 || t.Off > len(src) {
			return "offset-range:" + t.KindA(), fmt.Sprintf("%s outside [0,%d]", t, len(src))
		}
		if t.Off < prevOff {
			return "offset-order:" + prevKind + "/" + t.KindA(), fmt.Sprintf("%s after offset %d", t, prevOff)
		}
		end, exact, checked := extentOf(src, t)
		if checked && !exact {
			k := t.Kind
			if k == "CSTRING" || k == "PYSTRING" {
				k = "prefixed-string" // one root cause: the literal of c".." / py".." leaves the prefix out
			}
			return "text-mismatch:" + k, fmt.Sprintf("%s but source there is %q", t, clip(src, t.Off, t.Off+len(t.Lit)+2))
		}
		if !t.Auto {
			if t.Off <= prevExtOff {
				return "offset-order:" + prevExtKind + "/" + t.KindA(), fmt.Sprintf("%s does not lie after the previous token at %d", t, prevExtOff)
			}
			if comments {
				if t.Off < prevEnd {
					return "overlap:" + prevExtKind + "/" + t.Kind, fmt.Sprintf("%s starts inside the previous token (ends at %d)", t, prevEnd)
				}
				for i := prevEnd; i < t.Off; i++ {
					if !isBlankByte(src[i]) {
						return "uncovered-byte:after=" + prevExtKind, fmt.Sprintf("byte %d (%q) belongs to no token (before %s)", i, src[i], t)
					}
				}
			}
			prevExtOff, prevExtKind = t.Off, t.Kind
			if end > prevEnd {
				prevEnd = end
			}
		}
		prevOff, prevKind = t.Off, t.KindA()
	}
	if st.EOFOff < prevOff {
		return "offset-order:" + prevKind + "/EOF", fmt.Sprintf("EOF at %d after offset %d", st.EOFOff, prevOff)
	}
	if comments {
		for i := prevEnd; i < len(src); i++ {
			if !isBlankByte(src[i]) {
				return "uncovered-byte:after=" + prevExtKind, fmt.Sprintf("byte %d (%q) belongs to no token (before EOF)", i, src[i])
			}
		}
	}
	return "", ""
}

// lexemeStart names the first byte of the lexeme the scanner was working on when it panicked: the
// first non-blank byte after the extent of the last returned token (structural, no message text).
func lexemeStart(src []byte, st Stream) string {
	i := 0
	if len(src) >= 3 && src[0] == 0xEF && src[1] == 0xBB && src[2] == 0xBF {
		i = 3 // initial BOM
	}
	for _, t := range st.Toks {
		if e, _, _ := extentOf(src, t); e > i {
			i = e
		}
	}
	for i < len(src) && isBlankByte(src[i]) {
		i++
	}
	switch {
	case i >= len(src):
		return "EOF"
	case src[i] < 0x20 || src[i] == 0x7f:
		return fmt.Sprintf("0x%02x", src[i])
	case src[i] >= 0x80:
		return "non-ASCII"
	}
	return fmt.Sprintf("%q", src[i])
}

func clip(src []byte, a, b int) string {
	if a < 0 {
		a = 0
	}
	if b > len(src) {
		b = len(src)
	}
	if a > b {
		a = b
	}
	return string(src[a:b])
}

func kindSeq(ts []Tok) string {
	var sb strings.Builder
	for i, t := range ts {
		if i > 0 {
			sb.WriteByte(' ')
		}
		sb.WriteString(t.KindA())
	}
	return sb.String()
}

// driftSig abstracts a model/code difference (not a verdict).
func driftSig(d string, model, real []Tok) (string, string) {
	i := firstDiff(model, real)
	if i < 0 {
		return "", ""
	}
	mk, rk := kindAt(model, i), kindAt(real, i)
	what := "kind"
	if mk == rk {
		what = "lit"
		if model[i].Off != real[i].Off {
			what = "off"
		}
	}
	return fmt.Sprintf("model-%s: model=%s code=%s (%s)", d, mk, rk, what),
		fmt.Sprintf("token %d: model %v, code %v", i, tokAt(model, i), tokAt(real, i))
}

func tokAt(ts []Tok, i int) string {
	if i < len(ts) {
		return ts[i].String()
	}
	return "EOF"
}

func runC15() {
	a := newAgg()
	forEachLine(func(idx int, line []byte, ws *workerState) {
		c := decodeCase(idx, line)
		src, boff := encode(c.Src)
		in := render(src)
		ws.input.Store(in)
		model := modelStream(c, boff)
		if c.D != "xgo" {
			// the property is about the XGo scanner; records of the other dialects (Scanner_live.cfg)
			// only bind the model to its scanner: a difference is DRIFT
			st := scanDialect(c.D, src, c.C, 2*len(src)+16)
			r := hlib.Result{Idx: idx, V: "ok", Input: map[string]any{"src": in, "comments": c.C, "dialect": c.D}, Detail: st.String()}
			if sig, detail := driftSig(c.D, model, st.Toks); sig != "" {
				r.V, r.Sig, r.Detail = "drift", sig, fmt.Sprintf("src=%s ScanComments=%v: %s; code: %s", in, c.C, detail, st)
			} else if st.Panic != "" {
				r.V, r.Sig, r.Detail = "drift", "model-"+c.D+": code panics", st.Panic
			}
			a.add(r, c.G+"/"+c.D)
			return
		}
		res := hlib.Result{Idx: idx, V: "ok", Input: map[string]any{"src": in, "comments": c.C}, NT: kindSeq(model)}
		limit := 2*len(src) + 16
		for _, comments := range []bool{true, false} { // comments first: its stream locates a panic exactly
			st := scanXGo(src, comments, limit)
			if sig, detail := checkStatement(src, st, comments); sig != "" {
				res.V, res.Sig = "viol", sig
				res.Detail = fmt.Sprintf("src=%s ScanComments=%v: %s; tokens: %s", in, comments, detail, st)
				break
			}
			if comments == c.C {
				if sig, detail := driftSig("xgo", model, st.Toks); sig != "" {
					res.V, res.Sig = "drift", sig
					res.Detail = fmt.Sprintf("src=%s ScanComments=%v: %s; code: %s", in, comments, detail, st)
				} else {
					res.Detail = st.String()
				}
			}
		}
		a.add(res, c.G)
	}, func(idx int, input string) {
		hlib.Emit(hlib.Result{Idx: idx, V: "viol", Sig: "hang", Detail: "Scan did not return within " + hangLimit.String() + " on " + input, Input: input})
	})
	a.summary(nil)
}
