package main

import (
	"bufio"
	"encoding/json"
	"fmt"
	"os"
	"runtime"
	"sort"
	"sync"
	"sync/atomic"
	"time"

	"verifharness/hlib"
)

// ---------------------------------------------------------------------------------------------
// Streaming, parallel case pipeline with a watchdog.
//
// Hundreds of thousands (thorough: millions) of cases are replayed in-process.  Lines are read by
// one goroutine, decoded and judged by a pool of workers.  Results are aggregated: only
// violations, drifts (capped per signature) and a few passing samples are written as lines, the
// totals go out in one {"v":"summary"} record that the driver folds into the evidence.

type job struct {
	idx  int
	line []byte
}

type agg struct {
	mu       sync.Mutex
	ok       int
	skip     int
	viol     int
	drift    int
	perSig   map[string]int // emitted lines per (v, sig)
	nt       map[string]struct{}
	samples  int
	byGen    map[string]int
	skipWhy  map[string]int
	driftSig map[string]int
	violSig  map[string]int
}

func newAgg() *agg {
	return &agg{perSig: map[string]int{}, nt: map[string]struct{}{}, byGen: map[string]int{},
		skipWhy: map[string]int{}, driftSig: map[string]int{}, violSig: map[string]int{}}
}

const maxLinesPerSig = 8

// add records one verdict.  r.V is ok|viol|drift|skip.
func (a *agg) add(r hlib.Result, gen string) {
	a.mu.Lock()
	defer a.mu.Unlock()
	a.byGen[gen]++
	if s, isStr := r.NT.(string); isStr && s != "" && r.V != "skip" {
		if len(a.nt) < 2000000 {
			a.nt[s] = struct{}{}
		}
	}
	switch r.V {
	case "ok":
		a.ok++
		if a.samples < 6 && (a.ok%9973 == 1 || a.ok == 50) {
			a.samples++
			hlib.Emit(r)
		}
		return
	case "skip":
		a.skip++
		a.skipWhy[r.Sig]++
		return
	case "viol":
		a.viol++
		a.violSig[r.Sig]++
	case "drift":
		a.drift++
		a.driftSig[r.Sig]++
	}
	k := r.V + "|" + r.Sig
	if a.perSig[k] < maxLinesPerSig {
		a.perSig[k]++
		hlib.Emit(r)
	}
}

// summary writes the totals.  Everything counted here was executed against the real code.
func (a *agg) summary(extra map[string]any) {
	a.mu.Lock()
	defer a.mu.Unlock()
	m := map[string]any{"v": "summary", "agg_ok": a.ok, "agg_skip": a.skip, "agg_viol": a.viol, "agg_drift": a.drift,
		"agg_nt": len(a.nt), "cases_by_generator": a.byGen}
	if len(a.skipWhy) > 0 {
		m["skip_reasons"] = a.skipWhy
	}
	if len(a.driftSig) > 0 {
		m["drift_signatures"] = a.driftSig
	}
	if len(a.violSig) > 0 {
		m["violation_counts"] = a.violSig
	}
	for k, v := range extra {
		m[k] = v
	}
	hlib.EmitRaw(m)
}

type workerState struct {
	idx   atomic.Int64
	since atomic.Int64 // unix nanos; 0 = idle
	input atomic.Value // string
}

// hangLimit: a single case takes microseconds (>= 10^6 times less); a worker that stays on one case this
// long is hung.  If the machine is overloaded at that moment (1-minute load average above the number of
// CPUs) the observation is not trusted: the harness exits 4 and the engine reports INCONCLUSIVE.
const hangLimit = 60 * time.Second

func overloaded() bool {
	b, err := os.ReadFile("/proc/loadavg")
	if err != nil {
		return false
	}
	var l1 float64
	if _, err := fmt.Sscan(string(b), &l1); err != nil {
		return false
	}
	return l1 > float64(runtime.NumCPU())
}

// forEachLine runs f(idx, line) on every stdin line using nw workers.  setInput lets f publish a
// rendering of the input it is about to run so that the watchdog can report it.  If a worker is
// stuck on one case for hangLimit, onHang(idx, input) is called once and the process ends after
// flushing (the hung goroutine cannot be stopped).
func forEachLine(f func(idx int, line []byte, ws *workerState), onHang func(idx int, input string)) {
	nw := runtime.GOMAXPROCS(0)
	if nw > 12 {
		nw = 12
	}
	if nw < 2 {
		nw = 2
	}
	jobs := make(chan job, 1024)
	states := make([]*workerState, nw)
	var wg sync.WaitGroup
	for w := 0; w < nw; w++ {
		ws := &workerState{}
		ws.input.Store("")
		states[w] = ws
		wg.Add(1)
		go func() {
			defer wg.Done()
			for j := range jobs {
				ws.idx.Store(int64(j.idx))
				ws.since.Store(time.Now().UnixNano())
				f(j.idx, j.line, ws)
				ws.since.Store(0)
			}
		}()
	}
	done := make(chan struct{})
	go func() { // watchdog
		t := time.NewTicker(time.Second)
		defer t.Stop()
		for {
			select {
			case <-done:
				return
			case <-t.C:
				now := time.Now().UnixNano()
				for _, ws := range states {
					s := ws.since.Load()
					if s != 0 && time.Duration(now-s) > hangLimit {
						if overloaded() {
							hlib.Flush()
							fmt.Fprintf(os.Stderr, "case %d did not finish within %s but the machine is overloaded: not judged\n", ws.idx.Load(), hangLimit)
							os.Exit(4)
						}
						onHang(int(ws.idx.Load()), ws.input.Load().(string))
						hlib.Flush()
						os.Exit(0)
					}
				}
			}
		}
	}()
	sc := bufio.NewScanner(os.Stdin)
	sc.Buffer(make([]byte, 1<<20), 1<<28)
	idx := 0
	for sc.Scan() {
		b := sc.Bytes()
		if len(b) == 0 {
			continue
		}
		jobs <- job{idx, append([]byte(nil), b...)}
		idx++
	}
	close(jobs)
	wg.Wait()
	close(done)
	if err := sc.Err(); err != nil {
		fmt.Fprintln(os.Stderr, "reading cases:", err)
		os.Exit(3)
	}
}

func decodeCase(idx int, line []byte) *LexCase {
	var c LexCase
	if err := json.Unmarshal(line, &c); err != nil {
		fmt.Fprintf(os.Stderr, "bad case line %d: %v: %.200s\n", idx, err, line)
		os.Exit(3)
	}
	return &c
}

func sortedKeys(m map[string]int) []string {
	ks := make([]string, 0, len(m))
	for k := range m {
		ks = append(ks, k)
	}
	sort.Strings(ks)
	return ks
}
