package main

import (
	"fmt"
	"sort"
	"strings"
	"sync"

	"verifharness/hlib"
)

// Differential checks C16 (XGo scanner vs go/scanner) and C32 (TPL scanner vs XGo scanner), oracle D.
//
// TLC exports, for every input of the enumeration, the model's token stream in each dialect of the
// product and each comment mode.  The harness groups the records by input, runs the two REAL scanners
// on the input in both comment modes and raises an alarm iff they disagree (token kinds, offsets,
// literals, inserted semicolons, EOF offset, set of error offsets) on an input of the property's
// domain.  The model is used three ways, none of which can raise an alarm: each exported stream is
// compared with the real scanner of its dialect (DRIFT), the divergence signature computed from the
// two model streams is compared with the one computed from the two real streams ("explained by the
// model", DRIFT if not), and the domain predicate is cross-checked.

type cmpSpec struct {
	subj, ref string                 // dialects: scanner under test, reference scanner
	triggers  map[string]bool        // token kinds after which the REFERENCE inserts a semicolon at a newline
	domain    func(src []byte, subj, ref Stream) string // "" if the input is in the property's domain, else the reason
	errors    bool                   // the statement covers error offsets (C16 does, C32 does not)
}

func set(words string) map[string]bool {
	m := map[string]bool{}
	for _, w := range strings.Fields(words) {
		m[w] = true
	}
	return m
}

var goTriggers = set("IDENT INT FLOAT IMAG CHAR STRING ) ] } ++ -- break continue fallthrough return")
var xgoTriggers = set("IDENT INT FLOAT IMAG RAT UNIT CHAR STRING CSTRING PYSTRING ) ] } ++ -- ! ? ... break continue fallthrough return")

// commentOpener classifies the comment starting at off by its first two bytes.
func commentOpener(src []byte, off int) string {
	if off+1 >= len(src) {
		if off < len(src) && src[off] == '#' {
			return "#EOF"
		}
		return "?"
	}
	switch string(src[off : off+2]) {
	case "//", "/*", "#*", "#/":
		return string(src[off : off+2])
	case "#\n":
		return "#NL"
	case "#\r":
		return "#CR"
	}
	if src[off] == '#' {
		return "#"
	}
	return "?"
}

func numClass(k, other string) string {
	if (k == "INT" || k == "FLOAT") && (other == "RAT" || other == "IMAG") {
		return "NUM"
	}
	return k
}

// tokenSig abstracts the first token-level divergence of two streams into a structural signature:
// one root cause gives one signature.  The previous token only matters when one side inserted a
// semicolon (it is the trigger); it is rendered as T when the reference scanner inserts after it too.
func (cs *cmpSpec) tokenSig(src []byte, s, r []Tok, i, j int) (string, string) {
	sk, rk := kindAt(s, i), kindAt(r, j)
	pi := i - 1
	for pi >= 0 && s[pi].Kind == "ILLEGAL" {
		pi-- // an ILLEGAL token preserves insertSemi: the trigger is the token before it
	}
	prev := kindAt(s, pi)
	if cs.triggers[prev] {
		prev = "T"
	}
	detail := fmt.Sprintf("%s token %d %s, %s token %d %s", cs.subj, i, tokAt(s, i), cs.ref, j, tokAt(r, j))
	if sk == rk && sk != "EOF" {
		what := "lit"
		if s[i].Off != r[j].Off {
			what = "off"
		}
		if sk == ";auto" {
			return fmt.Sprintf("first-divergence: prev=%s tok=;auto differs=off", prev), detail
		}
		if sk == "COMMENT" {
			op := commentOpener(src, s[i].Off)
			if what == "lit" && strings.ReplaceAll(s[i].Lit, "\r", "") == strings.ReplaceAll(r[j].Lit, "\r", "") {
				// same text up to carriage returns: the comment family is the root cause
				what = "cr"
				if strings.HasPrefix(op, "#") {
					op = "#"
				}
			}
			sk += op
		}
		return fmt.Sprintf("first-divergence: tok=%s differs=%s", sk, what), detail
	}
	if sk == ";auto" || rk == ";auto" {
		other := func(k string) string {
			if k == ";auto" {
				return k
			}
			return "*"
		}
		// one side inserts the semicolon in front of a comment run of the shape /* */ ... # : the look-ahead
		// findLineEnd of the other side does not know # comments (one root cause, told apart structurally)
		run := ""
		withSemi, k := r, j
		if sk == ";auto" {
			withSemi, k = s, i
		}
		if k+1 < len(withSemi) && withSemi[k+1].Kind == "COMMENT" && commentOpener(src, withSemi[k+1].Off) == "/*" {
			for m := k + 2; m < len(withSemi) && withSemi[m].Kind == "COMMENT"; m++ {
				if strings.HasPrefix(commentOpener(src, withSemi[m].Off), "#") {
					run = " before=/*+#"
					break
				}
			}
		}
		return fmt.Sprintf("first-divergence: prev=%s %s=%s %s=%s%s", prev, cs.subj, other(sk), cs.ref, other(rk), run), detail
	}
	// one root cause (scanNumber reads the identifier that follows a number as a suffix): the letters are a
	// unit where the reference sees an identifier / keyword, or, if they start with i, an imaginary suffix
	if (sk == "UNIT" && (rk == "IDENT" || keywordSet[rk])) ||
		((sk == "INT" || sk == "FLOAT") && rk == "IMAG" && i+1 < len(s) && s[i+1].Kind == "UNIT") {
		return fmt.Sprintf("first-divergence: number-suffix %s=UNIT %s=IDENT|IMAG", cs.subj, cs.ref), detail
	}
	return fmt.Sprintf("first-divergence: %s=%s %s=%s", cs.subj, numClass(sk, rk), cs.ref, numClass(rk, sk)), detail
}

func offsetSet(e []int) []int {
	m := map[int]bool{}
	for _, o := range e {
		m[o] = true
	}
	r := make([]int, 0, len(m))
	for o := range m {
		r = append(r, o)
	}
	sort.Ints(r)
	return r
}

// tokenAtOffset names the token whose extent contains the offset (for error signatures).
func tokenAtOffset(ts []Tok, off int) string {
	k := "BOF"
	for _, t := range ts {
		if t.Off > off {
			break
		}
		if !t.Auto {
			k = t.Kind
		}
	}
	return k
}

// canonSemis moves an inserted semicolon that FOLLOWS one or more comments of a comment run to the
// front of that run, at the first comment's offset.  go/scanner >= 1.20 returns `a COMMENT ;` (the
// semicolon at the newline) where the go <= 1.19 design, which the XGo and TPL scanners still have,
// returns `a ; COMMENT` (the semicolon at the comment).  This single root cause would otherwise show
// up as two differences per line and hide everything after it.  moved reports whether anything changed.
func canonSemis(ts []Tok) (out []Tok, moved bool) {
	out = append([]Tok{}, ts...)
	for i := 0; i < len(out); {
		if out[i].Kind != "COMMENT" {
			i++
			continue
		}
		j := i // run of COMMENT / inserted-semicolon tokens starting with a comment
		for j < len(out) && (out[j].Kind == "COMMENT" || out[j].Auto) {
			j++
		}
		for k := i + 1; k < j; k++ {
			if out[k].Auto && !(i > 0 && out[i-1].Auto) {
				semi := out[k]
				semi.Off = out[i].Off
				copy(out[i+1:k+1], out[i:k])
				out[i] = semi
				moved = true
				break
			}
		}
		i = j
	}
	return
}

// tokenDivergences walks two token lists and returns the signatures of all their divergences.  After a
// divergence the walk resumes at the next non-inserted token that both lists have identically at the
// same offset, so that a listed finding early in an input cannot hide a different divergence later in
// it; inserted semicolons inside the skipped region belong to that divergence.
func (cs *cmpSpec) tokenDivergences(src []byte, s, r []Tok, suffix string) (sigs, details []string) {
	add := func(sig, d string) {
		for _, x := range sigs {
			if x == sig+suffix {
				return
			}
		}
		if len(sigs) < 4 {
			sigs, details = append(sigs, sig+suffix), append(details, d)
		}
	}
	i, j := 0, 0
	illegalDiverged := false
	semiMissed := false
	for {
		for i < len(s) && j < len(r) && s[i] == r[j] {
			i++
			j++
		}
		if i >= len(s) && j >= len(r) {
			return
		}
		sig, d := cs.tokenSig(src, s, r, i, j)
		if kindAt(s, i) == "ILLEGAL" {
			illegalDiverged = true
		}
		// an ILLEGAL token preserves insertSemi where the reference's real token resets it: a semicolon
		// difference right after a token already reported as ILLEGAL-vs-token is the same root cause
		semiDiff := (kindAt(s, i) == ";auto") != (kindAt(r, j) == ";auto")
		// nParen is reset by every `;`: once one side has missed an inserted semicolon, whether a later
		// `...` sets insertSemi (nParen == 0) differs as a consequence of that same root cause
		afterEllipsis := semiDiff && semiMissed && i > 0 && s[i-1].Kind == "..."
		if !(illegalDiverged && i > 0 && s[i-1].Kind == "ILLEGAL" && semiDiff) && !afterEllipsis {
			add(sig, d)
		}
		if semiDiff {
			semiMissed = true
		}
		// resynchronise: next pair of identical non-inserted tokens at the same offset
		ni, nj := -1, -1
		for a := i; a < len(s) && ni < 0; a++ {
			if s[a].Auto {
				continue
			}
			for b := j; b < len(r); b++ {
				if r[b].Off > s[a].Off {
					break
				}
				if (a > i || b > j) && r[b] == s[a] {
					ni, nj = a, b
					break
				}
			}
		}
		if ni < 0 {
			return
		}
		i, j = ni, nj
	}
}

func zeroAutoOffsets(ts []Tok) []Tok {
	out := append([]Tok{}, ts...)
	for i := range out {
		if out[i].Auto {
			out[i].Off = 0
		}
	}
	return out
}

// divergences returns the signatures of the disagreements of two pairs of streams (comments on / off).
func (cs *cmpSpec) divergences(src []byte, sOn, rOn, sOff, rOff Stream, withErrors bool) (sigs, details []string) {
	for _, p := range []struct {
		n string
		s Stream
	}{{cs.subj, sOn}, {cs.ref, rOn}, {cs.subj, sOff}, {cs.ref, rOff}} {
		if p.s.Panic != "" {
			at := lexemeStart(src, sOn)
			if sOn.Panic == "" {
				at = lexemeStart(src, rOn)
			}
			return []string{"panic:" + p.n + " scanning lexeme starting with " + at}, []string{p.s.Panic}
		}
		if p.s.EOFOff < 0 {
			return []string{"no-eof:" + p.n}, []string{p.s.String()}
		}
	}
	sc, smoved := canonSemis(sOn.Toks)
	rc, rmoved := canonSemis(rOn.Toks)
	if smoved != rmoved {
		before, atnl := cs.subj, cs.ref
		if smoved {
			before, atnl = cs.ref, cs.subj
		}
		sigs = append(sigs, "semicolon-placement: "+before+"=before-comment "+atnl+"=at-newline")
		details = append(details, "an inserted semicolon and a trailing comment are returned in different order")
	}
	ts, td := cs.tokenDivergences(src, sc, rc, "")
	sigs, details = append(sigs, ts...), append(details, td...)
	if len(sigs) == 0 && sOn.EOFOff != rOn.EOFOff {
		sigs, details = append(sigs, "eof-offset"), append(details, fmt.Sprintf("%s EOF@%d, %s EOF@%d", cs.subj, sOn.EOFOff, cs.ref, rOn.EOFOff))
	}
	// the run without comments is the run with comments minus the COMMENT tokens in all three scanners;
	// it is judged on its own only where the run with comments agrees (up to the semicolon placement,
	// which shows there as a different offset of the inserted semicolon)
	if len(ts) == 0 {
		so, ro := sOff.Toks, rOff.Toks
		if smoved != rmoved {
			so, ro = zeroAutoOffsets(so), zeroAutoOffsets(ro)
		}
		os, od := cs.tokenDivergences(src, so, ro, " [comments off]")
		sigs, details = append(sigs, os...), append(details, od...)
	}
	if withErrors && len(sigs) == 0 {
		for _, p := range [][2]Stream{{sOn, rOn}, {sOff, rOff}} {
			a, b := offsetSet(p[0].Errs), offsetSet(p[1].Errs)
			if !intsEqual(a, b) {
				side, off := "", 0
				for k := 0; ; k++ {
					if k >= len(a) {
						side, off = cs.subj+"-missing", b[k]
						break
					}
					if k >= len(b) {
						side, off = cs.subj+"-extra", a[k]
						break
					}
					if a[k] != b[k] {
						if a[k] < b[k] {
							side, off = cs.subj+"-extra", a[k]
						} else {
							side, off = cs.subj+"-missing", b[k]
						}
						break
					}
				}
				k := tokenAtOffset(p[0].Toks, off)
				if k == "COMMENT" {
					for _, t := range p[0].Toks {
						if t.Kind == "COMMENT" && t.Off <= off {
							k = "COMMENT" + commentOpener(src, t.Off)
						}
					}
				}
				return []string{fmt.Sprintf("error-offsets: tok=%s %s", k, side)},
					[]string{fmt.Sprintf("error offsets %s %v, %s %v", cs.subj, a, cs.ref, b)}
			}
		}
	}
	return
}

type group struct {
	idx    int // case line reported for this input (the subject dialect with comments, if present)
	src    []int
	gen    string
	models map[string][]MTok // "<dialect>/<c>"
	has    map[string]bool
}

func mkey(d string, c bool) string { return fmt.Sprintf("%s/%v", d, c) }

func (cs *cmpSpec) run() {
	// phase 1: read and group the cases by input
	groups := map[string]*group{}
	var order []*group
	var mu sync.Mutex
	forEachLine(func(idx int, line []byte, ws *workerState) {
		c := decodeCase(idx, line)
		key := fmt.Sprint(c.Src)
		mu.Lock()
		g := groups[key]
		if g == nil {
			g = &group{idx: idx, src: c.Src, gen: c.G, models: map[string][]MTok{}}
			groups[key] = g
			order = append(order, g)
		}
		if c.D == cs.subj && c.C {
			g.idx = idx
		}
		g.models[mkey(c.D, c.C)] = c.Out
		mu.Unlock()
	}, func(int, string) {})

	// phase 2: judge every input
	a := newAgg()
	var explained, unexplained, errOnly int64
	var emu sync.Mutex
	hlib.Parallel(len(order), 12, func(gi int) {
		g := order[gi]
		src, boff := encode(g.src)
		in := render(src)
		limit := 2*len(src) + 16
		real := map[string]Stream{}
		for _, d := range []string{cs.subj, cs.ref} {
			for _, c := range []bool{true, false} {
				real[mkey(d, c)] = scanDialect(d, src, c, limit)
			}
		}
		sOn, rOn, sOff, rOff := real[mkey(cs.subj, true)], real[mkey(cs.ref, true)], real[mkey(cs.subj, false)], real[mkey(cs.ref, false)]
		res := hlib.Result{Idx: g.idx, V: "ok", Input: in, NT: kindSeq(rOn.Toks)}
		if why := cs.domain(src, sOn, rOn); why != "" {
			res.V, res.Sig = "skip", why
			a.add(res, g.gen)
			return
		}
		sigs, details := cs.divergences(src, sOn, rOn, sOff, rOff, cs.errors)
		if !cs.errors && len(sigs) == 0 {
			// not part of the statement: counted, never judged
			if es, _ := cs.divergences(src, sOn, rOn, sOff, rOff, true); len(es) > 0 {
				emu.Lock()
				errOnly++
				emu.Unlock()
			}
		}
		// the model: per-stream drift, and does it explain the divergence?
		drift, driftDetail := "", ""
		model := map[string]Stream{}
		for k, m := range g.models {
			lc := LexCase{Out: m}
			ts := modelStream(&lc, boff)
			model[k] = Stream{Toks: ts, EOFOff: len(src)}
			if r, ok := real[k]; ok && drift == "" {
				d := k[:strings.Index(k, "/")]
				if ds, dd := driftSig(d, ts, r.Toks); ds != "" {
					drift, driftDetail = ds, fmt.Sprintf("%s (%s): %s; code: %s", in, k, dd, r)
				}
			}
		}
		if !strings.ContainsAny(string(src), "/#") {
			// no comment can start: the comment mode is irrelevant, cfgs without '/' and '#' export one mode only
			for _, d := range []string{cs.subj, cs.ref} {
				if m, ok := model[mkey(d, true)]; ok {
					if _, has := model[mkey(d, false)]; !has {
						model[mkey(d, false)] = m
					}
				}
			}
		}
		if len(model) == 4 {
			msigs, _ := cs.divergences(src, model[mkey(cs.subj, true)], model[mkey(cs.ref, true)], model[mkey(cs.subj, false)], model[mkey(cs.ref, false)], false)
			msig, rsig := strings.Join(msigs, " | "), strings.Join(sigs, " | ")
			if strings.HasPrefix(rsig, "error-offsets") {
				rsig = "" // the model does not predict error reports
			}
			emu.Lock()
			if msig == rsig {
				explained++
			} else {
				unexplained++
			}
			emu.Unlock()
			if msig != rsig && drift == "" {
				drift = fmt.Sprintf("explanation: model says %q, code says %q", msig, rsig)
				driftDetail = in
			}
		}
		switch {
		case len(sigs) > 0:
			for k, sig := range sigs {
				r := res
				r.V, r.Sig = "viol", sig
				r.Detail = fmt.Sprintf("src=%s: %s\n  %s(comments): %s\n  %s(comments): %s", in, details[k], cs.subj, sOn, cs.ref, rOn)
				if strings.Contains(sig, "[comments off]") || strings.HasPrefix(sig, "error-offsets") {
					r.Detail += fmt.Sprintf("\n  %s(no comments): %s\n  %s(no comments): %s", cs.subj, sOff, cs.ref, rOff)
				}
				if k == len(sigs)-1 {
					res = r
				} else {
					a.add(r, g.gen)
				}
			}
			if drift != "" && strings.HasPrefix(drift, "explanation") {
				a.add(hlib.Result{Idx: g.idx, V: "drift", Sig: drift, Detail: driftDetail, Input: in}, g.gen)
			}
		case drift != "":
			res.V, res.Sig, res.Detail = "drift", drift, driftDetail
		default:
			res.Detail = sOn.String()
		}
		a.add(res, g.gen)
	})
	a.summary(map[string]any{"inputs": len(order), "divergences_explained_by_model": explained, "divergences_not_explained": unexplained,
		"error_offset_differences_outside_statement": errOnly})
}

// C16: inputs composed only of Go lexemes -- go/scanner itself finds no ILLEGAL character, and no
// identifier is one of the XGo-specific string prefixes (c"..", C"..", py"..").
func domainC16(src []byte, xgo, gos Stream) string {
	for _, t := range gos.Toks {
		if t.Kind == "ILLEGAL" {
			return "go-illegal-character"
		}
		if t.Kind == "IDENT" && (t.Lit == "c" || t.Lit == "C" || t.Lit == "py") {
			if e := t.Off + len(t.Lit); e < len(src) && src[e] == '"' {
				return "xgo-string-prefix"
			}
		}
	}
	return ""
}

// C32: inputs built from lexemes both scanners have -- the XGo scanner (the reference) finds no ILLEGAL
// character, no keyword (TPL has none) and no prefixed string.
func domainC32(src []byte, tpl, xgo Stream) string {
	for _, t := range xgo.Toks {
		switch {
		case t.Kind == "ILLEGAL":
			return "xgo-illegal-character"
		case keywordSet[t.Kind]:
			return "xgo-keyword"
		case t.Kind == "CSTRING" || t.Kind == "PYSTRING":
			return "xgo-string-prefix"
		}
	}
	// (the domain is decided by the reference alone: an ILLEGAL token of the scanner under test on an input
	// the reference accepts is a divergence, not a reason to skip)
	return ""
}

func runC16() {
	cs := &cmpSpec{subj: "xgo", ref: "go", triggers: goTriggers, domain: domainC16, errors: true}
	cs.run()
}

func runC32() {
	cs := &cmpSpec{subj: "tpl", ref: "xgo", triggers: xgoTriggers, domain: domainC32}
	cs.run()
}
