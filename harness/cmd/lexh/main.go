// lexh: conformance harness for the lexical properties
// (C15 scanning total+exact, C16 XGo scanner vs go/scanner, C32 TPL scanner vs XGo scanner,
// C33 token tables).
package main

import (
	"fmt"
	"os"

	"verifharness/hlib"
)

func main() {
	if len(os.Args) < 2 {
		fmt.Fprintln(os.Stderr, "usage: lexh c15|c16|c32|c33|dump [args] < cases.ndjson")
		os.Exit(3)
	}
	switch os.Args[1] {
	case "c15":
		runC15()
	case "c16":
		runC16()
	case "c32":
		runC32()
	case "c33":
		runC33()
	case "dump":
		runDump(os.Args[2:])
	default:
		fmt.Fprintln(os.Stderr, "unknown mode", os.Args[1])
		os.Exit(3)
	}
	hlib.Flush()
}
