package main

import (
	"fmt"
	goscanner "go/scanner"
	gotoken "go/token"
	"strconv"
	"strings"
	"unicode/utf8"

	"github.com/goplus/xgo/scanner"
	"github.com/goplus/xgo/token"
	tplscanner "github.com/goplus/xgo/tpl/scanner"
	tpltoken "github.com/goplus/xgo/tpl/token"
)

// ---------------------------------------------------------------------------------------------
// Symbols.  The specs represent source text as a sequence of integers ("symbols"):
//   0..127     the ASCII byte
//   128..255   that raw byte on its own (only bytes that can never form a valid UTF-8 sequence
//              with the other symbols of the alphabet are used: 0xFF, 0x80, 0xC4) -> invalid UTF-8
//   >= 256     the Unicode code point, UTF-8 encoded (0x101 letter, 0x661 digit, 0xFEFF BOM, ...)
// Model offsets are symbol indices; the harness converts them to byte offsets.

func symBytes(sym int) []byte {
	if sym < 0x100 {
		return []byte{byte(sym)}
	}
	var b [4]byte
	n := utf8.EncodeRune(b[:], rune(sym))
	return b[:n]
}

// encode returns the bytes of a symbol sequence and boff[i] = byte offset of symbol i (len+1 entries).
func encode(syms []int) ([]byte, []int) {
	b := make([]byte, 0, len(syms)+4)
	boff := make([]int, len(syms)+1)
	for i, s := range syms {
		boff[i] = len(b)
		b = append(b, symBytes(s)...)
	}
	boff[len(syms)] = len(b)
	return b, boff
}

func symString(syms []int) string {
	b, _ := encode(syms)
	return string(b)
}

// ---------------------------------------------------------------------------------------------
// Uniform token streams.

// Tok is one scanned token.  Kind is the token's String() (class name for literal classes, the
// spelling for operators and keywords); an automatically inserted semicolon has Auto set.
type Tok struct {
	Kind string
	Off  int
	Lit  string
	Auto bool
}

func (t Tok) String() string {
	k := t.Kind
	if t.Auto {
		k = ";auto"
	}
	if t.Lit != "" && !t.Auto && t.Kind != ";" {
		return fmt.Sprintf("%s@%d%q", k, t.Off, t.Lit)
	}
	return fmt.Sprintf("%s@%d", k, t.Off)
}

// KindA is the kind with inserted semicolons told apart from written ones.
func (t Tok) KindA() string {
	if t.Auto {
		return ";auto"
	}
	return t.Kind
}

// Stream is the observable result of scanning one input to EOF.
type Stream struct {
	Toks   []Tok // without the final EOF
	EOFOff int   // offset reported with EOF (-1 if EOF was not reached)
	Errs   []int // error offsets in call order
	Calls  int   // number of Scan calls made (including the one returning EOF)
	Panic  string
}

func (s Stream) String() string {
	var sb strings.Builder
	for i, t := range s.Toks {
		if i > 0 {
			sb.WriteByte(' ')
		}
		sb.WriteString(t.String())
	}
	if s.EOFOff >= 0 {
		fmt.Fprintf(&sb, " EOF@%d", s.EOFOff)
	} else {
		sb.WriteString(" <no EOF>")
	}
	if len(s.Errs) > 0 {
		fmt.Fprintf(&sb, " errs=%v", s.Errs)
	}
	if s.Panic != "" {
		sb.WriteString(" PANIC " + s.Panic)
	}
	return sb.String()
}

// scanXGo runs the XGo scanner (scanner.Scanner.Init/Scan) until EOF or maxCalls.
func scanXGo(src []byte, comments bool, maxCalls int) (st Stream) {
	st.EOFOff = -1
	defer func() {
		if e := recover(); e != nil {
			st.Panic = fmt.Sprint(e)
		}
	}()
	fset := token.NewFileSet()
	file := fset.AddFile("", fset.Base(), len(src))
	var s scanner.Scanner
	var mode scanner.Mode
	if comments {
		mode = scanner.ScanComments
	}
	s.Init(file, src, func(pos token.Position, msg string) { st.Errs = append(st.Errs, pos.Offset) }, mode)
	base := file.Base()
	for st.Calls < maxCalls {
		pos, tok, lit := s.Scan()
		st.Calls++
		off := int(pos) - base
		if tok == token.EOF {
			st.EOFOff = off
			return
		}
		st.Toks = append(st.Toks, Tok{Kind: tok.String(), Off: off, Lit: lit, Auto: tok == token.SEMICOLON && lit == "\n"})
	}
	return
}

// scanGo runs go/scanner.
func scanGo(src []byte, comments bool, maxCalls int) (st Stream) {
	st.EOFOff = -1
	defer func() {
		if e := recover(); e != nil {
			st.Panic = fmt.Sprint(e)
		}
	}()
	fset := gotoken.NewFileSet()
	file := fset.AddFile("", fset.Base(), len(src))
	var s goscanner.Scanner
	var mode goscanner.Mode
	if comments {
		mode = goscanner.ScanComments
	}
	s.Init(file, src, func(pos gotoken.Position, msg string) { st.Errs = append(st.Errs, pos.Offset) }, mode)
	base := file.Base()
	for st.Calls < maxCalls {
		pos, tok, lit := s.Scan()
		st.Calls++
		off := int(pos) - base
		if tok == gotoken.EOF {
			st.EOFOff = off
			return
		}
		st.Toks = append(st.Toks, Tok{Kind: tok.String(), Off: off, Lit: lit, Auto: tok == gotoken.SEMICOLON && lit == "\n"})
	}
	return
}

// scanTPL runs tpl/scanner.
func scanTPL(src []byte, comments bool, maxCalls int) (st Stream) {
	st.EOFOff = -1
	defer func() {
		if e := recover(); e != nil {
			st.Panic = fmt.Sprint(e)
		}
	}()
	fset := tpltoken.NewFileSet()
	file := fset.AddFile("", fset.Base(), len(src))
	var s tplscanner.Scanner
	var mode tplscanner.Mode
	if comments {
		mode = tplscanner.ScanComments
	}
	s.Init(file, src, func(pos tpltoken.Position, msg string) { st.Errs = append(st.Errs, pos.Offset) }, mode)
	base := file.Base()
	for st.Calls < maxCalls {
		t := s.Scan()
		st.Calls++
		off := int(t.Pos) - base
		if t.Tok == tpltoken.EOF {
			st.EOFOff = off
			return
		}
		st.Toks = append(st.Toks, Tok{Kind: t.Tok.String(), Off: off, Lit: t.Lit, Auto: t.Tok == tpltoken.SEMICOLON && t.Lit == "\n"})
	}
	return
}

func scanDialect(d string, src []byte, comments bool, maxCalls int) Stream {
	switch d {
	case "go":
		return scanGo(src, comments, maxCalls)
	case "tpl":
		return scanTPL(src, comments, maxCalls)
	}
	return scanXGo(src, comments, maxCalls)
}

// ---------------------------------------------------------------------------------------------
// Model token streams (CASE records of specs/lex/Scanner.tla).

// MTok is one token of the model: kind, symbol extent [S,E) (0-based), literal as symbols.
type MTok struct {
	K string `json:"k"`
	S int    `json:"s"`
	E int    `json:"e"`
	L []int  `json:"l"`
}

// LexCase is one exported case.
type LexCase struct {
	Src []int  `json:"src"`
	D   string `json:"d"`  // dialect the model ran
	C   bool   `json:"c"`  // ScanComments
	Out []MTok `json:"out"`
	G   string `json:"g"` // generator tag (alphabet / pool name)
}

// modelStream converts the model's tokens to byte offsets.
func modelStream(c *LexCase, boff []int) []Tok {
	r := make([]Tok, 0, len(c.Out))
	for _, m := range c.Out {
		t := Tok{Kind: m.K, Off: boff[m.S], Lit: symString(m.L)}
		if m.K == ";auto" {
			t.Kind, t.Auto, t.Lit = ";", true, "\n"
		}
		r = append(r, t)
	}
	return r
}

// firstDiff returns the index of the first position where two token lists differ (kind, auto,
// offset, literal), or -1.
func firstDiff(a, b []Tok) int {
	n := len(a)
	if len(b) < n {
		n = len(b)
	}
	for i := 0; i < n; i++ {
		if a[i] != b[i] {
			return i
		}
	}
	if len(a) != len(b) {
		return n
	}
	return -1
}

func kindAt(ts []Tok, i int) string {
	if i < 0 {
		return "BOF"
	}
	if i >= len(ts) {
		return "EOF"
	}
	return ts[i].KindA()
}

func render(src []byte) string { return strconv.QuoteToASCII(string(src)) }

func intsEqual(a, b []int) bool {
	if len(a) != len(b) {
		return false
	}
	for i := range a {
		if a[i] != b[i] {
			return false
		}
	}
	return true
}
