package main

import (
	"fmt"
	"strconv"
)

// runDump prints the token streams of the three real scanners for Go-quoted string arguments
// (debugging aid; also used to demonstrate findings):  lexh dump '"1x y"' '"a #\nb"'
func runDump(args []string) {
	for _, a := range args {
		s, err := strconv.Unquote(a)
		if err != nil {
			s = a
		}
		src := []byte(s)
		fmt.Printf("input %s\n", render(src))
		for _, c := range []bool{false, true} {
			for _, d := range []string{"xgo", "go", "tpl"} {
				fmt.Printf("  %-3s comments=%-5v %s\n", d, c, scanDialect(d, src, c, len(src)*2+8))
			}
		}
	}
}
