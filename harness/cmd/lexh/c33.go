package main

import (
	"fmt"
	"strings"

	"github.com/goplus/xgo/scanner"
	"github.com/goplus/xgo/token"
	tplscanner "github.com/goplus/xgo/tpl/scanner"
	tpltoken "github.com/goplus/xgo/tpl/token"

	"verifharness/hlib"
)

// C33 -- token spellings round-trip through the scanners (oracle S).
//
// One CASE record per operator / keyword entry of the two tables of specs/lex/Tokens.tla.  For the
// token constant the entry names, the statement is evaluated on the real code:
//   scan-spelling   scanning String() alone yields exactly that token (by value), then at most an
//                   inserted ";", then EOF
//   string          keyword: token.Lookup(String()) is the token; TPL: Len() = len(String())
//   precedence      Precedence() > 0  =>  IsOperator()            (XGo)
// Table equality spec <-> code (spelling, class, precedence, isOperator, and every code token being
// in the spec table) is DRIFT when violated.

type tokCase struct {
	Tab  string     `json:"tab"`
	N    string     `json:"n"`
	Sp   string     `json:"sp"`
	Cls  string     `json:"cls"`
	Prec int        `json:"prec"`
	Op   bool       `json:"op"`
	Src  []int      `json:"src"`
	Out  []MTok     `json:"out"`
	RT   bool       `json:"rt"`
	All  [][]string `json:"all"`
}

var xgoByName = map[string]token.Token{
	"ILLEGAL": token.ILLEGAL, "EOF": token.EOF, "COMMENT": token.COMMENT,
	"IDENT": token.IDENT, "INT": token.INT, "FLOAT": token.FLOAT, "IMAG": token.IMAG, "CHAR": token.CHAR,
	"STRING": token.STRING, "CSTRING": token.CSTRING, "PYSTRING": token.PYSTRING, "RAT": token.RAT, "UNIT": token.UNIT,
	"ADD": token.ADD, "SUB": token.SUB, "MUL": token.MUL, "QUO": token.QUO, "REM": token.REM,
	"AND": token.AND, "OR": token.OR, "XOR": token.XOR, "SHL": token.SHL, "SHR": token.SHR, "AND_NOT": token.AND_NOT,
	"ADD_ASSIGN": token.ADD_ASSIGN, "SUB_ASSIGN": token.SUB_ASSIGN, "MUL_ASSIGN": token.MUL_ASSIGN,
	"QUO_ASSIGN": token.QUO_ASSIGN, "REM_ASSIGN": token.REM_ASSIGN, "AND_ASSIGN": token.AND_ASSIGN,
	"OR_ASSIGN": token.OR_ASSIGN, "XOR_ASSIGN": token.XOR_ASSIGN, "SHL_ASSIGN": token.SHL_ASSIGN,
	"SHR_ASSIGN": token.SHR_ASSIGN, "AND_NOT_ASSIGN": token.AND_NOT_ASSIGN,
	"LAND": token.LAND, "LOR": token.LOR, "ARROW": token.ARROW, "INC": token.INC, "DEC": token.DEC,
	"EQL": token.EQL, "LSS": token.LSS, "GTR": token.GTR, "ASSIGN": token.ASSIGN, "NOT": token.NOT,
	"NEQ": token.NEQ, "LEQ": token.LEQ, "GEQ": token.GEQ, "DEFINE": token.DEFINE, "ELLIPSIS": token.ELLIPSIS,
	"LPAREN": token.LPAREN, "LBRACK": token.LBRACK, "LBRACE": token.LBRACE, "COMMA": token.COMMA, "PERIOD": token.PERIOD,
	"RPAREN": token.RPAREN, "RBRACK": token.RBRACK, "RBRACE": token.RBRACE, "SEMICOLON": token.SEMICOLON, "COLON": token.COLON,
	"QUESTION": token.QUESTION, "DRARROW": token.DRARROW, "SRARROW": token.SRARROW, "BIDIARROW": token.BIDIARROW,
	"ENV": token.ENV, "TILDE": token.TILDE,
	"BREAK": token.BREAK, "CASE": token.CASE, "CHAN": token.CHAN, "CONST": token.CONST, "CONTINUE": token.CONTINUE,
	"DEFAULT": token.DEFAULT, "DEFER": token.DEFER, "ELSE": token.ELSE, "FALLTHROUGH": token.FALLTHROUGH, "FOR": token.FOR,
	"FUNC": token.FUNC, "GO": token.GO, "GOTO": token.GOTO, "IF": token.IF, "IMPORT": token.IMPORT,
	"INTERFACE": token.INTERFACE, "MAP": token.MAP, "PACKAGE": token.PACKAGE, "RANGE": token.RANGE, "RETURN": token.RETURN,
	"SELECT": token.SELECT, "STRUCT": token.STRUCT, "SWITCH": token.SWITCH, "TYPE": token.TYPE, "VAR": token.VAR,
}

var tplByName = map[string]tpltoken.Token{
	"ILLEGAL": tpltoken.ILLEGAL, "EOF": tpltoken.EOF, "COMMENT": tpltoken.COMMENT,
	"IDENT": tpltoken.IDENT, "INT": tpltoken.INT, "FLOAT": tpltoken.FLOAT, "IMAG": tpltoken.IMAG, "CHAR": tpltoken.CHAR,
	"STRING": tpltoken.STRING, "RAT": tpltoken.RAT, "UNIT": tpltoken.UNIT,
	"ADD": tpltoken.ADD, "SUB": tpltoken.SUB, "MUL": tpltoken.MUL, "QUO": tpltoken.QUO, "REM": tpltoken.REM,
	"AND": tpltoken.AND, "OR": tpltoken.OR, "XOR": tpltoken.XOR, "LT": tpltoken.LT, "GT": tpltoken.GT,
	"ASSIGN": tpltoken.ASSIGN, "NOT": tpltoken.NOT, "LPAREN": tpltoken.LPAREN, "LBRACK": tpltoken.LBRACK,
	"LBRACE": tpltoken.LBRACE, "COMMA": tpltoken.COMMA, "PERIOD": tpltoken.PERIOD, "RPAREN": tpltoken.RPAREN,
	"RBRACK": tpltoken.RBRACK, "RBRACE": tpltoken.RBRACE, "SEMICOLON": tpltoken.SEMICOLON, "COLON": tpltoken.COLON,
	"QUESTION": tpltoken.QUESTION, "TILDE": tpltoken.TILDE, "AT": tpltoken.AT, "ENV": tpltoken.ENV,
	"SHL": tpltoken.SHL, "SHR": tpltoken.SHR, "AND_NOT": tpltoken.AND_NOT,
	"ADD_ASSIGN": tpltoken.ADD_ASSIGN, "SUB_ASSIGN": tpltoken.SUB_ASSIGN, "MUL_ASSIGN": tpltoken.MUL_ASSIGN,
	"QUO_ASSIGN": tpltoken.QUO_ASSIGN, "REM_ASSIGN": tpltoken.REM_ASSIGN, "AND_ASSIGN": tpltoken.AND_ASSIGN,
	"OR_ASSIGN": tpltoken.OR_ASSIGN, "XOR_ASSIGN": tpltoken.XOR_ASSIGN, "SHL_ASSIGN": tpltoken.SHL_ASSIGN,
	"SHR_ASSIGN": tpltoken.SHR_ASSIGN, "AND_NOT_ASSIGN": tpltoken.AND_NOT_ASSIGN,
	"LAND": tpltoken.LAND, "LOR": tpltoken.LOR, "ARROW": tpltoken.ARROW, "INC": tpltoken.INC, "DEC": tpltoken.DEC,
	"EQ": tpltoken.EQ, "NE": tpltoken.NE, "LE": tpltoken.LE, "GE": tpltoken.GE, "DEFINE": tpltoken.DEFINE,
	"ELLIPSIS": tpltoken.ELLIPSIS, "DRARROW": tpltoken.DRARROW, "SRARROW": tpltoken.SRARROW,
	"BIDIARROW": tpltoken.BIDIARROW, "POW": tpltoken.POW,
}

type rawTok struct {
	val  int
	name string
	lit  string
}

func rawXGo(src string) (r []rawTok, panicked string) {
	defer func() {
		if e := recover(); e != nil {
			panicked = fmt.Sprint(e)
		}
	}()
	s := scanner.New(src, nil, scanner.ScanComments)
	for i := 0; i < len(src)+4; i++ {
		_, tok, lit := s.Scan()
		r = append(r, rawTok{int(tok), tok.String(), lit})
		if tok == token.EOF {
			break
		}
	}
	return
}

func rawTPL(src string) (r []rawTok, panicked string) {
	defer func() {
		if e := recover(); e != nil {
			panicked = fmt.Sprint(e)
		}
	}()
	fset := tpltoken.NewFileSet()
	file := fset.AddFile("", fset.Base(), len(src))
	var s tplscanner.Scanner
	s.Init(file, []byte(src), nil, tplscanner.ScanComments)
	for i := 0; i < len(src)+4; i++ {
		t := s.Scan()
		r = append(r, rawTok{int(t.Tok), t.Tok.String(), t.Lit})
		if t.Tok == tpltoken.EOF {
			break
		}
	}
	return
}

func rawKinds(r []rawTok) string {
	var ks []string
	for _, t := range r {
		k := t.name
		if k == ";" && t.lit == "\n" {
			k = ";auto"
		}
		ks = append(ks, k)
	}
	return strings.Join(ks, " ")
}

// roundTrip: exactly [tok] [;auto]? EOF, compared by token value.
func roundTrip(r []rawTok, val, semi, eof int) bool {
	if len(r) < 2 || r[0].val != val {
		return false
	}
	rest := r[1:]
	if len(rest) == 2 && rest[0].val == semi && rest[0].lit == "\n" {
		rest = rest[1:]
	}
	return len(rest) == 1 && rest[0].val == eof
}

func runC33() {
	seenAll := map[string]bool{}
	hlib.ForEachCase(func(idx int, c *tokCase) {
		res := hlib.Result{Idx: idx, V: "ok", Input: map[string]any{"table": c.Tab, "token": c.N, "spelling": c.Sp}, NT: c.Tab + ":" + c.N}
		viol := func(sig, d string) {
			if res.V != "viol" {
				res.V, res.Sig, res.Detail = "viol", sig, d
			}
		}
		drift := func(sig, d string) {
			if res.V == "ok" {
				res.V, res.Sig, res.Detail = "drift", sig, d
			}
		}
		var str string
		var raw []rawTok
		var pan string
		var val, semi, eof int
		switch c.Tab {
		case "xgo":
			tok, ok := xgoByName[c.N]
			if !ok {
				drift("table: spec token unknown to the harness", c.N)
				hlib.Emit(res)
				return
			}
			str, val, semi, eof = tok.String(), int(tok), int(token.SEMICOLON), int(token.EOF)
			// the statement
			if tok.Precedence() > 0 && !tok.IsOperator() {
				viol("precedence-without-operator: token="+c.N, fmt.Sprintf("%s.Precedence()=%d but IsOperator()=false", c.N, tok.Precedence()))
			}
			if tok.IsKeyword() && token.Lookup(str) != tok {
				viol("lookup: token="+c.N, fmt.Sprintf("Lookup(%q)=%v", str, token.Lookup(str)))
			}
			raw, pan = rawXGo(str)
			// table equality (drift)
			if tok.IsOperator() != c.Op || tok.IsKeyword() != (c.Cls == "keyword") || tok.Precedence() != c.Prec {
				drift("table: class/precedence of "+c.N, fmt.Sprintf("code: IsOperator=%v IsKeyword=%v Precedence=%d; spec: op=%v cls=%s prec=%d",
					tok.IsOperator(), tok.IsKeyword(), tok.Precedence(), c.Op, c.Cls, c.Prec))
			}
		case "tpl":
			tok, ok := tplByName[c.N]
			if !ok {
				drift("table: spec token unknown to the harness", c.N)
				hlib.Emit(res)
				return
			}
			str, val, semi, eof = tok.String(), int(tok), int(tpltoken.SEMICOLON), int(tpltoken.EOF)
			if n, p := safeLen(tok); p != "" {
				viol("len-panic: token="+c.N, p)
			} else if n != len(str) {
				viol("len: token="+c.N, fmt.Sprintf("Len()=%d, String()=%q", n, str))
			}
			raw, pan = rawTPL(str)
		}
		if pan != "" {
			viol("scan-spelling-panic: token="+c.N, pan)
		} else if !roundTrip(raw, val, semi, eof) {
			viol(fmt.Sprintf("scan-spelling: table=%s token=%s got=%s", c.Tab, c.N, rawKinds(raw)),
				fmt.Sprintf("scanning %q (String() of %s) yields %s", str, c.N, rawKinds(raw)))
		}
		if str != c.Sp {
			drift("table: spelling of "+c.N, fmt.Sprintf("code String()=%q, spec %q", str, c.Sp))
		}
		// the model's prediction of the scan of the spec's spelling
		_, boff := encode(c.Src)
		lc := LexCase{Out: c.Out}
		model := kindSeq(modelStream(&lc, boff))
		if real := strings.TrimSuffix(strings.TrimSuffix(rawKinds(raw), "EOF"), " "); str == c.Sp && pan == "" && model != real {
			drift("model-scan: "+c.N, fmt.Sprintf("model %q, code %q", model, real))
		}
		if !c.RT && res.V == "ok" {
			drift("model-roundtrip-false-but-code-ok: "+c.N, "the model predicted that the spelling does not round-trip")
		}
		if res.V == "ok" {
			res.Detail = fmt.Sprintf("%q -> %s", str, rawKinds(raw))
		}
		hlib.Emit(res)
		// once per table: every token of the code must be in the spec table (drift otherwise)
		if !seenAll[c.Tab] {
			seenAll[c.Tab] = true
			spec := map[string]bool{}
			for _, e := range c.All {
				if len(e) >= 2 {
					spec[e[1]] = true
				}
			}
			for v := 0; v < 256; v++ {
				var s string
				if c.Tab == "xgo" {
					s = token.Token(v).String()
				} else {
					s = tpltoken.Token(v).String()
				}
				if !strings.HasPrefix(s, "token(") && !spec[s] {
					hlib.Emit(hlib.Result{Idx: idx, V: "drift", Sig: "table: code token missing in spec: " + c.Tab + " " + s,
						Detail: fmt.Sprintf("token value %d (%q) of the %s table has no entry in Tokens.tla", v, s, c.Tab)})
				}
			}
		}
	})
}

func safeLen(t tpltoken.Token) (n int, p string) {
	defer func() {
		if e := recover(); e != nil {
			p = fmt.Sprint(e)
		}
	}()
	return t.Len(), ""
}
