// Package syntree binds the abstract syntax trees of specs/syntax/Syntax.tla to real
// github.com/goplus/xgo/ast values.
//
// JSON TREE SHAPE (stable; exported by TLC with ToJson, consumed by every syntax harness):
//
//	{"k": <kind>, "a": <attribute>, "c": [<child>, ...]}
//
// k is the Go type name of the node in ast/ast.go / ast/ast_gop.go ("Ident", "BinaryExpr",
// "ErrWrapExpr", "ForPhrase", "GenDecl", "File", ...) or one of the pseudo kinds
//
//	"Nil"   an absent optional child that has a fixed slot (e.g. SliceExpr.Low)
//	"List"  one []T field of a node that has several list fields (a = "," / ",1" comma list,
//	        ";" statement list); never an ast node itself
//	"Tuple" parser-internal, never exported
//
// a is the operator / name / literal spelling / flag string, c the children IN SOURCE ORDER
// (= field order of the Go struct).  Per kind (X? = optional slot filled with Nil when absent):
//
//	Ident a=name | BasicLit a=literal text c=[interpolated parts..] | NumberUnitLit a=value+unit ("1px")
//	DomainTextLit a=raw literal incl. backquotes c=[Domain, args..] | EnvExpr a=""|"{" c=[Name]
//	ParenExpr [X] | BinaryExpr a=op [X,Y] | UnaryExpr a=op [X] | StarExpr [X]
//	ErrWrapExpr a="!"|"?" [X] or [X,Default] | SelectorExpr [X,Sel] | IndexExpr [X,Index]
//	IndexListExpr [X,I1,..] | SliceExpr a=""|"3" [X,Low?,High?,Max?] | TypeAssertExpr [X,Type?]
//	CallExpr a=""|"..."|"cmd"|"cmd..." [Fun,Args..] | KeyValueExpr [K,V]
//	CompositeLit [Type?,Elts..] | SliceLit [Elts..] | MatrixLit [List row,..] | ElemEllipsis [Elt]
//	LambdaExpr a=""|"l"|"r"|"lr" (LhsHasParen/RhsHasParen) [List lhs, List rhs]
//	LambdaExpr2 a=""|"l" [List lhs, Body] | RangeExpr [First?,Last?,Expr3?]
//	ForPhrase a=""|"stmt" (phrase of a for statement; rendering only) [Key?,Value,X,Init?,Cond?] | ComprehensionExpr a="["|"{" [Elt?,ForPhrase..]
//	FuncLit [Type,Body] | Ellipsis [Elt?] | ArrayType [Len?,Elt] | MapType [K,V]
//	ChanType a="chan"|"<-chan"|"chan<-" [Value] | FuncType a=""|"decl" [TypeParams?,Params,Results?]
//	StructType [FieldList] | InterfaceType [FieldList] | FieldList a="("|"{"|"["|"" (rendering only) [Field..]
//	Field [List names, Type?, Tag?]
//	ExprStmt [X] | AssignStmt a=tok [List lhs, List rhs] | IncDecStmt a="++"|"--" [X]
//	SendStmt a=""|"..." [Chan,Values..] | GoStmt [Call] | DeferStmt [Call] | ReturnStmt [Results..]
//	BranchStmt a=tok [Label?] | BlockStmt [Stmts..] | IfStmt [Init?,Cond,Body,Else?]
//	CaseClause a="case"|"default" [List exprs, List body] | SwitchStmt [Init?,Tag?,Body]
//	TypeSwitchStmt [Init?,Assign,Body] | CommClause a="case"|"default" [Comm?, List body] | SelectStmt [Body]
//	ForStmt [Init?,Cond?,Post?,Body] | RangeStmt a=""|":="|"="|"norange" [Key?,Value?,X,Body]
//	ForPhraseStmt [ForPhrase,Body] | LabeledStmt [Label,Stmt] | DeclStmt [Decl] | EmptyStmt
//	GenDecl a="var"|"var("|"const"|"const("|"type"|"type("|"import"|"import(" [Specs..]
//	ImportSpec [Name?,Path] | ValueSpec [List names,Type?,Tag?,List values] | TypeSpec a=""|"=" [Name,TypeParams?,Type]
//	FuncDecl a=""|"op" [Recv?,Name,Type,Body?] | OverloadFuncDecl a=""|"op" [Recv?,Name,Funcs..]
//	File a=""|"nopkg" [Name?,Decls..]
//
// Build turns such a tree into an ast value WITHOUT source positions (position fields are only
// set where the ast uses them as flags: CallExpr.NoParenEnd, CallExpr.Ellipsis, EnvExpr.Rbrace,
// GenDecl.Lparen, TypeSpec.Assign, SendStmt.Ellipsis, FuncType.Func).  Project maps any ast value
// back to the same shape; String renders a tree as an s-expression; Strip removes ParenExpr.
package syntree

import (
	"strings"
)

// Tree is one node of the abstract syntax (see the package comment for the layout per kind).
type Tree struct {
	K string  `json:"k"`
	A string  `json:"a"`
	C []*Tree `json:"c"`
}

// N builds a node.
func N(k, a string, c ...*Tree) *Tree { return &Tree{K: k, A: a, C: c} }

// Nil is the absent optional child.
func Nil() *Tree { return &Tree{K: "Nil"} }

// IsPseudo reports whether t is not an ast node (Nil, List).
func (t *Tree) IsPseudo() bool { return t == nil || t.K == "Nil" || t.K == "List" || t.K == "Tuple" }

// String renders the tree as an s-expression: (Kind "attr" child ...).
func (t *Tree) String() string {
	var b strings.Builder
	t.write(&b)
	return b.String()
}

func (t *Tree) write(b *strings.Builder) {
	if t == nil {
		b.WriteString("<nil>")
		return
	}
	if t.K == "Nil" {
		b.WriteString("_")
		return
	}
	if len(t.C) == 0 && t.A != "" && (t.K == "Ident" || t.K == "BasicLit" || t.K == "NumberUnitLit") {
		b.WriteString(t.A)
		return
	}
	b.WriteByte('(')
	if t.K == "List" {
		b.WriteString("list")
	} else {
		b.WriteString(t.K)
	}
	if t.A != "" && t.K != "List" {
		b.WriteByte(' ')
		b.WriteString(t.A)
	}
	for _, c := range t.C {
		b.WriteByte(' ')
		c.write(b)
	}
	b.WriteByte(')')
}

// Equal is structural equality modulo the rendering-only attributes (see normAttr).
func Equal(x, y *Tree) bool {
	if x == nil || y == nil {
		return x == y
	}
	if x.K != y.K || len(x.C) != len(y.C) {
		return false
	}
	if normAttr(x) != normAttr(y) {
		return false
	}
	for i := range x.C {
		if !Equal(x.C[i], y.C[i]) {
			return false
		}
	}
	return true
}

// normAttr drops rendering-only parts of an attribute (the ";" of a class-file field block).
func normAttr(t *Tree) string {
	switch t.K {
	case "GenDecl":
		return strings.TrimSuffix(t.A, ";")
	case "List", "FieldList", "FuncType", "File", "ForPhrase":
		// how the list is bracketed, whether the signature carries its own func keyword, class/script file:
		// decided by the context, not part of the abstract tree
		return ""
	}
	return t.A
}

// Strip removes every ParenExpr.  `x => (e)` (RhsHasParen around a single result) and `(x) => e`
// are the lambda's own way of writing such parentheses, so these flags are normalised away too.
func Strip(t *Tree) *Tree {
	if t == nil {
		return nil
	}
	if t.K == "ParenExpr" && len(t.C) == 1 {
		return Strip(t.C[0])
	}
	r := &Tree{K: t.K, A: t.A}
	for _, c := range t.C {
		r.C = append(r.C, Strip(c))
	}
	if (t.K == "LambdaExpr" || t.K == "LambdaExpr2") && len(t.C) == 2 {
		l, rr := strings.Contains(t.A, "l"), strings.Contains(t.A, "r")
		if l && len(t.C[0].C) == 1 {
			l = false
		}
		if rr && t.K == "LambdaExpr" && len(t.C[1].C) == 1 {
			rr = false
		}
		r.A = ""
		if l {
			r.A += "l"
		}
		if rr {
			r.A += "r"
		}
	}
	return r
}

// Preorder lists the real nodes of t, parents first, children in source order.
func Preorder(t *Tree) []*Tree {
	var out []*Tree
	var rec func(t *Tree)
	rec = func(t *Tree) {
		if t == nil {
			return
		}
		if !t.IsPseudo() {
			out = append(out, t)
		}
		for _, c := range t.C {
			rec(c)
		}
	}
	rec(t)
	return out
}

// Clone is a deep copy.
func Clone(t *Tree) *Tree {
	if t == nil {
		return nil
	}
	r := &Tree{K: t.K, A: t.A}
	for _, c := range t.C {
		r.C = append(r.C, Clone(c))
	}
	return r
}
