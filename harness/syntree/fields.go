package syntree

// fieldNames gives, per kind, the Go field a child slot belongs to; a trailing "*" marks the slot from
// which on all children belong to that (slice) field.
var fieldNames = map[string][]string{
	"DomainTextLit": {"Domain", "Args*"}, "EnvExpr": {"Name"}, "ParenExpr": {"X"}, "BinaryExpr": {"X", "Y"},
	"UnaryExpr": {"X"}, "StarExpr": {"X"}, "ErrWrapExpr": {"X", "Default"}, "SelectorExpr": {"X", "Sel"},
	"IndexExpr": {"X", "Index"}, "IndexListExpr": {"X", "Indices*"}, "SliceExpr": {"X", "Low", "High", "Max"},
	"TypeAssertExpr": {"X", "Type"}, "CallExpr": {"Fun", "Args*"}, "KeyValueExpr": {"Key", "Value"},
	"CompositeLit": {"Type", "Elts*"}, "SliceLit": {"Elts*"}, "MatrixLit": {"Elts*"}, "ElemEllipsis": {"Elt"},
	"LambdaExpr": {"Lhs", "Rhs"}, "LambdaExpr2": {"Lhs", "Body"}, "RangeExpr": {"First", "Last", "Expr3"},
	"ForPhrase": {"Key", "Value", "X", "Init", "Cond"}, "ComprehensionExpr": {"Elt", "Fors*"},
	"FuncLit": {"Type", "Body"}, "Ellipsis": {"Elt"}, "ArrayType": {"Len", "Elt"}, "MapType": {"Key", "Value"},
	"ChanType": {"Value"}, "FuncType": {"TypeParams", "Params", "Results"}, "StructType": {"Fields"},
	"InterfaceType": {"Methods"}, "FieldList": {"List*"}, "Field": {"Names", "Type", "Tag"},
	"ExprStmt": {"X"}, "AssignStmt": {"Lhs", "Rhs"}, "IncDecStmt": {"X"}, "SendStmt": {"Chan", "Values*"},
	"GoStmt": {"Call"}, "DeferStmt": {"Call"}, "ReturnStmt": {"Results*"}, "BranchStmt": {"Label"},
	"BlockStmt": {"List*"}, "IfStmt": {"Init", "Cond", "Body", "Else"}, "CaseClause": {"List", "Body"},
	"SwitchStmt": {"Init", "Tag", "Body"}, "TypeSwitchStmt": {"Init", "Assign", "Body"}, "CommClause": {"Comm", "Body"},
	"SelectStmt": {"Body"}, "ForStmt": {"Init", "Cond", "Post", "Body"}, "RangeStmt": {"Key", "Value", "X", "Body"},
	"ForPhraseStmt": {"ForPhrase", "Body"}, "LabeledStmt": {"Label", "Stmt"}, "DeclStmt": {"Decl"},
	"GenDecl": {"Specs*"}, "ImportSpec": {"Name", "Path"}, "ValueSpec": {"Names", "Type", "Tag", "Values"},
	"TypeSpec": {"Name", "TypeParams", "Type"}, "FuncDecl": {"Recv", "Name", "Type", "Body"},
	"OverloadFuncDecl": {"Recv", "Name", "Funcs*"}, "File": {"Name", "Decls*"}, "BasicLit": {"Parts*"},
}

// FieldName names child slot i (0-based) of a node of the given kind.
func FieldName(kind string, i int) string {
	fs := fieldNames[kind]
	for j, f := range fs {
		star := len(f) > 0 && f[len(f)-1] == '*'
		if star {
			f = f[:len(f)-1]
		}
		if j == i || (star && i >= j) {
			return f
		}
	}
	return "?"
}
