package syntree

import (
	goast "go/ast"
	"reflect"
	"sort"

	"github.com/goplus/xgo/ast"
	"github.com/goplus/xgo/token"
)

// Child is one non-nil child node of an ast node together with the struct field it hangs off.
type Child struct {
	Field string
	Node  ast.Node
}

var nodeType = reflect.TypeOf((*ast.Node)(nil)).Elem()

const astPkg = "github.com/goplus/xgo/ast"

// skipField lists fields that hold nodes which are NOT children: they repeat nodes reachable elsewhere
// (File.Imports, File.Comments, File.ShadowEntry; go/ast documents the same for its File) or are
// resolution results (Ident.Obj is no Node anyway).
func skipField(owner reflect.Type, f reflect.StructField, n ast.Node) bool {
	switch owner.Name() + "." + f.Name {
	case "File.Imports", "File.Comments", "File.ShadowEntry", "File.Code", "Ident.Obj":
		return true
	}
	switch x := n.(type) {
	case *ast.FuncDecl:
		// a shadow entry (implicit main, class entry) has no source for its header: ast.Walk documents that
		// only the body is walked
		if x.Shadow && (f.Name == "Doc" || f.Name == "Recv" || f.Name == "Name" || f.Name == "Type") {
			return true
		}
	case *ast.File:
		if x.NoPkgDecl && f.Name == "Name" { // implicit package name, no source
			return true
		}
	}
	return false
}

func isAstNodeValue(v reflect.Value) (ast.Node, bool) {
	if !v.IsValid() {
		return nil, false
	}
	if v.Kind() == reflect.Interface {
		if v.IsNil() {
			return nil, false
		}
		v = v.Elem()
	}
	if v.Kind() != reflect.Ptr || v.IsNil() || !v.CanInterface() {
		return nil, false
	}
	n, ok := v.Interface().(ast.Node)
	if !ok {
		return nil, false
	}
	switch n.(type) {
	case *goast.Comment, *goast.CommentGroup:
		return n, true
	}
	if v.Type().Elem().PkgPath() != astPkg {
		return nil, false // e.g. *tpl/ast.File in DomainTextLit.Extra: another tree, not walked by ast.Walk
	}
	if _, isObj := n.(*ast.Package); isObj {
		return nil, false
	}
	return n, true
}

// Children enumerates the non-nil ast.Node children of n in struct-field order (= source order),
// looking through slices, [][]Expr, `any` fields and the non-node holders StringLitEx / DomainTextLitEx.
func Children(n ast.Node) []Child {
	var out []Child
	v := reflect.ValueOf(n)
	if v.Kind() != reflect.Ptr || v.IsNil() || v.Elem().Kind() != reflect.Struct {
		return nil
	}
	collectStruct(n, v.Elem(), "", &out)
	return out
}

func collectStruct(owner ast.Node, sv reflect.Value, prefix string, out *[]Child) {
	st := sv.Type()
	for i := 0; i < st.NumField(); i++ {
		f := st.Field(i)
		if !f.IsExported() {
			continue
		}
		if prefix == "" && skipField(st, f, owner) {
			continue
		}
		collectValue(owner, sv.Field(i), prefix+f.Name, out)
	}
}

func collectValue(owner ast.Node, v reflect.Value, name string, out *[]Child) {
	if n, ok := isAstNodeValue(v); ok {
		*out = append(*out, Child{name, n})
		return
	}
	switch v.Kind() {
	case reflect.Interface:
		if !v.IsNil() {
			collectValue(owner, v.Elem(), name, out)
		}
	case reflect.Slice:
		if v.Type().Elem().Kind() == reflect.Uint8 {
			return
		}
		for i := 0; i < v.Len(); i++ {
			collectValue(owner, v.Index(i), name, out)
		}
	case reflect.Ptr:
		// a holder struct of the ast package that is not itself a node (StringLitEx, DomainTextLitEx)
		if !v.IsNil() && v.Type().Elem().Kind() == reflect.Struct && v.Type().Elem().PkgPath() == astPkg &&
			!v.Type().Implements(nodeType) {
			switch v.Type().Elem().Name() {
			case "StringLitEx", "DomainTextLitEx":
				collectStruct(owner, v.Elem(), name+".", out)
			}
		}
	}
}

// OrderedChildren is Children in SOURCE order: sorted by position when every child has a valid one
// (stable, so equal positions keep field order), else in field order.  The signature of a FuncDecl is
// ordered by its parameter list (its Pos() is the func keyword, before receiver and name).
func OrderedChildren(n ast.Node) []Child {
	cs := Children(n)
	key := func(c Child) token.Pos {
		if ft, ok := c.Node.(*ast.FuncType); ok {
			if _, isDecl := n.(*ast.FuncDecl); isDecl && ft.Params != nil && ft.Params.Pos().IsValid() {
				return ft.Params.Pos()
			}
		}
		return c.Node.Pos()
	}
	for _, c := range cs {
		if !key(c).IsValid() {
			return cs
		}
	}
	sort.SliceStable(cs, func(i, j int) bool { return key(cs[i]) < key(cs[j]) })
	return cs
}

// WalkEventsOf is the event sequence the statement of C18 prescribes for the tree rooted at n:
// the node, then the sequences of its children in source order, then nil.
func WalkEventsOf(n ast.Node, visit func(n ast.Node, depth int)) {
	var rec func(n ast.Node, d int)
	rec = func(n ast.Node, d int) {
		visit(n, d)
		for _, c := range OrderedChildren(n) {
			rec(c.Node, d+1)
		}
		visit(nil, d)
	}
	rec(n, 0)
}
