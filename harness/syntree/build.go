package syntree

import (
	"fmt"
	"strings"

	"github.com/goplus/xgo/ast"
	"github.com/goplus/xgo/token"
)

// flagPos is the value given to position fields that the ast uses as flags.
const flagPos = token.Pos(1)

// BuildError reports a tree that does not follow the layout table.
type BuildError struct{ Msg string }

func (e *BuildError) Error() string { return e.Msg }

func bad(t *Tree, why string) {
	panic(&BuildError{fmt.Sprintf("syntree.Build: %s at %s", why, t.String())})
}

// Build turns a tree into an ast value without source positions (see package comment).
func Build(t *Tree) (n ast.Node, err error) {
	defer func() {
		if e := recover(); e != nil {
			if be, ok := e.(*BuildError); ok {
				n, err = nil, be
				return
			}
			panic(e)
		}
	}()
	return build(t), nil
}

var binTok = map[string]token.Token{}
var assignTok = map[string]token.Token{}

func init() {
	for _, t := range []token.Token{token.ADD, token.SUB, token.MUL, token.QUO, token.REM, token.AND, token.OR,
		token.XOR, token.SHL, token.SHR, token.AND_NOT, token.LAND, token.LOR, token.EQL, token.LSS, token.GTR,
		token.NEQ, token.LEQ, token.GEQ, token.SRARROW, token.BIDIARROW, token.ARROW, token.NOT, token.QUESTION} {
		binTok[t.String()] = t
	}
	for _, t := range []token.Token{token.ASSIGN, token.DEFINE, token.ADD_ASSIGN, token.SUB_ASSIGN, token.MUL_ASSIGN,
		token.QUO_ASSIGN, token.REM_ASSIGN, token.AND_ASSIGN, token.OR_ASSIGN, token.XOR_ASSIGN, token.SHL_ASSIGN,
		token.SHR_ASSIGN, token.AND_NOT_ASSIGN} {
		assignTok[t.String()] = t
	}
}

// LitKind classifies a literal spelling the way the scanner would.
func LitKind(s string) token.Token {
	switch {
	case s == "":
		return token.INT
	case strings.HasPrefix(s, "c\"") || strings.HasPrefix(s, "C\""):
		return token.CSTRING
	case strings.HasPrefix(s, "py\""):
		return token.PYSTRING
	case s[0] == '"' || s[0] == '`':
		return token.STRING
	case s[0] == '\'':
		return token.CHAR
	case strings.HasSuffix(s, "i"):
		return token.IMAG
	case strings.HasSuffix(s, "r"):
		return token.RAT
	case strings.HasPrefix(s, "0x") || strings.HasPrefix(s, "0X"):
		return token.INT
	case strings.ContainsAny(s, ".eE"):
		return token.FLOAT
	}
	return token.INT
}

func isNil(t *Tree) bool { return t == nil || t.K == "Nil" }

func (t *Tree) child(i int) *Tree {
	if i >= len(t.C) {
		bad(t, fmt.Sprintf("missing child %d", i))
	}
	return t.C[i]
}

func expr(t *Tree) ast.Expr {
	if isNil(t) {
		return nil
	}
	n := build(t)
	e, ok := n.(ast.Expr)
	if !ok {
		bad(t, "expression expected")
	}
	return e
}

func stmt(t *Tree) ast.Stmt {
	if isNil(t) {
		return nil
	}
	n := build(t)
	s, ok := n.(ast.Stmt)
	if !ok {
		bad(t, "statement expected")
	}
	return s
}

func ident(t *Tree) *ast.Ident {
	if isNil(t) {
		return nil
	}
	if t.K != "Ident" {
		bad(t, "identifier expected")
	}
	return &ast.Ident{Name: t.A}
}

func basicLit(t *Tree) *ast.BasicLit {
	if isNil(t) {
		return nil
	}
	n, ok := build(t).(*ast.BasicLit)
	if !ok {
		bad(t, "basic literal expected")
	}
	return n
}

func block(t *Tree) *ast.BlockStmt {
	if isNil(t) {
		return nil
	}
	n, ok := build(t).(*ast.BlockStmt)
	if !ok {
		bad(t, "block expected")
	}
	return n
}

func fieldList(t *Tree) *ast.FieldList {
	if isNil(t) {
		return nil
	}
	n, ok := build(t).(*ast.FieldList)
	if !ok {
		bad(t, "field list expected")
	}
	return n
}

func call(t *Tree) *ast.CallExpr {
	n, ok := build(t).(*ast.CallExpr)
	if !ok {
		bad(t, "call expected")
	}
	return n
}

// items returns the elements of a List pseudo node (or nil for Nil).
func items(t *Tree) []*Tree {
	if isNil(t) {
		return nil
	}
	if t.K != "List" {
		bad(t, "list expected")
	}
	return t.C
}

func exprs(ts []*Tree) []ast.Expr {
	var r []ast.Expr
	for _, c := range ts {
		r = append(r, expr(c))
	}
	return r
}

func stmts(ts []*Tree) []ast.Stmt {
	var r []ast.Stmt
	for _, c := range ts {
		r = append(r, stmt(c))
	}
	return r
}

func idents(ts []*Tree) []*ast.Ident {
	var r []*ast.Ident
	for _, c := range ts {
		r = append(r, ident(c))
	}
	return r
}

// SplitUnit splits "1px" into the number and the unit.
func SplitUnit(s string) (val, unit string) {
	i := 0
	for i < len(s) && (s[i] >= '0' && s[i] <= '9' || s[i] == '.' || s[i] == '_') {
		i++
	}
	return s[:i], s[i:]
}

func build(t *Tree) ast.Node {
	if t == nil {
		bad(&Tree{K: "?"}, "nil tree")
	}
	switch t.K {
	case "Ident":
		return &ast.Ident{Name: t.A}
	case "BasicLit":
		l := &ast.BasicLit{Kind: LitKind(t.A), Value: t.A}
		switch l.Kind { // the ast keeps c"..." / py"..." literals without their prefix
		case token.CSTRING:
			l.Value = t.A[1:]
		case token.PYSTRING:
			l.Value = t.A[2:]
		}
		if len(t.C) > 0 {
			ex := &ast.StringLitEx{}
			for _, c := range t.C {
				ex.Parts = append(ex.Parts, expr(c))
			}
			l.Extra = ex
		}
		return l
	case "NumberUnitLit":
		v, u := SplitUnit(t.A)
		return &ast.NumberUnitLit{Kind: LitKind(v), Value: v, Unit: u}
	case "DomainTextLit":
		d := &ast.DomainTextLit{Domain: ident(t.child(0)), Value: t.A}
		if len(t.C) > 1 {
			d.Extra = &ast.DomainTextLitEx{Args: exprs(t.C[1:]), Raw: strings.Trim(t.A, "`")}
		}
		return d
	case "EnvExpr":
		e := &ast.EnvExpr{Name: ident(t.child(0))}
		if t.A == "{" {
			e.Lbrace, e.Rbrace = flagPos, flagPos
		}
		return e
	case "ParenExpr":
		return &ast.ParenExpr{X: expr(t.child(0))}
	case "BinaryExpr":
		op, ok := binTok[t.A]
		if !ok {
			bad(t, "unknown binary operator")
		}
		return &ast.BinaryExpr{X: expr(t.child(0)), Op: op, Y: expr(t.child(1))}
	case "UnaryExpr":
		op, ok := binTok[t.A]
		if !ok {
			bad(t, "unknown unary operator")
		}
		return &ast.UnaryExpr{Op: op, X: expr(t.child(0))}
	case "StarExpr":
		return &ast.StarExpr{X: expr(t.child(0))}
	case "ErrWrapExpr":
		e := &ast.ErrWrapExpr{X: expr(t.child(0)), Tok: binTok[t.A]}
		if len(t.C) > 1 {
			e.Default = expr(t.C[1])
		}
		return e
	case "SelectorExpr":
		return &ast.SelectorExpr{X: expr(t.child(0)), Sel: ident(t.child(1))}
	case "IndexExpr":
		return &ast.IndexExpr{X: expr(t.child(0)), Index: expr(t.child(1))}
	case "IndexListExpr":
		return &ast.IndexListExpr{X: expr(t.child(0)), Indices: exprs(t.C[1:])}
	case "SliceExpr":
		return &ast.SliceExpr{X: expr(t.child(0)), Low: expr(t.child(1)), High: expr(t.child(2)), Max: expr(t.child(3)), Slice3: t.A == "3"}
	case "TypeAssertExpr":
		return &ast.TypeAssertExpr{X: expr(t.child(0)), Type: expr(t.child(1))}
	case "CallExpr":
		c := &ast.CallExpr{Fun: expr(t.child(0)), Args: exprs(t.C[1:])}
		if strings.HasPrefix(t.A, "cmd") {
			c.NoParenEnd = flagPos
		}
		if strings.HasSuffix(t.A, "...") {
			c.Ellipsis = flagPos
		}
		return c
	case "KeyValueExpr":
		return &ast.KeyValueExpr{Key: expr(t.child(0)), Value: expr(t.child(1))}
	case "CompositeLit":
		return &ast.CompositeLit{Type: expr(t.child(0)), Elts: exprs(t.C[1:])}
	case "SliceLit":
		return &ast.SliceLit{Elts: exprs(t.C)}
	case "MatrixLit":
		m := &ast.MatrixLit{}
		for _, row := range t.C {
			m.Elts = append(m.Elts, exprs(items(row)))
		}
		return m
	case "ElemEllipsis":
		return &ast.ElemEllipsis{Elt: expr(t.child(0))}
	case "LambdaExpr":
		return &ast.LambdaExpr{Lhs: idents(items(t.child(0))), Rhs: exprs(items(t.child(1))),
			LhsHasParen: strings.Contains(t.A, "l"), RhsHasParen: strings.Contains(t.A, "r")}
	case "LambdaExpr2":
		return &ast.LambdaExpr2{Lhs: idents(items(t.child(0))), Body: block(t.child(1)), LhsHasParen: strings.Contains(t.A, "l")}
	case "RangeExpr":
		return &ast.RangeExpr{First: expr(t.child(0)), Last: expr(t.child(1)), Expr3: expr(t.child(2))}
	case "ForPhrase":
		return &ast.ForPhrase{Key: ident(t.child(0)), Value: ident(t.child(1)), X: expr(t.child(2)), Init: stmt(t.child(3)), Cond: expr(t.child(4))}
	case "ComprehensionExpr":
		c := &ast.ComprehensionExpr{Tok: token.LBRACK, Elt: expr(t.child(0))}
		if t.A == "{" {
			c.Tok = token.LBRACE
		}
		for _, f := range t.C[1:] {
			fp, ok := build(f).(*ast.ForPhrase)
			if !ok {
				bad(f, "for phrase expected")
			}
			c.Fors = append(c.Fors, fp)
		}
		return c
	case "FuncLit":
		ft, ok := build(t.child(0)).(*ast.FuncType)
		if !ok {
			bad(t, "func type expected")
		}
		return &ast.FuncLit{Type: ft, Body: block(t.child(1))}
	case "Ellipsis":
		return &ast.Ellipsis{Elt: expr(t.child(0))}
	case "ArrayType":
		return &ast.ArrayType{Len: expr(t.child(0)), Elt: expr(t.child(1))}
	case "MapType":
		return &ast.MapType{Key: expr(t.child(0)), Value: expr(t.child(1))}
	case "ChanType":
		c := &ast.ChanType{Value: expr(t.child(0)), Dir: ast.SEND | ast.RECV}
		switch t.A {
		case "<-chan":
			c.Dir = ast.RECV
		case "chan<-":
			c.Dir = ast.SEND
		}
		return c
	case "FuncType":
		f := &ast.FuncType{TypeParams: fieldList(t.child(0)), Params: fieldList(t.child(1)), Results: fieldList(t.child(2))}
		if t.A != "decl" {
			f.Func = flagPos
		}
		return f
	case "StructType":
		return &ast.StructType{Fields: fieldList(t.child(0))}
	case "InterfaceType":
		return &ast.InterfaceType{Methods: fieldList(t.child(0))}
	case "FieldList":
		fl := &ast.FieldList{}
		for _, c := range t.C {
			f, ok := build(c).(*ast.Field)
			if !ok {
				bad(c, "field expected")
			}
			fl.List = append(fl.List, f)
		}
		return fl
	case "Field":
		return &ast.Field{Names: idents(items(t.child(0))), Type: expr(t.child(1)), Tag: basicLit(t.child(2))}

	// ---- statements
	case "ExprStmt":
		return &ast.ExprStmt{X: expr(t.child(0))}
	case "AssignStmt":
		tok, ok := assignTok[t.A]
		if !ok {
			bad(t, "unknown assignment token")
		}
		return &ast.AssignStmt{Lhs: exprs(items(t.child(0))), Tok: tok, Rhs: exprs(items(t.child(1)))}
	case "IncDecStmt":
		tok := token.INC
		if t.A == "--" {
			tok = token.DEC
		}
		return &ast.IncDecStmt{X: expr(t.child(0)), Tok: tok}
	case "SendStmt":
		s := &ast.SendStmt{Chan: expr(t.child(0)), Values: exprs(t.C[1:])}
		if t.A == "..." {
			s.Ellipsis = flagPos
		}
		return s
	case "GoStmt":
		return &ast.GoStmt{Call: call(t.child(0))}
	case "DeferStmt":
		return &ast.DeferStmt{Call: call(t.child(0))}
	case "ReturnStmt":
		return &ast.ReturnStmt{Results: exprs(t.C)}
	case "BranchStmt":
		tok := map[string]token.Token{"break": token.BREAK, "continue": token.CONTINUE, "goto": token.GOTO, "fallthrough": token.FALLTHROUGH}[t.A]
		b := &ast.BranchStmt{Tok: tok}
		if len(t.C) > 0 {
			b.Label = ident(t.C[0])
		}
		return b
	case "BlockStmt":
		return &ast.BlockStmt{List: stmts(t.C)}
	case "IfStmt":
		return &ast.IfStmt{Init: stmt(t.child(0)), Cond: expr(t.child(1)), Body: block(t.child(2)), Else: stmt(t.child(3))}
	case "CaseClause":
		c := &ast.CaseClause{Body: stmts(items(t.child(1)))}
		if t.A != "default" {
			c.List = exprs(items(t.child(0)))
		}
		return c
	case "SwitchStmt":
		return &ast.SwitchStmt{Init: stmt(t.child(0)), Tag: expr(t.child(1)), Body: block(t.child(2))}
	case "TypeSwitchStmt":
		return &ast.TypeSwitchStmt{Init: stmt(t.child(0)), Assign: stmt(t.child(1)), Body: block(t.child(2))}
	case "CommClause":
		return &ast.CommClause{Comm: stmt(t.child(0)), Body: stmts(items(t.child(1)))}
	case "SelectStmt":
		return &ast.SelectStmt{Body: block(t.child(0))}
	case "ForStmt":
		return &ast.ForStmt{Init: stmt(t.child(0)), Cond: expr(t.child(1)), Post: stmt(t.child(2)), Body: block(t.child(3))}
	case "RangeStmt":
		r := &ast.RangeStmt{Key: expr(t.child(0)), Value: expr(t.child(1)), X: expr(t.child(2)), Body: block(t.child(3))}
		switch t.A {
		case ":=":
			r.Tok = token.DEFINE
		case "=":
			r.Tok = token.ASSIGN
		case "norange":
			r.NoRangeOp = true
		}
		return r
	case "ForPhraseStmt":
		fp, ok := build(t.child(0)).(*ast.ForPhrase)
		if !ok {
			bad(t, "for phrase expected")
		}
		return &ast.ForPhraseStmt{ForPhrase: fp, Body: block(t.child(1))}
	case "LabeledStmt":
		return &ast.LabeledStmt{Label: ident(t.child(0)), Stmt: stmt(t.child(1))}
	case "DeclStmt":
		d, ok := build(t.child(0)).(ast.Decl)
		if !ok {
			bad(t, "declaration expected")
		}
		return &ast.DeclStmt{Decl: d}
	case "EmptyStmt":
		return &ast.EmptyStmt{Implicit: true}

	// ---- declarations
	case "GenDecl":
		kw := strings.TrimSuffix(strings.TrimSuffix(t.A, ";"), "(")
		tok := map[string]token.Token{"var": token.VAR, "const": token.CONST, "type": token.TYPE, "import": token.IMPORT}[kw]
		g := &ast.GenDecl{Tok: tok}
		if strings.Contains(t.A, "(") {
			g.Lparen, g.Rparen = flagPos, flagPos
		}
		for _, c := range t.C {
			s, ok := build(c).(ast.Spec)
			if !ok {
				bad(c, "spec expected")
			}
			g.Specs = append(g.Specs, s)
		}
		return g
	case "ImportSpec":
		return &ast.ImportSpec{Name: ident(t.child(0)), Path: basicLit(t.child(1))}
	case "ValueSpec":
		return &ast.ValueSpec{Names: idents(items(t.child(0))), Type: expr(t.child(1)), Tag: basicLit(t.child(2)), Values: exprs(items(t.child(3)))}
	case "TypeSpec":
		s := &ast.TypeSpec{Name: ident(t.child(0)), TypeParams: fieldList(t.child(1)), Type: expr(t.child(2))}
		if t.A == "=" {
			s.Assign = flagPos
		}
		return s
	case "FuncDecl":
		if t.A == "shadow" { // implicit entry of a script: only the body has source
			return &ast.FuncDecl{Name: &ast.Ident{Name: "main"}, Type: &ast.FuncType{Params: &ast.FieldList{}},
				Body: block(t.child(3)), Shadow: true}
		}
		ft, ok := build(t.child(2)).(*ast.FuncType)
		if !ok {
			bad(t, "func type expected")
		}
		return &ast.FuncDecl{Recv: fieldList(t.child(0)), Name: ident(t.child(1)), Type: ft, Body: block(t.child(3)), Operator: t.A == "op"}
	case "OverloadFuncDecl":
		return &ast.OverloadFuncDecl{Recv: fieldList(t.child(0)), Name: ident(t.child(1)), Funcs: exprs(t.C[2:]), Operator: t.A == "op",
			Lparen: flagPos, Rparen: flagPos}
	case "File":
		f := &ast.File{Name: ident(t.child(0)), NoPkgDecl: isNil(t.child(0))}
		if f.Name == nil {
			f.Name = &ast.Ident{Name: "main"}
		}
		for _, c := range t.C[1:] {
			d, ok := build(c).(ast.Decl)
			if !ok {
				bad(c, "declaration expected")
			}
			f.Decls = append(f.Decls, d)
			if fd, ok := d.(*ast.FuncDecl); ok && fd.Shadow {
				f.ShadowEntry = fd
			}
		}
		f.IsClass = strings.Contains(t.A, "class")
		return f
	}
	bad(t, "unknown kind "+t.K)
	return nil
}
