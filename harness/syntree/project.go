package syntree

import (
	"fmt"
	"reflect"
	"strings"

	"github.com/goplus/xgo/ast"
	"github.com/goplus/xgo/token"
)

func isNilNode(n ast.Node) bool {
	if n == nil {
		return true
	}
	v := reflect.ValueOf(n)
	return v.Kind() == reflect.Ptr && v.IsNil()
}

func opt(n ast.Node) *Tree {
	if isNilNode(n) {
		return Nil()
	}
	return Project(n)
}

func list(a string, ns ...*Tree) *Tree { return &Tree{K: "List", A: a, C: ns} }

func projExprs(es []ast.Expr) []*Tree {
	var r []*Tree
	for _, e := range es {
		r = append(r, opt(e))
	}
	return r
}

func projStmts(ss []ast.Stmt) []*Tree {
	var r []*Tree
	for _, s := range ss {
		r = append(r, opt(s))
	}
	return r
}

func projIdents(is []*ast.Ident) []*Tree {
	var r []*Tree
	for _, i := range is {
		r = append(r, opt(i))
	}
	return r
}

// KindOf is the kind string of a real node: its Go type name.
func KindOf(n ast.Node) string {
	t := reflect.TypeOf(n)
	for t.Kind() == reflect.Ptr {
		t = t.Elem()
	}
	return t.Name()
}

// Project maps an ast value to the tree shape of the package comment (positions, comments, scopes and
// objects are dropped; doc comments are not part of the abstract tree).
func Project(n ast.Node) *Tree {
	if isNilNode(n) {
		return Nil()
	}
	switch x := n.(type) {
	case *ast.Ident:
		return N("Ident", x.Name)
	case *ast.BasicLit:
		t := N("BasicLit", x.Value)
		switch x.Kind {
		case token.CSTRING:
			t.A = "c" + x.Value
		case token.PYSTRING:
			t.A = "py" + x.Value
		}
		if x.Extra != nil {
			for _, p := range x.Extra.Parts {
				if e, ok := p.(ast.Expr); ok {
					t.C = append(t.C, Project(e))
				}
			}
		}
		return t
	case *ast.NumberUnitLit:
		return N("NumberUnitLit", x.Value+x.Unit)
	case *ast.DomainTextLit:
		t := N("DomainTextLit", x.Value, opt(x.Domain))
		if ex, ok := x.Extra.(*ast.DomainTextLitEx); ok && ex != nil {
			t.C = append(t.C, projExprs(ex.Args)...)
		}
		return t
	case *ast.EnvExpr:
		a := ""
		if x.HasBrace() {
			a = "{"
		}
		return N("EnvExpr", a, opt(x.Name))
	case *ast.ParenExpr:
		return N("ParenExpr", "", opt(x.X))
	case *ast.BinaryExpr:
		return N("BinaryExpr", x.Op.String(), opt(x.X), opt(x.Y))
	case *ast.UnaryExpr:
		return N("UnaryExpr", x.Op.String(), opt(x.X))
	case *ast.StarExpr:
		return N("StarExpr", "", opt(x.X))
	case *ast.ErrWrapExpr:
		t := N("ErrWrapExpr", x.Tok.String(), opt(x.X))
		if x.Default != nil {
			t.C = append(t.C, Project(x.Default))
		}
		return t
	case *ast.SelectorExpr:
		return N("SelectorExpr", "", opt(x.X), opt(x.Sel))
	case *ast.IndexExpr:
		return N("IndexExpr", "", opt(x.X), opt(x.Index))
	case *ast.IndexListExpr:
		return N("IndexListExpr", "", append([]*Tree{opt(x.X)}, projExprs(x.Indices)...)...)
	case *ast.SliceExpr:
		a := ""
		if x.Slice3 {
			a = "3"
		}
		return N("SliceExpr", a, opt(x.X), opt(x.Low), opt(x.High), opt(x.Max))
	case *ast.TypeAssertExpr:
		return N("TypeAssertExpr", "", opt(x.X), opt(x.Type))
	case *ast.CallExpr:
		a := ""
		if x.IsCommand() {
			a = "cmd"
		}
		if x.Ellipsis.IsValid() {
			a += "..."
		}
		return N("CallExpr", a, append([]*Tree{opt(x.Fun)}, projExprs(x.Args)...)...)
	case *ast.KeyValueExpr:
		return N("KeyValueExpr", "", opt(x.Key), opt(x.Value))
	case *ast.CompositeLit:
		return N("CompositeLit", "", append([]*Tree{opt(x.Type)}, projExprs(x.Elts)...)...)
	case *ast.SliceLit:
		return N("SliceLit", "", projExprs(x.Elts)...)
	case *ast.MatrixLit:
		t := N("MatrixLit", "")
		for _, row := range x.Elts {
			t.C = append(t.C, list(",", projExprs(row)...))
		}
		return t
	case *ast.ElemEllipsis:
		return N("ElemEllipsis", "", opt(x.Elt))
	case *ast.LambdaExpr:
		a := ""
		if x.LhsHasParen {
			a += "l"
		}
		if x.RhsHasParen {
			a += "r"
		}
		return N("LambdaExpr", a, list(",", projIdents(x.Lhs)...), list(",", projExprs(x.Rhs)...))
	case *ast.LambdaExpr2:
		a := ""
		if x.LhsHasParen {
			a = "l"
		}
		return N("LambdaExpr2", a, list(",", projIdents(x.Lhs)...), opt(x.Body))
	case *ast.RangeExpr:
		return N("RangeExpr", "", opt(x.First), opt(x.Last), opt(x.Expr3))
	case *ast.ForPhrase:
		return N("ForPhrase", "", opt(x.Key), opt(x.Value), opt(x.X), opt(x.Init), opt(x.Cond))
	case *ast.ComprehensionExpr:
		a := "["
		if x.Tok == token.LBRACE {
			a = "{"
		}
		t := N("ComprehensionExpr", a, opt(x.Elt))
		for _, f := range x.Fors {
			t.C = append(t.C, opt(f))
		}
		return t
	case *ast.FuncLit:
		return N("FuncLit", "", opt(x.Type), opt(x.Body))
	case *ast.Ellipsis:
		return N("Ellipsis", "", opt(x.Elt))
	case *ast.ArrayType:
		return N("ArrayType", "", opt(x.Len), opt(x.Elt))
	case *ast.MapType:
		return N("MapType", "", opt(x.Key), opt(x.Value))
	case *ast.ChanType:
		a := "chan"
		switch x.Dir {
		case ast.RECV:
			a = "<-chan"
		case ast.SEND:
			a = "chan<-"
		}
		return N("ChanType", a, opt(x.Value))
	case *ast.FuncType:
		a := ""
		if !x.Func.IsValid() {
			a = "decl"
		}
		return N("FuncType", a, opt(x.TypeParams), opt(x.Params), opt(x.Results))
	case *ast.StructType:
		return N("StructType", "", opt(x.Fields))
	case *ast.InterfaceType:
		return N("InterfaceType", "", opt(x.Methods))
	case *ast.FieldList:
		t := N("FieldList", "")
		for _, f := range x.List {
			t.C = append(t.C, opt(f))
		}
		return t
	case *ast.Field:
		return N("Field", "", list(",", projIdents(x.Names)...), opt(x.Type), opt(x.Tag))

	case *ast.ExprStmt:
		return N("ExprStmt", "", opt(x.X))
	case *ast.AssignStmt:
		return N("AssignStmt", x.Tok.String(), list(",1", projExprs(x.Lhs)...), list(",", projExprs(x.Rhs)...))
	case *ast.IncDecStmt:
		return N("IncDecStmt", x.Tok.String(), opt(x.X))
	case *ast.SendStmt:
		a := ""
		if x.Ellipsis.IsValid() {
			a = "..."
		}
		return N("SendStmt", a, append([]*Tree{opt(x.Chan)}, projExprs(x.Values)...)...)
	case *ast.GoStmt:
		return N("GoStmt", "", opt(x.Call))
	case *ast.DeferStmt:
		return N("DeferStmt", "", opt(x.Call))
	case *ast.ReturnStmt:
		return N("ReturnStmt", "", projExprs(x.Results)...)
	case *ast.BranchStmt:
		t := N("BranchStmt", x.Tok.String())
		if x.Label != nil {
			t.C = append(t.C, Project(x.Label))
		}
		return t
	case *ast.BlockStmt:
		return N("BlockStmt", "", projStmts(x.List)...)
	case *ast.IfStmt:
		return N("IfStmt", "", opt(x.Init), opt(x.Cond), opt(x.Body), opt(x.Else))
	case *ast.CaseClause:
		a := "case"
		if x.List == nil {
			a = "default"
		}
		return N("CaseClause", a, list(",", projExprs(x.List)...), list(";", projStmts(x.Body)...))
	case *ast.SwitchStmt:
		return N("SwitchStmt", "", opt(x.Init), opt(x.Tag), opt(x.Body))
	case *ast.TypeSwitchStmt:
		return N("TypeSwitchStmt", "", opt(x.Init), opt(x.Assign), opt(x.Body))
	case *ast.CommClause:
		a := "case"
		if x.Comm == nil {
			a = "default"
		}
		return N("CommClause", a, opt(x.Comm), list(";", projStmts(x.Body)...))
	case *ast.SelectStmt:
		return N("SelectStmt", "", opt(x.Body))
	case *ast.ForStmt:
		return N("ForStmt", "", opt(x.Init), opt(x.Cond), opt(x.Post), opt(x.Body))
	case *ast.RangeStmt:
		a := ""
		switch {
		case x.NoRangeOp:
			a = "norange"
		case x.Tok == token.DEFINE:
			a = ":="
		case x.Tok == token.ASSIGN:
			a = "="
		}
		return N("RangeStmt", a, opt(x.Key), opt(x.Value), opt(x.X), opt(x.Body))
	case *ast.ForPhraseStmt:
		return N("ForPhraseStmt", "", opt(x.ForPhrase), opt(x.Body))
	case *ast.LabeledStmt:
		return N("LabeledStmt", "", opt(x.Label), opt(x.Stmt))
	case *ast.DeclStmt:
		return N("DeclStmt", "", opt(x.Decl))
	case *ast.EmptyStmt:
		return N("EmptyStmt", "")

	case *ast.GenDecl:
		a := x.Tok.String()
		if x.Lparen.IsValid() {
			a += "("
		}
		t := N("GenDecl", a) // ("var(;" of class files is a rendering detail: Equal callers normalise with NormFlags)
		for _, s := range x.Specs {
			t.C = append(t.C, opt(s))
		}
		return t
	case *ast.ImportSpec:
		return N("ImportSpec", "", opt(x.Name), opt(x.Path))
	case *ast.ValueSpec:
		return N("ValueSpec", "", list(",", projIdents(x.Names)...), opt(x.Type), opt(x.Tag), list(",", projExprs(x.Values)...))
	case *ast.TypeSpec:
		a := ""
		if x.Assign.IsValid() {
			a = "="
		}
		return N("TypeSpec", a, opt(x.Name), opt(x.TypeParams), opt(x.Type))
	case *ast.FuncDecl:
		a := ""
		if x.Operator {
			a = "op"
		}
		if x.Shadow {
			body := opt(x.Body)
			if body.K == "BlockStmt" {
				body.A = "bare"
			}
			return N("FuncDecl", "shadow", Nil(), Nil(), Nil(), body)
		}
		return N("FuncDecl", a, opt(x.Recv), opt(x.Name), opt(x.Type), opt(x.Body))
	case *ast.OverloadFuncDecl:
		a := ""
		if x.Operator {
			a = "op"
		}
		return N("OverloadFuncDecl", a, append([]*Tree{opt(x.Recv), opt(x.Name)}, projExprs(x.Funcs)...)...)
	case *ast.File:
		t := N("File", "")
		if x.IsClass {
			t.A = "class"
		}
		if x.NoPkgDecl {
			if t.A == "" {
				t.A = "nopkg"
			}
			t.C = append(t.C, Nil())
		} else {
			t.C = append(t.C, opt(x.Name))
		}
		for _, d := range x.Decls {
			t.C = append(t.C, opt(d))
		}
		return t
	case *ast.BadExpr, *ast.BadStmt, *ast.BadDecl:
		return N(KindOf(n), "")
	case *ast.Comment:
		return N("Comment", x.Text)
	case *ast.CommentGroup:
		t := N("CommentGroup", "")
		for _, c := range x.List {
			t.C = append(t.C, Project(c))
		}
		return t
	}
	return N(KindOf(n), fmt.Sprintf("?%T", n))
}

// Sexpr renders a node as an s-expression, optionally modulo ParenExpr.
func Sexpr(n ast.Node, stripParen bool) string {
	t := Project(n)
	if stripParen {
		t = Strip(t)
	}
	return t.String()
}

// IsCmdKind reports whether k is a command-style call attribute.
func IsCmdKind(a string) bool { return strings.HasPrefix(a, "cmd") }
