module verifharness

go 1.18

require github.com/goplus/xgo v0.0.0

replace github.com/goplus/xgo => /repo
