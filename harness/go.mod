module verifharness

go 1.18

require (
	github.com/goplus/gogen v1.18.1
	github.com/goplus/mod v0.17.0
	github.com/goplus/xgo v0.0.0
	github.com/qiniu/x v1.15.0
)

require (
	github.com/fsnotify/fsnotify v1.9.0 // indirect
	golang.org/x/mod v0.20.0 // indirect
	golang.org/x/sys v0.21.0 // indirect
)

replace github.com/goplus/xgo => /repo
