// Package hlib is the plumbing shared by the conformance harnesses: ndjson case input,
// ndjson result output.  A result is {"idx":n,"v":"ok|viol|drift|skip","sig":..,"detail":..,
// "input":..,"nt":..}.
package hlib

import (
	"bufio"
	"encoding/json"
	"fmt"
	"os"
	"strconv"
	"strings"
	"sync"
)

// Result is one line of harness output.
type Result struct {
	Idx    int    `json:"idx"`
	V      string `json:"v"`
	Sig    string `json:"sig,omitempty"`
	Detail string `json:"detail,omitempty"`
	Input  any    `json:"input,omitempty"`
	NT     any    `json:"nt,omitempty"`
}

var (
	outMu sync.Mutex
	out   = bufio.NewWriterSize(os.Stdout, 1<<20)
)

// Emit writes one result line.
func Emit(r Result) {
	b, err := json.Marshal(r)
	if err != nil {
		b, _ = json.Marshal(Result{Idx: r.Idx, V: r.V, Sig: r.Sig, Detail: fmt.Sprintf("%q", r.Detail)})
	}
	outMu.Lock()
	out.Write(b)
	out.WriteByte('\n')
	outMu.Unlock()
}

// EmitRaw writes an arbitrary JSON object line (e.g. {"v":"summary",...}).
func EmitRaw(m map[string]any) {
	b, _ := json.Marshal(m)
	outMu.Lock()
	out.Write(b)
	out.WriteByte('\n')
	outMu.Unlock()
}

// Flush must be called before exit.
func Flush() {
	outMu.Lock()
	out.Flush()
	outMu.Unlock()
}

// ForEachCase decodes stdin line by line into a fresh T and calls f(idx, &t).
func ForEachCase[T any](f func(idx int, c *T)) {
	sc := bufio.NewScanner(os.Stdin)
	sc.Buffer(make([]byte, 1<<20), 1<<28)
	idx := 0
	for sc.Scan() {
		line := sc.Bytes()
		if len(line) == 0 {
			continue
		}
		var c T
		if err := json.Unmarshal(line, &c); err != nil {
			fmt.Fprintf(os.Stderr, "bad case line %d: %v: %.200s\n", idx, err, line)
			os.Exit(3)
		}
		f(idx, &c)
		idx++
	}
	if err := sc.Err(); err != nil {
		fmt.Fprintln(os.Stderr, "reading cases:", err)
		os.Exit(3)
	}
}

// ReadAllCases reads every case into memory.
func ReadAllCases[T any]() []T {
	var all []T
	ForEachCase(func(_ int, c *T) { all = append(all, *c) })
	return all
}

// Parallel runs f(i) for i in [0,n) on w workers.
func Parallel(n, w int, f func(i int)) {
	if w < 1 {
		w = 1
	}
	var wg sync.WaitGroup
	ch := make(chan int, 256)
	for k := 0; k < w; k++ {
		wg.Add(1)
		go func() {
			defer wg.Done()
			for i := range ch {
				f(i)
			}
		}()
	}
	for i := 0; i < n; i++ {
		ch <- i
	}
	close(ch)
	wg.Wait()
}

// Join concatenates a sequence of one-character strings (how the specs represent text).
func Join(cs []string) string { return strings.Join(cs, "") }

// Seed returns VERIF_SEED (default 1).
func Seed() int64 {
	n, err := strconv.ParseInt(os.Getenv("VERIF_SEED"), 10, 64)
	if err != nil {
		return 1
	}
	return n
}

// Tier returns VERIF_TIER (default quick).
func Tier() string {
	if t := os.Getenv("VERIF_TIER"); t != "" {
		return t
	}
	return "quick"
}
