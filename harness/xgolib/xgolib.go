// Package xgolib is the program-level pipeline shared by the semantic harnesses:
// XGo source files -> parser.ParseFSDir -> cl.NewPackage -> Go source -> go build -> run.
package xgolib

import (
	"bytes"
	"context"
	"errors"
	"fmt"
	"io/fs"
	"os"
	"os/exec"
	"path/filepath"
	"sort"
	"strings"
	"sync"
	"syscall"
	"time"

	"github.com/goplus/gogen/packages"
	"github.com/goplus/xgo/ast"
	"github.com/goplus/xgo/cl"
	"github.com/goplus/xgo/parser"
	"github.com/goplus/xgo/token"
	"github.com/goplus/xgo/x/build"
)

// ----------------------------------------------------------------------------- in-memory FS

// MemFS implements parser/fsx.FileSystem over a map of file name -> content (one flat directory).
type MemFS struct {
	Dir   string
	Files map[string]string
	Order []string // listing order; default sorted
}

type memInfo struct {
	name string
	size int64
}

func (i memInfo) Name() string               { return i.name }
func (i memInfo) Size() int64                { return i.size }
func (i memInfo) Mode() fs.FileMode          { return 0644 }
func (i memInfo) ModTime() time.Time         { return time.Time{} }
func (i memInfo) IsDir() bool                { return false }
func (i memInfo) Sys() any                   { return nil }
func (i memInfo) Type() fs.FileMode          { return 0 }
func (i memInfo) Info() (fs.FileInfo, error) { return i, nil }

func (m *MemFS) ReadDir(dirname string) ([]fs.DirEntry, error) {
	names := m.Order
	if names == nil {
		for n := range m.Files {
			names = append(names, n)
		}
		sort.Strings(names)
	}
	var r []fs.DirEntry
	for _, n := range names {
		r = append(r, memInfo{n, int64(len(m.Files[n]))})
	}
	return r, nil
}

func (m *MemFS) ReadFile(filename string) ([]byte, error) {
	if s, ok := m.Files[filepath.Base(filename)]; ok {
		return []byte(s), nil
	}
	return nil, os.ErrNotExist
}

func (m *MemFS) Join(elem ...string) string { return filepath.Join(elem...) }
func (m *MemFS) Base(filename string) string { return filepath.Base(filename) }
func (m *MemFS) Abs(path string) (string, error) { return path, nil }

// ----------------------------------------------------------------------------- compile

// Outcome of one in-process compilation.
type Outcome struct {
	Go      string // generated Go source ("" unless Err == nil && Panic == nil)
	Err     error
	Panic   any    // non-nil iff the compiler panicked (recovered here)
	Stage   string // "parse" | "compile" | "write" | "ok"
	Pkg     *ast.Package
	Fset    *token.FileSet
	Elapsed time.Duration
}

// Options for Compile.
type Options struct {
	NoFileLine bool              // true: no //line directives
	Order      []string          // file presentation order
	Config     func(*cl.Config)  // last-minute tweaks
	ParseMode  parser.Mode
}

var (
	impMu   sync.Mutex
	impFset = token.NewFileSet()
	imp     = packages.NewImporter(impFset)
)

// Compile compiles one package given as file name -> source. It never panics.
func Compile(files map[string]string, opt Options) (out Outcome) {
	impMu.Lock()
	defer impMu.Unlock()
	t0 := time.Now()
	fset := token.NewFileSet()
	out.Fset = fset
	out.Stage = "parse"
	defer func() {
		out.Elapsed = time.Since(t0)
		if r := recover(); r != nil {
			out.Panic = r
		}
	}()
	mfs := &MemFS{Dir: "/mem", Files: files, Order: opt.Order}
	pkgs, err := parser.ParseFSDir(fset, mfs, "/mem", parser.Config{ClassKind: build.ClassKind, Mode: opt.ParseMode})
	if err != nil {
		out.Err = err
		return
	}
	var mainPkg *ast.Package
	if p, ok := pkgs["main"]; ok {
		mainPkg = p
	} else {
		var names []string
		for n := range pkgs {
			names = append(names, n)
		}
		sort.Strings(names)
		if len(names) == 0 {
			out.Err = errors.New("no package")
			return
		}
		mainPkg = pkgs[names[0]]
	}
	out.Pkg = mainPkg
	out.Stage = "compile"
	conf := &cl.Config{Fset: fset, Importer: imp, NoFileLine: opt.NoFileLine, RelativeBase: "/mem"}
	conf.LookupClass = func(ext string) (*cl.Project, bool) { return nil, false }
	if opt.Config != nil {
		opt.Config(conf)
	}
	pkg, err := cl.NewPackage("", mainPkg, conf)
	if err != nil {
		out.Err = err
		return
	}
	out.Stage = "write"
	var buf bytes.Buffer
	if err = pkg.WriteTo(&buf); err != nil {
		out.Err = err
		return
	}
	out.Go = buf.String()
	out.Stage = "ok"
	return
}

// ----------------------------------------------------------------------------- build & run

// Runner owns a scratch Go module in which generated programs are built and run.
type Runner struct {
	Dir  string
	Repo string
	mu   sync.Mutex
}

// RepoDir is the tree under test.
func RepoDir() string {
	if r := os.Getenv("VERIF_REPO"); r != "" {
		return r
	}
	return "/repo"
}

// NewRunner creates the module under dir (removed by the caller's scratch cleanup).
func NewRunner(dir string) (*Runner, error) {
	repo := RepoDir()
	if err := os.MkdirAll(dir, 0755); err != nil {
		return nil, err
	}
	gomod := "module vcase\n\ngo 1.18\n\nrequire github.com/goplus/xgo v0.0.0\n\nreplace github.com/goplus/xgo => " + repo + "\n"
	if err := os.WriteFile(filepath.Join(dir, "go.mod"), []byte(gomod), 0644); err != nil {
		return nil, err
	}
	sum, err := os.ReadFile(filepath.Join(repo, "go.sum"))
	if err != nil {
		return nil, err
	}
	if err := os.WriteFile(filepath.Join(dir, "go.sum"), sum, 0644); err != nil {
		return nil, err
	}
	return &Runner{Dir: dir, Repo: repo}, nil
}

// RunResult is what one program did.
type RunResult struct {
	BuildErr string // non-empty: go build failed (compiler output)
	Stdout   string
	Stderr   string
	Exit     int
	TimedOut bool
}

func goEnv() []string {
	return append(os.Environ(), "GOFLAGS=-mod=mod", "GOPROXY=off", "GOSUMDB=off", "GOTOOLCHAIN=local")
}

// Build compiles package dir cmd/<name> consisting of the given files; returns binary path.
func (r *Runner) Build(name string, files map[string]string) (bin string, buildErr string) {
	d := filepath.Join(r.Dir, "cmd", name)
	os.RemoveAll(d)
	os.MkdirAll(d, 0755)
	for fn, src := range files {
		os.WriteFile(filepath.Join(d, fn), []byte(src), 0644)
	}
	bin = filepath.Join(r.Dir, "bin", name)
	os.MkdirAll(filepath.Dir(bin), 0755)
	cmd := exec.Command("go", "build", "-o", bin, "./cmd/"+name)
	cmd.Dir = r.Dir
	cmd.Env = goEnv()
	outb, err := cmd.CombinedOutput()
	if err != nil {
		return "", string(outb) + err.Error()
	}
	return bin, ""
}

// Vet type-checks only (go vet is not used; `go build -o /dev/null` is the reference).
func (r *Runner) Run(name string, files map[string]string, timeout time.Duration, args ...string) RunResult {
	bin, berr := r.Build(name, files)
	if berr != "" {
		return RunResult{BuildErr: berr}
	}
	defer os.Remove(bin)
	return Exec(bin, timeout, args...)
}

// Exec runs a built binary.
func Exec(bin string, timeout time.Duration, args ...string) RunResult {
	ctx, cancel := context.WithTimeout(context.Background(), timeout)
	defer cancel()
	cmd := exec.CommandContext(ctx, bin, args...)
	var so, se bytes.Buffer
	cmd.Stdout, cmd.Stderr = &so, &se
	cmd.Env = append(os.Environ(), "GOTRACEBACK=single")
	err := cmd.Run()
	res := RunResult{Stdout: so.String(), Stderr: se.String()}
	if ctx.Err() == context.DeadlineExceeded {
		res.TimedOut = true
		res.Exit = -1
		return res
	}
	if err != nil {
		var ee *exec.ExitError
		if errors.As(err, &ee) {
			if ws, ok := ee.Sys().(syscall.WaitStatus); ok && ws.Signaled() {
				res.Exit = 128 + int(ws.Signal())
			} else {
				res.Exit = ee.ExitCode()
			}
		} else {
			res.Exit = -2
			res.Stderr += err.Error()
		}
	}
	return res
}

// PanicLine extracts the first line of an unrecovered-panic report ("panic: ...") from stderr.
func PanicLine(stderr string) string {
	for _, l := range strings.Split(stderr, "\n") {
		if strings.HasPrefix(l, "panic: ") {
			// strip goroutine-specific suffixes like " [recovered]"
			return strings.TrimSpace(l)
		}
	}
	return ""
}

// ErrString renders an error list deterministically.
func ErrString(err error) string {
	if err == nil {
		return ""
	}
	return fmt.Sprint(err)
}
