#!/usr/bin/env python3
"""MANIFEST.setup_cmd: build what can be built ahead of the checks, offline.

Every check rebuilds its harness from /repo's working tree itself; this only warms the Go build
cache (so the first check is not charged for compiling goplus/gop) and verifies the tools exist.
"""
import os
import shutil
import subprocess
import sys

VERIF = os.path.dirname(os.path.dirname(os.path.abspath(__file__)))
env = dict(os.environ, GOFLAGS="-mod=mod", GOPROXY="off", GOSUMDB="off", GOTOOLCHAIN="local")


def main():
    for tool in ("java", "go", "python3"):
        if not shutil.which(tool):
            print("missing tool:", tool)
            return 1
    if not os.path.exists("/opt/veriftools/tla/tla2tools.jar"):
        print("tla2tools.jar missing")
        return 1
    hdir = os.path.join(VERIF, "harness")
    shutil.copy("/repo/go.sum", os.path.join(hdir, "go.sum"))
    p = subprocess.run(["go", "build", "-tags", "verif", "./..."], cwd=hdir, env=env)
    if p.returncode != 0:
        print("warning: harness does not build against the current /repo tree")
    os.makedirs(os.path.join(VERIF, "evidence"), exist_ok=True)
    return 0


if __name__ == "__main__":
    sys.exit(main())
