#!/usr/bin/env python3
"""Run goplus/gop's pinned test suite with the `verif` build tag OFF and compare with BASELINE.json.

usage: baseline.py [pkg-pattern ...]   (default ./...)   exit 0 iff every stable_pass test of the
selected packages passed.
"""
import json
import os
import subprocess
import sys

REPO = os.environ.get("VERIF_REPO", "/repo")
BASE = "/root/.vp/BASELINE.json"


def main():
    pats = sys.argv[1:] or ["./..."]
    env = dict(os.environ, GOPROXY="off", GOSUMDB="off", GOTOOLCHAIN="local")
    env.pop("GOFLAGS", None)  # the pinned suite runs with the default module mode (TestErrImportPkg expects its error text)
    p = subprocess.Popen(["go", "test", "-json", "-vet=off", "-count=1", "-timeout", os.environ.get("VERIF_TEST_TIMEOUT", "25m")] + pats,
                         cwd=REPO, env=env, stdout=subprocess.PIPE, stderr=subprocess.DEVNULL, text=True)
    passed, failed, pkgs = set(), set(), set()
    for line in p.stdout:
        if not line.startswith("{"):
            continue
        try:
            e = json.loads(line)
        except ValueError:
            continue
        if e.get("Package"):
            pkgs.add(e["Package"])
        if e.get("Test") and e.get("Action") in ("pass", "fail"):
            # some sub-test names embed the absolute path of the tree (printer TestFromParse/...): the pinned
            # names were recorded in /repo, a scratch worktree has another prefix
            name = e["Test"].replace(os.path.realpath(REPO), "/repo")
            (passed if e["Action"] == "pass" else failed).add(e["Package"] + "::" + name)
    p.wait()
    stable = json.load(open(BASE))["stable_pass"] if os.path.exists(BASE) else []
    want = [t for t in stable if t.split("::")[0] in pkgs]
    missing = [t for t in want if t not in passed]
    print("baseline: packages=%d stable tests selected=%d passed=%d not-passed=%d (other failures: %d)" % (
        len(pkgs), len(want), len(want) - len(missing), len(missing), len(failed - set(want))))
    for t in missing[:40]:
        print("  NOT PASSED:", t)
    return 1 if missing else 0


if __name__ == "__main__":
    sys.exit(main())
