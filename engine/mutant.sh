#!/bin/bash
# usage: mutant.sh <name> <prop-id> <tier> <python-edit-script-file>
# Creates a scratch worktree of /repo, applies the edit (python script gets the worktree path as argv[1]),
# runs the check against it via VERIF_REPO, prints the verdict, removes the worktree.
set -u
name=$1; pid=$2; tier=$3; edit=$4
wt=$HOME/wt/$name
git -C /repo worktree remove --force $wt >/dev/null 2>&1
git -C /repo worktree add -q --detach $wt HEAD || exit 3
python3 $edit $wt || { echo "EDIT FAILED"; git -C /repo worktree remove --force $wt; exit 3; }
(cd $wt && git diff --stat | tail -1)
export GOFLAGS=-mod=mod GOPROXY=off GOSUMDB=off GOTOOLCHAIN=local
(cd $wt && go build ./... >/dev/null 2>&1) || echo "WARNING: mutant does not build"
cd /verif && VERIF_REPO=$wt python3 engine/vcheck.py $pid --tier $tier > $HOME/.verif-scratch/mutant-$name.log 2>&1
rc=$?
echo "MUTANT $name $pid rc=$rc"; grep -E "VIOLATION|KNOWN-FINDING|signature|INCONCLUSIVE|DRIFT" $HOME/.verif-scratch/mutant-$name.log | head -8
git -C /repo worktree remove --force $wt
git -C /repo worktree prune
