"""Check context: harness build/run, verdict bookkeeping, evidence, known findings, replay files."""
import hashlib
import json
import os
import shutil
import subprocess
import sys
import time

from . import tlc as tlcmod

VERIF = tlcmod.VERIF
REPO = os.environ.get("VERIF_REPO", "/repo")

GOENV = {
    "GOFLAGS": "-mod=mod",
    "GOPROXY": "off",
    "GOSUMDB": "off",
    "GOTOOLCHAIN": "local",
}


class Inconclusive(Exception):
    """exit 2: the machinery could not decide (dead driver, spec drift on a lead, tool failure)."""


def goenv():
    e = dict(os.environ)
    e.update(GOENV)
    return e


class Ctx:
    def __init__(self, pid, tier, seed, level, replay=None):
        self.pid = pid
        self.tier = tier
        self.seed = seed
        self.level = level
        self.replay = replay
        self.t0 = time.time()
        self.scratch = tlcmod.mkscratch(pid)
        self.states = 0
        self.transitions = 0
        self.tlc_runs = []
        self.evaluations = 0
        self.validated = 0         # cases / traces executed against the real code
        self.samples = []
        self.viol = {}             # signature -> first record
        self.viol_count = 0
        self.drift = {}            # signature -> count
        self.skipped = 0
        self.nontrivial = set()
        self.extra = {}
        self.assumptions = []
        self.notes = []
        self.exhaustive = None
        self.rule = ""
        self.programs = 0
        self.disagreements_checked = 0

    # ------------------------------------------------------------------ logging
    def log(self, *a):
        print("[%s %6.1fs]" % (self.pid, time.time() - self.t0), *a, flush=True)

    # ------------------------------------------------------------------ TLC
    def tlc(self, family, module, cfg, **kw):
        """Model-check; model-level errors (other than reported invariant violations) are exit 2."""
        kw.setdefault("workers", int(os.environ.get("VERIF_TLC_WORKERS") or min(12, os.cpu_count() or 4)))
        expect_viol = kw.pop("allow_violation", False)
        r = tlcmod.run_tlc(family, module, cfg, **kw)
        self.tlc_runs.append({"module": module, "cfg": cfg, "generated": r.generated,
                              "distinct": r.distinct, "cases": r.cases, "wall_s": round(r.wall, 1),
                              "violated": r.violated})
        self.states += r.distinct if r.distinct else r.generated
        self.transitions += r.generated
        self.log("TLC %s/%s: generated=%d distinct=%d cases=%d %.1fs%s" % (
            module, cfg, r.generated, r.distinct, r.cases, r.wall,
            " VIOLATED " + r.violated if r.violated else ""))
        if r.timeout:
            raise Inconclusive("TLC timed out on %s/%s" % (module, cfg))
        if not r.ok and not (expect_viol and r.violated):
            raise Inconclusive("TLC failed on %s/%s:\n%s" % (module, cfg, r.log_tail))
        return r

    # ------------------------------------------------------------------ Go harness
    def build_harness(self, name, tags="verif"):
        """go build /verif/harness/cmd/<name> against the tree under test (default /repo's working
        tree; VERIF_REPO=<dir> points the module replacement at a scratch worktree instead, which is
        how seeded changes are tried without touching /repo).  Returns the binary path."""
        hdir = os.path.join(VERIF, "harness")
        out = os.path.join(self.scratch, name)
        cmd = ["go", "build", "-tags", tags, "-o", out]
        if os.path.realpath(REPO) == "/repo":
            shutil.copy(os.path.join(REPO, "go.sum"), os.path.join(hdir, "go.sum"))
        else:
            mf = os.path.join(self.scratch, "alt.mod")
            txt = open(os.path.join(hdir, "go.mod")).read().replace("=> /repo", "=> " + os.path.realpath(REPO))
            open(mf, "w").write(txt)
            shutil.copy(os.path.join(REPO, "go.sum"), os.path.join(self.scratch, "alt.sum"))
            cmd += ["-modfile", mf]
        cmd.append("./cmd/" + name)
        t = time.time()
        p = subprocess.run(cmd, cwd=hdir, env=goenv(), capture_output=True, text=True)
        if p.returncode != 0:
            raise Inconclusive("harness build failed (%s):\n%s" % (" ".join(cmd), p.stdout + p.stderr))
        self.log("built harness %s in %.1fs (tree under test: %s)" % (name, time.time() - t, REPO))
        return out

    def run_harness(self, binary, args, cases_path, timeout_s=1200, env=None):
        """Feed an ndjson file of cases; returns list of result dicts (ndjson on stdout)."""
        e = goenv()
        e["VERIF_SEED"] = str(self.seed)
        e["VERIF_TIER"] = self.tier
        e["VERIF_SCRATCH_DIR"] = self.scratch
        if env:
            e.update(env)
        res_path = os.path.join(self.scratch, "results-%d.ndjson" % len(os.listdir(self.scratch)))
        with open(cases_path or os.devnull, "rb") as fin, open(res_path, "wb") as fout:
            try:
                p = subprocess.run([binary] + list(args), stdin=fin, stdout=fout,
                                   stderr=subprocess.PIPE, env=e, timeout=timeout_s, cwd=self.scratch)
            except subprocess.TimeoutExpired:
                raise Inconclusive("harness %s timed out after %ds" % (os.path.basename(binary), timeout_s))
        if p.returncode != 0:
            raise Inconclusive("harness %s %s exited %d:\n%s" % (
                os.path.basename(binary), " ".join(args), p.returncode,
                p.stderr.decode(errors="replace")[-4000:]))
        out = []
        with open(res_path, "r", errors="replace") as f:
            for line in f:
                line = line.strip()
                if line.startswith("{"):
                    out.append(json.loads(line))
        return out

    # ------------------------------------------------------------------ tallies
    def tally(self, results, cases_path=None, mode=None):
        """results: dicts with v in ok|viol|drift|skip, optional sig, detail, input, nt (non-trivial key),
        idx (0-based line number of the case in cases_path, kept in the replay file)."""
        want = {}
        for r in results:
            if r.get("v") == "viol" and r.get("idx") is not None:
                want[int(r["idx"])] = None
        if want and cases_path:
            with open(cases_path) as f:
                for i, line in enumerate(f):
                    if i in want:
                        want[i] = line.strip()
        for r in results:
            if r.get("v") == "viol" and r.get("idx") is not None and want.get(int(r["idx"])):
                r["case"] = {"mode": mode, "line": want[int(r["idx"])]}
            v = r.get("v")
            if v == "summary":
                for k, val in r.items():
                    if k != "v":
                        self.extra[k] = self.extra.get(k, 0) + val if isinstance(val, (int, float)) else val
                continue
            self.evaluations += 1
            if v == "skip":
                self.skipped += 1
                continue
            self.validated += 1
            nt = r.get("nt")
            if nt is not None:
                self.nontrivial.add(json.dumps(nt, sort_keys=True) if not isinstance(nt, str) else nt)
            if v == "viol":
                self.viol_count += 1
                sig = r.get("sig") or "unspecified"
                if sig not in self.viol:
                    self.viol[sig] = r
            elif v == "drift":
                sig = r.get("sig") or "drift"
                self.drift[sig] = self.drift.get(sig, 0) + 1
                if len(self.drift) <= 5 and self.drift[sig] == 1:
                    self.notes.append("DRIFT %s: %s" % (sig, str(r.get("detail"))[:300]))
            if len(self.samples) < 6 and (v == "ok") and r.get("input") is not None and \
                    (self.validated % 97 in (1, 2) or self.validated < 3):
                self.samples.append({"input": r.get("input"), "observed": r.get("detail", "")})

    def add_violation(self, sig, detail, inp=None):
        self.viol_count += 1
        if sig not in self.viol:
            self.viol[sig] = {"v": "viol", "sig": sig, "detail": detail, "input": inp}

    # ------------------------------------------------------------------ finish
    def finish(self):
        known = load_known(self.pid)
        unlisted = []
        nknown = 0
        for sig, rec in sorted(self.viol.items()):
            k = match_known(known, sig)
            if k is not None:
                nknown += 1
                print("KNOWN-FINDING: property=%s %s [%s]" % (self.pid, k.get("what", ""), sig), flush=True)
            else:
                unlisted.append((sig, rec))
        rc = 0
        for sig, rec in unlisted[:25]:
            path = write_replay(self.pid, sig, rec, self.tier, self.seed)
            print("VIOLATION property=%s replay=%s" % (self.pid, path), flush=True)
            print("  signature: %s\n  detail: %s" % (sig, str(rec.get("detail"))[:1500]), flush=True)
            rc = 1
        if self.drift:
            self.log("DRIFT (model != code, oracle satisfied): %s" % json.dumps(self.drift)[:800])
        cov = {}
        if self.level == "model_checking":
            cov["states"] = self.states
            cov["transitions"] = self.transitions
            cov["traces_validated_against_impl"] = self.validated
        if self.level == "translation_validation":
            cov["programs"] = self.programs or self.validated
            cov["disagreements_checked"] = self.disagreements_checked or self.validated
            cov["states"] = self.states
            cov["transitions"] = self.transitions
        cov["evaluations"] = self.evaluations
        cov["distinct_nontrivial"] = len(self.nontrivial) if self.nontrivial else 0
        cov["rule"] = self.rule
        if not self.samples:
            self.samples = [{"note": "no passing sample recorded"}]
        cov["samples"] = self.samples[:8]
        if self.exhaustive is not None:
            cov["exhaustive"] = bool(self.exhaustive)
        cov["skipped_outside_domain"] = self.skipped
        cov["tlc_runs"] = self.tlc_runs
        cov["drift"] = self.drift
        cov["known_findings_observed"] = nknown
        cov["violation_signatures"] = sorted(self.viol.keys())[:50]
        cov["notes"] = self.notes[:20]
        cov.update(self.extra)
        ev = {
            "property_id": self.pid,
            "tier": self.tier,
            "seed": int(self.seed),
            "level": self.level,
            "coverage": cov,
            "assumptions": self.assumptions,
            "wall_s": round(time.time() - self.t0, 2),
            "violations": len(unlisted),
        }
        if not self.replay and os.path.realpath(REPO) != "/repo":
            # a run against a scratch tree (VERIF_REPO=<mutant worktree>) must not overwrite the evidence of /repo
            self.log("evidence not written (tree under test is %s, not /repo)" % REPO)
        elif not self.replay:
            os.makedirs(os.path.join(VERIF, "evidence"), exist_ok=True)
            tmp = os.path.join(VERIF, "evidence", self.pid + ".json.tmp")
            with open(tmp, "w") as f:
                json.dump(ev, f, indent=1, sort_keys=True, default=str)
                f.write("\n")
            os.replace(tmp, os.path.join(VERIF, "evidence", self.pid + ".json"))
        self.log("done: evaluations=%d validated=%d violations(unlisted)=%d known=%d drift=%d wall=%.1fs" % (
            self.evaluations, self.validated, len(unlisted), nknown, sum(self.drift.values()),
            time.time() - self.t0))
        return rc

    def cleanup(self):
        shutil.rmtree(self.scratch, ignore_errors=True)


# ---------------------------------------------------------------------- known findings
def load_known(pid):
    """Entries of the committed known_findings.json for this property.  VERIF_KNOWN_EXTRA=<file> adds
    proposed entries while a check is being developed (never set by a registered command)."""
    out = []
    paths = [os.path.join(VERIF, "known_findings.json")]
    if os.environ.get("VERIF_KNOWN_EXTRA"):
        paths.append(os.environ["VERIF_KNOWN_EXTRA"])
    for p in paths:
        if not os.path.exists(p):
            continue
        data = json.load(open(p))
        if isinstance(data, dict):
            data = data.get("findings", [])
        out += [e for e in data if e.get("property") == pid and not e.get("fixed")]
    return out


def match_known(known, sig):
    for e in known:
        s = e.get("signature")
        if s == sig:
            return e
    return None


def write_replay(pid, sig, rec, tier, seed):
    d = os.path.join(VERIF, "replays", pid)
    os.makedirs(d, exist_ok=True)
    body = {"property": pid, "signature": sig, "case": rec.get("input"), "detail": rec.get("detail"),
            "tier": tier, "seed": seed, "case_record": rec.get("case")}
    h = hashlib.sha1(json.dumps([pid, sig], sort_keys=True).encode()).hexdigest()[:12]
    path = os.path.join(d, h + ".json")
    with open(path, "w") as f:
        json.dump(body, f, indent=1, default=str)
    return path
