"""Run TLC / SANY in a throw-away scratch directory and parse what it says.

Every run gets its own directory under $VERIF_SCRATCH (default ~/.verif-scratch), holding a
copy of the spec family directory plus specs/common, its own -metadir, and is deleted afterwards.
"""
import json
import os
import re
import shutil
import subprocess
import tempfile
import time

VERIF = os.path.dirname(os.path.dirname(os.path.dirname(os.path.abspath(__file__))))
JAR = "/opt/veriftools/tla/tla2tools.jar:/opt/veriftools/tla/CommunityModules-deps.jar"


def scratch_root():
    d = os.environ.get("VERIF_SCRATCH") or os.path.join(os.path.expanduser("~"), ".verif-scratch")
    os.makedirs(d, exist_ok=True)
    return d


def mkscratch(prefix):
    return tempfile.mkdtemp(prefix=prefix + "-", dir=scratch_root())


_ESC = {"n": "\n", "t": "\t", "r": "\r", "f": "\f", '"': '"', "\\": "\\"}


def tla_unquote(s):
    """Undo TLC's printing of a string value (s is the text between the outer quotes)."""
    if "\\" not in s:
        return s
    out = []
    i = 0
    n = len(s)
    while i < n:
        c = s[i]
        if c == "\\" and i + 1 < n:
            out.append(_ESC.get(s[i + 1], s[i + 1]))
            i += 2
        else:
            out.append(c)
            i += 1
    return "".join(out)


class TLCResult:
    def __init__(self):
        self.ok = False            # TLC finished and found no error
        self.violated = None       # name of violated invariant / property, or "deadlock", "error"
        self.generated = 0
        self.distinct = 0
        self.cases = 0             # number of CASE records written to cases_path
        self.cases_path = None
        self.trace = []            # counterexample: list of (action label, {var: text})
        self.coverage_zero = []    # action names never taken (thorough: -coverage)
        self.wall = 0.0
        self.timeout = False
        self.log_tail = ""
        self.rc = None
        self.cmd = ""
        self.errors = []


_RE_STATES = re.compile(r"(\d+) states generated, (\d+) distinct states found")
_RE_SIM = re.compile(r"The number of states generated: (\d+)")
_RE_INV = re.compile(r"Error: Invariant (\S+) is violated")
_RE_ACTPROP = re.compile(r"Error: Action property (\S+) is violated")
_RE_STATE_HDR = re.compile(r"^State (\d+): <(.*)>$")
_RE_COV_ACTION = re.compile(r"^<(\w+) line .*>: (\d+):(\d+)$")


def run_tlc(family, module, cfg, *, workers=8, timeout_s=600, cases_path=None, simulate=None,
            depth=None, seed=None, deadlock=False, coverage=False, extra_files=(),
            java_opts=(), dfs=False, keep_dir=None, defines=None, continue_=False, quiet_cases=False):
    """Run TLC on specs/<family>/<module>.tla with specs/<family>/<cfg>.

    CASE records printed by the spec (VerifIO!Emit) are appended, one JSON document per line, to
    cases_path.  `defines` is a dict name->TLA text substituted for lines `\\* @@name@@` ... (rare).
    `extra_files` are copied into the run directory (e.g. a recorded trace the spec deserialises).
    """
    res = TLCResult()
    d = keep_dir or mkscratch("tlc-" + module)
    try:
        for sub in ("common", family):
            src = os.path.join(VERIF, "specs", sub)
            for f in os.listdir(src):
                p = os.path.join(src, f)
                if os.path.isfile(p) and (f.endswith(".tla") or f == cfg):
                    shutil.copy(p, os.path.join(d, f))
        if defines:
            for f in os.listdir(d):
                if f.endswith(".cfg") or f.endswith(".tla"):
                    p = os.path.join(d, f)
                    txt = open(p).read()
                    new = txt
                    for k, v in defines.items():
                        new = new.replace("@@" + k + "@@", str(v))
                    if new != txt:
                        open(p, "w").write(new)
        for f in extra_files:
            shutil.copy(f, os.path.join(d, os.path.basename(f)))
        meta = os.path.join(d, "meta")
        cmd = ["java", "-XX:+UseParallelGC", "-Xss256m", "-Xmx" + os.environ.get("VERIF_TLC_HEAP", "8g")]
        if dfs:
            cmd.append("-Dtlc2.tool.queue.IStateQueue=StateDeque")
        cmd += list(java_opts)
        cmd += ["-cp", JAR, "tlc2.TLC", "-workers", str(workers), "-metadir", meta,
                "-config", cfg, "-noGenerateSpecTE"]
        if not deadlock:
            cmd.append("-deadlock")  # -deadlock DISABLES deadlock checking
        if coverage:
            cmd += ["-coverage", "1"]
        if continue_:
            cmd.append("-continue")
        if simulate is not None:
            cmd += ["-simulate", simulate]
            if depth:
                cmd += ["-depth", str(depth)]
        if seed is not None:
            cmd += ["-seed", str(seed)]
        cmd.append(module)
        res.cmd = " ".join(cmd)
        t0 = time.time()
        casef = open(cases_path, "a") if cases_path else None
        res.cases_path = cases_path
        tail = []
        cur = None
        saw_noerr = saw_finished = False
        proc = subprocess.Popen(cmd, cwd=d, stdout=subprocess.PIPE, stderr=subprocess.STDOUT,
                                text=True, errors="replace")
        deadline = t0 + timeout_s
        try:
            for line in proc.stdout:
                if line.startswith('<<"CASE", "'):
                    body = line.rstrip("\n")
                    body = body[len('<<"CASE", "'):]
                    if body.endswith('">>'):
                        body = body[:-3]
                    if casef:
                        casef.write(tla_unquote(body))
                        casef.write("\n")
                    res.cases += 1
                    if time.time() > deadline:
                        proc.kill()
                        res.timeout = True
                        break
                    continue
                line = line.rstrip("\n")
                if "No error has been found" in line:
                    saw_noerr = True
                if "Model checking completed" in line or line.startswith("Finished in"):
                    saw_finished = True
                tail.append(line)
                if len(tail) > 400:
                    del tail[:100]
                m = _RE_STATES.search(line)
                if m:
                    res.generated, res.distinct = int(m.group(1)), int(m.group(2))
                m = _RE_SIM.search(line)
                if m:
                    res.generated = max(res.generated, int(m.group(1)))
                m = _RE_INV.search(line)
                if m and not res.violated:
                    res.violated = m.group(1)
                m = _RE_ACTPROP.search(line)
                if m and not res.violated:
                    res.violated = m.group(1)
                if "Temporal properties were violated" in line and not res.violated:
                    res.violated = "temporal"
                if line.startswith("Error: Deadlock reached") and not res.violated:
                    res.violated = "deadlock"
                if line.startswith("Error:") or "TLC threw an unexpected exception" in line or \
                        line.startswith("***Parse Error***") or "Fatal errors while parsing" in line:
                    res.errors.append(line)
                m = _RE_STATE_HDR.match(line)
                if m:
                    cur = (m.group(2), {})
                    res.trace.append(cur)
                    continue
                if cur is not None:
                    if line.startswith("/\\ ") and " = " in line:
                        k, v = line[3:].split(" = ", 1)
                        cur[1][k.strip()] = v
                        cur[1]["__last"] = k.strip()
                    elif line.strip() == "":
                        cur = None
                    elif "__last" in cur[1]:
                        cur[1][cur[1]["__last"]] += " " + line.strip()
                if coverage:
                    m = _RE_COV_ACTION.match(line)
                    if m and int(m.group(3)) == 0 and int(m.group(2)) == 0:
                        res.coverage_zero.append(m.group(1))
                if time.time() > deadline:
                    proc.kill()
                    res.timeout = True
                    break
        finally:
            if casef:
                casef.close()
        try:
            proc.wait(timeout=30)
        except subprocess.TimeoutExpired:
            proc.kill()
            proc.wait()
        res.rc = proc.returncode
        res.wall = time.time() - t0
        res.log_tail = "\n".join(tail[-120:])
        for st in res.trace:
            st[1].pop("__last", None)
        finished = any("Model checking completed. No error has been found." in l or
                       "Finished in" in l for l in tail)
        noerr = saw_noerr or any("No error has been found" in l for l in tail)
        if simulate is not None:
            # simulation ends by num= limit; "Finished" is not always printed
            noerr = noerr or (res.rc == 0 and not res.errors)
        res.ok = (not res.timeout) and res.violated is None and noerr and not \
            [e for e in res.errors if "Invariant" not in e]
        if res.timeout:
            res.violated = None
        return res
    finally:
        if not keep_dir:
            shutil.rmtree(d, ignore_errors=True)


def sany(family, module):
    d = mkscratch("sany")
    try:
        for sub in ("common", family):
            src = os.path.join(VERIF, "specs", sub)
            for f in os.listdir(src):
                if f.endswith(".tla"):
                    shutil.copy(os.path.join(src, f), os.path.join(d, f))
        p = subprocess.run(["java", "-cp", JAR, "tla2sany.SANY", module + ".tla"], cwd=d,
                           capture_output=True, text=True, timeout=120)
        return p.returncode == 0 and "Semantic errors" not in p.stdout, p.stdout
    finally:
        shutil.rmtree(d, ignore_errors=True)
