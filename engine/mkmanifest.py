#!/usr/bin/env python3
import json
import os
import sys

sys.path.insert(0, os.path.dirname(os.path.abspath(__file__)))
import registry  # noqa: E402

VERIF = os.path.dirname(os.path.dirname(os.path.abspath(__file__)))


def main():
    props = [json.loads(l) for l in open(os.path.join(VERIF, "properties.jsonl")) if l.strip()]
    hooks_commits = []
    hc = os.path.join(VERIF, "hooks_commits.txt")
    if os.path.exists(hc):
        hooks_commits = [l.split()[0] for l in open(hc) if l.strip() and not l.startswith("#")]
    checks, na = [], []
    rd = os.path.join(VERIF, "engine", "registry.d")
    if os.path.isdir(rd):
        for f in sorted(os.listdir(rd)):
            if f.endswith(".json"):
                registry.CHECKS[f[:-5].upper()] = json.load(open(os.path.join(rd, f)))
    claimed = set()
    cl = os.path.join(VERIF, "engine", "claimed.txt")
    if os.path.exists(cl):
        claimed = {l.split()[0] for l in open(cl) if l.strip() and not l.startswith("#")}
    for p in props:
        pid = p["id"]
        c = registry.CHECKS.get(pid)
        if not c or pid not in claimed:
            na.append({"property_id": pid, "reason": registry.NOT_CLAIMED.get(pid, registry.DEFAULT_REASON)})
            continue
        checks.append({
            "property_id": pid,
            "quick_cmd": "python3 engine/vcheck.py %s --tier quick" % pid,
            "thorough_cmd": "python3 engine/vcheck.py %s --tier thorough" % pid,
            "evidence_file": "/verif/evidence/%s.json" % pid,
            "replay_cmd_template": "python3 engine/vcheck.py %s --replay {path}" % pid,
            "engine": "vcheck",
            "level_claimed": {"category": c["level"], "text": c["text"], "design_ref": c.get("design", "")},
            "level_note": c["note"],
            "technique": c["technique"],
        })
    m = {
        "version": 1,
        "setup_cmd": "python3 engine/setup.py",
        "hooks": {
            "guard": "verif",
            "enable": "go build -tags verif (the harness module /verif/harness replaces github.com/goplus/xgo => /repo)",
            "baseline_off_cmd": "python3 /verif/engine/baseline.py",
            "source_commits": hooks_commits,
            "add_only": True,
        },
        "engines": [{
            "name": "vcheck",
            "path": "engine/vcheck.py",
            "serves_properties": [c["property_id"] for c in checks],
            "kind_free_text": ("TLA+ specs (specs/) checked by TLC; CASE records / behaviours exported by TLC are "
                               "replayed into the real code by Go harnesses (harness/), traces recorded from the "
                               "real code are validated by TLC against Trace specs"),
        }],
        "checks": checks,
        "notes": "see DESIGN.md; known findings in known_findings.json",
        "not_applicable": na,
    }
    with open(os.path.join(VERIF, "MANIFEST.json"), "w") as f:
        json.dump(m, f, indent=1)
        f.write("\n")
    print("MANIFEST.json: %d checks, %d not claimed" % (len(checks), len(na)))
    try:
        import jsonschema
        jsonschema.validate(m, json.load(open("/root/.vp/MANIFEST.schema.json")))
        print("schema ok")
    except ImportError:
        pass


if __name__ == "__main__":
    main()
