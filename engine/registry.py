"""Registry of claimed properties -> MANIFEST.json entries.  `python3 engine/mkmanifest.py` rewrites
MANIFEST.json from this table; properties without an entry are listed under not_applicable with
the reason in NOT_CLAIMED (default: not built yet)."""

CHECKS = {
    "C35": dict(
        level="model_checking",
        text=("TLA+ spec of ParseAll as a fold of ParseOne actions (specs/cfg/Projs.tla); TLC enumerates every "
              "argument list up to the bound over 17 representative spellings, proves the partition theorems "
              "on the model, and every enumerated list and every model step is replayed into the real "
              "ParseAll/ParseOne. Exhaustive small scope is the right level for a pure fold over a list."),
        note="argument classes represented by the pool in Projs.tla; list length <= 4; Linux path separator",
        technique="TLA+ spec + TLC exhaustive enumeration, CASE replay into ParseAll/ParseOne",
        design="5.5 C35",
    ),
}

NOT_CLAIMED = {}
DEFAULT_REASON = "check not built yet in this round (planned in DESIGN.md section 5); no claim is made"
