#!/usr/bin/env python3
"""Rebuild section 10 of DESIGN.md ("As built") from design.d/*.md between the BEGIN/END markers."""
import os, re
VERIF = os.path.dirname(os.path.dirname(os.path.abspath(__file__)))
p = os.path.join(VERIF, "DESIGN.md")
s = open(p).read()
B, E = "<!-- BEGIN AS-BUILT -->", "<!-- END AS-BUILT -->"
parts = []
tail = ""
d = os.path.join(VERIF, "design.d")
def keyf(f):
    m = re.match(r"C(\d+)", f)
    return (int(m.group(1)) if m else 999, f)
for f in sorted(os.listdir(d), key=keyf):
    if f.endswith(".md"):
        t = open(os.path.join(d, f)).read().strip()
        if f.startswith("ZZ"):
            tail += ("\n\n---------------------------------------------------------------------------------------------\n\n" if tail else "") + t
            continue
        if not t.lstrip().startswith("#"):
            t = "### %s — as built\n\n%s" % (f[:-3], t)
        parts.append(t)
body = B + "\n\n" + "\n\n".join(parts) + "\n\n---------------------------------------------------------------------------------------------\n\n" + tail + "\n\n" + E
if B in s:
    s = s[:s.index(B)] + body + s[s.index(E) + len(E):]
else:
    s = s.rstrip() + "\n\n---------------------------------------------------------------------------------------------\n\n## 10. As built (per property; generated from design.d/*.md by engine/mkdesign.py)\n\n" + body + "\n"
open(p, "w").write(s)
print("DESIGN.md: %d as-built sections" % len(parts))
