#!/usr/bin/env python3
"""Confirm one seeded change and run the check against it.

seedcheck.py <Cxx> <n> --demo-src FILE [--demo-src FILE2 ...] --demo-dst RELPATH [...] --run "CMD"
             [--pkgs "./x/jsonrpc2/... ./cl/..."] [--tier quick] [--src /tmp/seed/<Cxx>-out/<n>] [--needs TEXT]

Steps (all in scratch worktrees under ~/wt, removed afterwards):
  1. HEAD + patch.diff builds (`go build ./...`), `go vet` of the touched packages
  2. the pinned suite (engine/baseline.py, tag off) for --pkgs (default: touched packages and their
     importers that have stable tests) still passes with the change
  3. the demonstration passes on HEAD and fails with the change
  4. `vcheck.py <Cxx> --tier <tier>` with VERIF_REPO=<changed tree>: exit code and VIOLATION lines
Everything is recorded in /verif/seeded/<Cxx>-<n>/meta.json next to patch.diff and the demonstration.
"""
import argparse
import json
import os
import shutil
import subprocess
import sys
import time

VERIF = os.path.dirname(os.path.dirname(os.path.abspath(__file__)))
ENV = dict(os.environ, GOFLAGS="-mod=mod", GOPROXY="off", GOSUMDB="off", GOTOOLCHAIN="local")


def sh(cmd, cwd=None, timeout=3600, env=None):
    p = subprocess.run(cmd, shell=True, cwd=cwd, env=env or ENV, stdout=subprocess.PIPE, stderr=subprocess.STDOUT,
                       text=True, errors="replace", timeout=timeout)
    return p.returncode, p.stdout


def main():
    ap = argparse.ArgumentParser()
    ap.add_argument("pid")
    ap.add_argument("n")
    ap.add_argument("--src")
    ap.add_argument("--demo-src", action="append", default=[])
    ap.add_argument("--demo-dst", action="append", default=[])
    ap.add_argument("--run", required=True)
    ap.add_argument("--pkgs", default="")
    ap.add_argument("--tier", default="quick")
    ap.add_argument("--needs", default="")
    ap.add_argument("--also", default="", help="other property ids whose checks should be run too")
    ap.add_argument("--skip-baseline", action="store_true")
    ap.add_argument("--only-suite", action="store_true", help="re-run only the pinned-suite step and update meta.json")
    a = ap.parse_args()
    src = a.src or "/tmp/seed/%s-out/%s" % (a.pid, a.n)
    patch = os.path.join(src, "patch.diff")
    name = "%s-%s" % (a.pid, a.n)
    wt0 = os.path.expanduser("~/wt/seedbase-" + name)
    wt1 = os.path.expanduser("~/wt/seed-" + name)
    meta = {"property": a.pid, "n": a.n, "needs": a.needs, "ran": [], "at_repo_head": None}
    for wt in (wt0, wt1):
        subprocess.run(["git", "-C", "/repo", "worktree", "remove", "--force", wt], capture_output=True)
        rc, out = sh("git -C /repo worktree add -q --detach %s HEAD" % wt)
        if rc:
            print(out)
            return 3
    try:
        meta["at_repo_head"] = sh("git -C /repo rev-parse --short HEAD")[1].strip()
        rc, out = sh("git apply --whitespace=nowarn %s" % patch, cwd=wt1)
        meta["ran"].append({"cmd": "git apply patch.diff", "rc": rc, "out": out[-500:]})
        if rc:
            print("PATCH DOES NOT APPLY\n", out)
            return 3
        files = sh("git diff --name-only", cwd=wt1)[1].split()
        pkgs = sorted({"./" + os.path.dirname(f) for f in files if f.endswith(".go")})
        meta["files"] = files
        rc, out = sh("go build $(go list ./... | grep -v /demo/) && go vet %s" % " ".join(pkgs), cwd=wt1)
        meta["builds"] = rc == 0
        meta["ran"].append({"cmd": "go build ./... && go vet " + " ".join(pkgs), "rc": rc, "out": out[-800:]})
        print("build+vet rc=%d" % rc)
        # 2. pinned suite
        if not a.skip_baseline:
            sel = a.pkgs
            if not sel:
                # touched packages + importers
                rc2, out2 = sh("go list -f '{{.ImportPath}} {{join .Imports \" \"}} {{join .TestImports \" \"}}' ./...", cwd=wt1)
                want = set()
                mod = "github.com/goplus/xgo/"
                touched = {mod + p[2:] for p in pkgs}
                for line in out2.split("\n"):
                    parts = line.split()
                    if parts and (parts[0] in touched or touched & set(parts[1:])):
                        want.add("./" + parts[0][len(mod):] if parts[0].startswith(mod) else parts[0])
                sel = " ".join(sorted(want))
            t = time.time()
            rc, out = sh("python3 %s/engine/baseline.py %s" % (VERIF, sel), env=dict(ENV, VERIF_REPO=wt1, VERIF_TEST_TIMEOUT="150m"), timeout=4 * 3600)
            meta["suite_passes"] = rc == 0
            meta["ran"].append({"cmd": "baseline.py " + sel, "rc": rc, "out": out[-1500:], "wall_s": round(time.time() - t)})
            print("pinned suite (%s) rc=%d: %s" % (sel, rc, out.strip().split("\n")[0] if out.strip() else ""))
        if a.only_suite:
            oldp = os.path.join(VERIF, "seeded", name, "meta.json")
            old = json.load(open(oldp))
            old["suite_passes"] = meta.get("suite_passes")
            old["ran"] = [r for r in old.get("ran", []) if "baseline.py" not in r["cmd"]] + [r for r in meta["ran"] if "baseline.py" in r["cmd"]]
            old["confirmed"] = bool(old.get("builds") and old.get("suite_passes", True) and old.get("demo_passes_without")
                                    and old.get("demo_fails_with"))
            json.dump(old, open(oldp, "w"), indent=1)
            print("suite re-run: passes=%s confirmed=%s" % (old["suite_passes"], old["confirmed"]))
            return 0
        # 3. demonstration
        for s_, d_ in zip(a.demo_src, a.demo_dst):
            for wt in (wt0, wt1):
                dst = os.path.join(wt, d_)
                os.makedirs(os.path.dirname(dst), exist_ok=True)
                shutil.copy(s_ if os.path.isabs(s_) else os.path.join(src, s_), dst)
        res = {}
        for label, wt in (("without", wt0), ("with", wt1)):
            rc, out = sh("timeout 600 " + a.run, cwd=wt, timeout=700)
            res[label] = rc
            meta["ran"].append({"cmd": "[%s change] %s" % (label, a.run), "rc": rc, "out": out[-1500:]})
            print("demo %s change: rc=%d" % (label, rc))
        meta["demo_passes_without"] = res["without"] == 0
        meta["demo_fails_with"] = res["with"] != 0
        # 4. our checks
        for d_ in a.demo_dst:  # the demonstration is not part of the tree under test
            try:
                os.remove(os.path.join(wt1, d_))
            except OSError:
                pass
        meta["checks"] = {}
        for pid in [a.pid] + [x for x in a.also.split(",") if x]:
            t = time.time()
            rc, out = sh("python3 engine/vcheck.py %s --tier %s" % (pid, a.tier), cwd=VERIF,
                         env=dict(ENV, VERIF_REPO=wt1, VERIF_IGNORE_LOAD="1"), timeout=4 * 3600)
            viol = [l for l in out.split("\n") if l.startswith(("VIOLATION", "  signature", "INCONCLUSIVE", "KNOWN-FINDING"))]
            meta["checks"][pid] = {"tier": a.tier, "rc": rc, "lines": viol[:12], "wall_s": round(time.time() - t)}
            print("check %s --tier %s: rc=%d %s" % (pid, a.tier, rc, viol[:4]))
        outdir = os.path.join(VERIF, "seeded", name)
        os.makedirs(outdir, exist_ok=True)
        oldp = os.path.join(outdir, "meta.json")
        if os.path.exists(oldp):   # keep earlier verdicts: a change first missed and caught after strengthening
            old = json.load(open(oldp))
            meta["history"] = old.get("history", []) + [{"at_repo_head": old.get("at_repo_head"), "checks": old.get("checks")}]
            if a.skip_baseline and "suite_passes" in old:   # re-check after strengthening: the suite verdict was established before
                meta["suite_passes"] = old["suite_passes"]
                meta["ran"] = [r for r in old.get("ran", []) if "baseline.py" in r["cmd"]] + meta["ran"]
                meta["confirmed"] = bool(meta.get("builds") and meta["suite_passes"] and meta["demo_passes_without"] and meta["demo_fails_with"])
        shutil.copy(patch, os.path.join(outdir, "patch.diff"))
        for s_ in a.demo_src:
            p_ = s_ if os.path.isabs(s_) else os.path.join(src, s_)
            shutil.copy(p_, os.path.join(outdir, os.path.basename(p_)))
        rd = os.path.join(src, "README.md")
        if os.path.exists(rd):
            shutil.copy(rd, os.path.join(outdir, "README.seeder.md"))
        meta["demo"] = {"files": [os.path.basename(x) for x in a.demo_src], "placed_at": a.demo_dst, "run": a.run}
        meta["confirmed"] = bool(meta.get("builds") and meta.get("suite_passes", True) and meta["demo_passes_without"]
                                 and meta["demo_fails_with"])
        meta["detected"] = meta["checks"][a.pid]["rc"] == 1
        meta["confirmed"] = bool(meta.get("builds") and meta.get("suite_passes", True) and meta["demo_passes_without"]
                                 and meta["demo_fails_with"])
        json.dump(meta, open(os.path.join(outdir, "meta.json"), "w"), indent=1)
        print("confirmed=%s detected=%s -> %s" % (meta["confirmed"], meta["detected"], outdir))
    finally:
        for wt in (wt0, wt1):
            subprocess.run(["git", "-C", "/repo", "worktree", "remove", "--force", wt], capture_output=True)
        subprocess.run(["git", "-C", "/repo", "worktree", "prune"], capture_output=True)
    return 0


if __name__ == "__main__":
    sys.exit(main())
