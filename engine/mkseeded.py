#!/usr/bin/env python3
"""Writes design.d/ZZ-seeded.md (DESIGN.md section 11) from seeded/*/meta.json."""
import json, os
VERIF = os.path.dirname(os.path.dirname(os.path.abspath(__file__)))
rows = []
sd = os.path.join(VERIF, "seeded")
for d in sorted(os.listdir(sd)):
    mp = os.path.join(sd, d, "meta.json")
    if not os.path.exists(mp):
        continue
    m = json.load(open(mp))
    chk = m.get("checks", {})
    own = chk.get(m["property"], {})
    sigs = [l.split("signature:")[1].strip() for l in own.get("lines", []) if "signature:" in l]
    others = ["%s rc=%s" % (k, v.get("rc")) for k, v in chk.items() if k != m["property"]]
    hist = m.get("history") or []
    first = None
    for h in hist:
        c0 = (h.get("checks") or {}).get(m["property"]) or {}
        if c0.get("rc") in (0, 2) and first is None:
            first = "first run rc=%s (missed)" % c0.get("rc")
    if first:
        m["note"] = (m.get("note", "") + " " + first + ", caught after strengthening").strip()
    status = m.get("status") or ("caught" if own.get("rc") == 1 else ("inconclusive" if own.get("rc") == 2 else "MISSED"))
    rows.append((d, m["property"], ", ".join(m.get("files", [])), m.get("needs", ""), "yes" if m.get("confirmed") else "NO",
                 status, "; ".join(sigs[:3]) + (" | also: " + ", ".join(others) if others else ""), m.get("note", "")))
out = ["## 11. Seeded changes (independent sub-agents; only the property text and a scratch worktree) and what catches them",
       "",
       "Each row is one change kept under `seeded/<id>/` (patch.diff, demonstration, meta.json). *confirmed* = the coordinator",
       "re-ran: builds, pinned suite of the affected packages passes, demonstration passes without and fails with the change",
       "(`engine/seedcheck.py`). *result* is the exit status of the property's quick tier with `VERIF_REPO` = HEAD + patch.",
       "",
       "| id | property | files | needs in order to manifest | confirmed | result | signatures / notes |",
       "|---|---|---|---|---|---|---|"]
for r in rows:
    out.append("| %s | %s | %s | %s | %s | %s | %s %s |" % tuple(str(x).replace("|", "\\|") for x in r))
n = len(rows); c = sum(1 for r in rows if r[5] == "caught")
out += ["", "Totals: %d seeded changes recorded, %d caught by the quick tier of their property." % (n, c), ""]
open(os.path.join(VERIF, "design.d", "ZZ-seeded.md"), "w").write("\n".join(out))
print(n, "seeded,", c, "caught")
