#!/usr/bin/env python3
"""seedprompt.py <Cxx> : creates the scratch worktree /tmp/seed/<Cxx> (HEAD of /repo) and prints the
prompt for an independent sub-agent that seeds property-breaking changes (it gets nothing from /verif)."""
import json, os, subprocess, sys
pid = sys.argv[1]
props = {json.loads(l)["id"]: json.loads(l) for l in open("/verif/properties.jsonl")}
p = props[pid]
wt = "/tmp/seed/%s" % pid
out = "/tmp/seed/%s-out" % pid
os.makedirs("/tmp/seed", exist_ok=True)
if not os.path.exists(wt):
    subprocess.run(["git", "-C", "/repo", "worktree", "add", "-q", "--detach", wt, "HEAD"], check=True)
os.makedirs(out, exist_ok=True)
print(f"""You are testing how well a code base's safety net catches subtle regressions. You work ONLY in the directory {wt}, a scratch git worktree of the Go project goplus/gop (also called XGo / Go+; Go module path github.com/goplus/xgo; Go 1.23 tool chain installed). There is no network: in every shell call first run `export GOFLAGS=-mod=mod GOPROXY=off GOSUMDB=off GOTOOLCHAIN=local`. Do not read, list or use anything under /verif (off limits), and do not touch /repo; write your results only under {out}.

The project is supposed to guarantee this property:

  **{p['title']}** — {p['statement']}
  (Quantifier: {p['quantifier']['text']})
  Code it is anchored in: {', '.join(p['anchors']['files'])}

Your task: produce TWO independent changes to the project's (non-test) source code, each of which BREAKS this property while (a) the project still compiles (`go build ./...` and `go vet` of the touched package), and (b) the project's existing tests still pass — at least `go test -count=1` of the touched package(s) and of the packages that import them and have tests (find them with `go list -f '{{{{.ImportPath}}}} {{{{.Imports}}}}' ./... | grep <pkg>`; the full suite `go test ./...` takes many minutes on this shared machine, so do not run it more than once, at the very end, for the change you consider best; a few tests in package `cl` fail on the unmodified tree already — compare against the unmodified tree, not against zero failures).

What kind of change: a realistic regression a maintainer could introduce while refactoring or "optimising" — NOT something ordinary use would expose at once. It should need something specific to manifest: a particular interleaving of goroutines, a crash or fault at a particular point, a multi-step sequence of operations, an unusual input, a rarely used option, or two cooperating sites that each look fine alone. Keep each change small (a few lines). The two changes must have different root causes. Do not modify test files, files with a `//go:build verif` tag, or calls to functions named `verif…` (those are inert instrumentation).

For each change n ∈ {{1, 2}} deliver in {out}/n/:
  * `patch.diff` — `git diff` of the change against the unmodified worktree (must apply with `git apply` to a clean checkout);
  * a demonstration — a Go test file (say where it must be placed, e.g. `x/jsonrpc2/seed_test.go`, package name) or a small standalone program with its run command — that FAILS (or hangs / crashes, with a timeout) with the change applied and PASSES on the unmodified tree; run it both ways yourself, several times if it depends on scheduling, and report the observed outcomes; make the demonstration as deterministic as you can (loops, barriers, retries) and say how often it triggers;
  * `README.md` — what the change breaks (in terms of the property), what it needs in order to manifest, exactly what you ran (commands and results for: build, existing tests with the change, demonstration with and without the change).

When you are done, leave the worktree clean (`git -C {wt} checkout -- . && git -C {wt} clean -fdq`) — your deliverables live only in {out}. Be economical with CPU (the machine is shared and heavily loaded: expect builds and tests to be several times slower than usual; use `-run` to select tests while iterating). Final answer: for each change, a 5-line summary (what, where, what it needs to manifest, test-suite result, demonstration result).""")
