#!/usr/bin/env python3
"""vcheck.py <Cxx> [--tier quick|thorough] [--replay <path>]

The only entry point registered in MANIFEST.json.  Exit 0: the property held on everything
explored (KNOWN-FINDING lines allowed); exit 1: `VIOLATION property=<id> replay=<path>`;
exit 2: inconclusive (tool failure, spec drift on a lead, dead driver) -- never a violation.
"""
import argparse
import importlib
import json
import os
import sys
import traceback

sys.path.insert(0, os.path.dirname(os.path.abspath(__file__)))
from vlib import core  # noqa: E402


def main():
    ap = argparse.ArgumentParser()
    ap.add_argument("pid")
    ap.add_argument("--tier", default=os.environ.get("VERIF_TIER") or "quick", choices=["quick", "thorough"])
    ap.add_argument("--replay", default=None)
    ap.add_argument("--keep", action="store_true", help="keep the scratch directory")
    a = ap.parse_args()
    pid = a.pid.upper()
    try:
        seed = int(os.environ.get("VERIF_SEED") or "1")
    except ValueError:
        seed = 1
    try:
        mod = importlib.import_module("props." + pid.lower())
    except ModuleNotFoundError:
        print("no check for", pid)
        return 2
    replay = None
    if a.replay:
        replay = json.load(open(a.replay))
    ctx = core.Ctx(pid, a.tier, seed, mod.LEVEL, replay=replay)
    try:
        mod.run(ctx)
        return ctx.finish()
    except core.Inconclusive as e:
        print("INCONCLUSIVE property=%s: %s" % (pid, e), flush=True)
        return 2
    except Exception:
        traceback.print_exc()
        print("INCONCLUSIVE property=%s: internal error in the check" % pid, flush=True)
        return 2
    finally:
        if not a.keep:
            ctx.cleanup()
        else:
            print("scratch kept:", ctx.scratch)


if __name__ == "__main__":
    sys.exit(main())
