"""C21 -- formatting keeps every comment, in order (printer/printer.go: flush, intersperseComments).

Same model and harness as C19 (specs/fmt/Layout.tla, harness/cmd/fmth), with the COMMENT dimension exhaustive:
TLC enumerates every token boundary of every tree in the bound x comment kind (// line, /* */ inline, /* */
on its own line, # line) x before/after the line break of the gap, and every pair of comments on the pair
shapes.  Model theorem: the comment sequence of the rendering is the inserted sequence.  Oracle M: the
comment texts of format.Source's output (real scanner, ScanComments) = the inserted sequence, once each, in order.
"""
from . import fmt_common

LEVEL = "model_checking"


def run(ctx):
    fmt_common.run_prop(
        ctx, "c21",
        ["Layout_c21_quick_one.cfg", "Layout_c21_quick_two.cfg", "Layout_c21_quick_expr.cfg",
         "Layout_c21_quick_oneline.cfg"],
        ["Layout_c21_thorough_one.cfg", "Layout_c21_thorough_two.cfg", "Layout_c21_thorough_expr.cfg", "Layout_c21_quick_oneline.cfg"])
    ctx.rule = ("every token boundary (0..n) of every tree of the cfg's families x comment kind x placement before/after the gap's "
                "line break where that is a different place; pairs of comments (ordered boundaries) on the pair shapes / all templates; "
                "distinct/non-trivial = distinct (tree, layout skeleton with the comment positions); plus every corpus file that parses")
