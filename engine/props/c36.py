"""C36 -- the import-cache key changes exactly when package sources change (tool/imp.go: PkgHash, dirHash, canCl).

Spec specs/fs/PkgHash.tla: a package directory as a function name -> [kind, size, mtime, mode] | None,
one action per file-system operation of a history, and the projection Key(dir) = set of (name, size,
mtime) of compilable non-underscore regular files.  TLC enumerates every history of MaxOps operations
over the pool (plus -simulate samples of long histories), proves on the model which operations must /
must not change the key, and exports (start, ops, key after every step, changed flag).  The harness
executes each history in the package directory of a real temp module (explicit os.Chtimes) and calls the
real Importer.PkgHash after every step: alarm iff (hash changed) != (key changed) at a step, or equal
keys have different hashes / different keys equal hashes.
"""
import os

LEVEL = "model_checking"


def run(ctx):
    cases = os.path.join(ctx.scratch, "cases.ndjson")
    workers = int(os.environ.get("VERIF_TLC_WORKERS") or 8)
    if ctx.replay:
        open(cases, "w").write(ctx.replay["case_record"]["line"] + "\n")
    else:
        if ctx.tier == "quick":
            plan = [("PkgHash_quick.cfg", None), ("PkgHash_quick4.cfg", None), ("PkgHash_sim.cfg", (400, 12))]
        else:
            plan = [("PkgHash_quick.cfg", None), ("PkgHash_thorough3.cfg", None), ("PkgHash_thorough.cfg", None),
                    ("PkgHash_thorough5.cfg", None), ("PkgHash_sim.cfg", (3000, 12)), ("PkgHash_sim30.cfg", (3000, 30))]
        for cfg, sim in plan:
            if sim:
                ctx.tlc("fs", "PkgHash", cfg, cases_path=cases, timeout_s=1500, workers=workers,
                        simulate="num=%d" % sim[0], depth=sim[1] + 1, seed=ctx.seed)
            else:
                # (-coverage 1 was read once by hand, see design.d/C36.md: its output pushes TLC's verdict line
                # out of the window engine/vlib/tlc.py keeps)
                ctx.tlc("fs", "PkgHash", cfg, cases_path=cases, timeout_s=2400, workers=workers)
    h = ctx.build_harness("fsh")
    env = {}
    for k in ("VERIF_CORRUPT", "VERIF_REPO"):
        if os.environ.get(k):
            env[k] = os.environ[k]
    res = ctx.run_harness(h, ["pkghash"], cases, env=env, timeout_s=3000)
    ctx.tally(res, cases_path=cases)
    ctx.exhaustive = True
    ctx.rule = ("every history of exactly MaxOps operations (Create, Edit, Touch, Rename, Delete, Mkdir, Rmdir, Chmod) "
                "over the cfg's name/size/mtime pool from the start directory {a.go, f.txt} (all shorter histories are "
                "prefixes), plus seeded -simulate samples of longer histories over the large pool; distinct = distinct "
                "sequence of (operation, name class, key-changed) steps")
    ctx.assumptions += [
        "names are tab/newline-free (the record format file\\t%s\\t%x\\t%x\\n is not injective otherwise)",
        "regular files and directories only (no symlinks, fifos); plain module without registered class file types, so "
        "compilable = .go .xgo .gop .gox exactly as canCl's switch says",
        "file system with nanosecond mtimes (os.Chtimes); one Importer per worker reused over all histories",
        "exhaustive for the enumerated cfgs only; the -simulate part is a seeded sample",
    ]
