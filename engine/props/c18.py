"""C18 -- AST traversal visits every node exactly once (ast/walk.go).

Spec specs/syntax/Syntax.tla: children of every node kind in source order; WalkEvents(t) is the event
sequence (node, children..., nil) ast.Walk must produce.  TLC enumerates the focus trees and the
all-kinds samples; the harness checks ast.Walk and ast.Inspect on (1) the tree synthesized from the model
tree, (2) the tree the real parser builds from the rendered text, against the reflection-based enumeration
of the node's fields (oracle S) and the model's sequence (oracle M); plus, counted separately, every file
of the repository that parses.
"""
import os

from . import syn_common

LEVEL = "model_checking"


def run(ctx):
    cases = os.path.join(ctx.scratch, "cases.ndjson")
    h = ctx.build_harness("synh")
    if ctx.replay:
        rec = ctx.replay.get("case_record")
        if rec and rec.get("line"):
            open(cases, "w").write(rec["line"] + "\n")
            ctx.tally(ctx.run_harness(h, ["c18"], cases), cases_path=cases)
        else:
            f = (ctx.replay.get("case") or {}).get("file")
            ctx.tally(ctx.run_harness(h, ["corpus", "c18", syn_common.repo(), os.path.join(syn_common.repo(), f)], None))
        return
    syn_common.run_syntax(ctx, cases)
    ctx.tally(ctx.run_harness(h, ["c18"], cases, timeout_s=1800), cases_path=cases)
    ctx.tally(ctx.run_harness(h, ["corpus", "c18", syn_common.repo()], None, timeout_s=900))
    ctx.exhaustive = True
    ctx.rule = ("every tree of every focus of Syntax.tla up to Sizes[f] expression nodes + the all-kinds sample trees, each as a "
                "synthesized ast value and as the real parser's tree of its rendering; distinct/non-trivial = (origin, model event "
                "sequence); corpus files are counted separately in corpus_files_parsed")
    ctx.assumptions += [
        "children = non-nil ast.Node values of the node's exported fields in field order, looking through slices, `any` and the "
        "holders StringLitEx/DomainTextLitEx; File.Imports/Comments/ShadowEntry repeat nodes and are no children (as in go/ast)",
        "header fields of a shadow entry (implicit main) and the implicit package name are not walked by design",
        "trees after the compiler front end are not yet included",
    ]
