"""C05 -- string interpolation equals explicit concatenation.

Spec specs/sem/Interp.tla: a generator derives literals as segment sequences (text atoms incl. escapes
and braces, `$$`, `${e}`, trailing lone `$`); the reader machine is the documented meaning of the
source text (value, evaluation log).  TLC proves that reading inverts spelling, that the consumed
slices tile the literal and that value/log equal the left-to-right concatenation, and exports every
literal within the bound (thorough: plus seeded `-simulate` derivations of longer literals).
harness/cmd/semh (interp.go) renders each literal into an XGo function, compiles it alone, batches,
builds, runs and compares %q of the value and the call log with the model; the same batch is emitted as
explicit Go concatenation with strconv formatting (second oracle; disagreement with the model = exit 2).
"""
import os

LEVEL = "translation_validation"


def run(ctx):
    cases = os.path.join(ctx.scratch, "cases.ndjson")
    workers = min(8, int(os.environ.get("VERIF_TLC_WORKERS") or 8))
    exhaustive = True
    if ctx.replay:
        open(cases, "w").write(ctx.replay["case_record"]["line"] + "\n")
    elif ctx.tier == "quick":
        for cfg in ("Interp_quick.cfg", "Interp_quick2.cfg"):
            ctx.tlc("sem", "Interp", cfg, cases_path=cases, timeout_s=1800, workers=workers)
    else:
        ctx.tlc("sem", "Interp", "Interp_quick2.cfg", cases_path=cases, timeout_s=1800, workers=workers)
        ctx.tlc("sem", "Interp", "Interp_thorough.cfg", cases_path=cases, timeout_s=1800, workers=workers)
        r = ctx.tlc("sem", "Interp", "Interp_sim.cfg", cases_path=cases, timeout_s=1800, workers=workers,
                    simulate="num=1000", depth=60, seed=ctx.seed)
        ctx.extra["simulated_literals"] = r.cases
        exhaustive = False
    # the same literal may be derived by several cfgs / simulation runs: keep one copy
    seen, uniq = set(), []
    for line in open(cases):
        if line not in seen:
            seen.add(line)
            uniq.append(line)
    open(cases, "w").writelines(uniq)
    h = ctx.build_harness("semh")
    res = ctx.run_harness(h, ["interp"], cases, timeout_s=7000)
    ctx.tally(res, cases_path=cases)
    ctx.programs = int(ctx.extra.get("programs", 0)) + int(ctx.extra.get("go_expansion_programs", 0))
    ctx.disagreements_checked = int(ctx.extra.get("compared_with_model", 0))
    ctx.exhaustive = exhaustive
    ctx.rule = ("every literal of at most MaxLen segments over {6 text atoms per quote kind (plain, braces, escapes / raw "
                "backslash, quote, newline), $$, ${e} for e in the cfg's expression set (int/string/bool/float/error "
                "identifiers, logging calls, n+1), lone $ as last segment} with at least one $-form, for interpreted and raw "
                "quotes; thorough adds seeded random derivations up to 6 segments; distinct/non-trivial = distinct "
                "(quote, sequence of segment kinds)")
    ctx.assumptions += ["embedded expressions are identifiers, calls and n+1 without braces or spaces inside ${}",
                        "a lone $ occurs only as the last character (elsewhere it is a parse error by design)",
                        "bool parts: compile error or strconv.FormatBool are both accepted (recorded as drift)"]
