"""C17 -- every AST node's span is exact and nested (ast/ast.go, ast/ast_gop.go, parser/parser.go).

Spec specs/syntax/Syntax.tla: Spans(t) gives the first/last token of every node of every tree TLC
enumerates (focus cfgs) plus the hand-written all-kinds samples; RenderToks gives the tokens with their
layout classes.  The harness lays the tokens out (canonical, tight, wide, line breaks, seeded mix), so it
knows every token's byte offsets, parses the text with the real parser and compares Pos()/End() of every
node (matched by preorder position) with the model's first/last token; nesting, sibling order and the
re-parse of every expression's source slice are checked on the real tree (oracle S).  The repository's own
source files are put through the S checks as a separately counted corpus.
"""
import os

from . import syn_common

LEVEL = "model_checking"


def run(ctx):
    cases = os.path.join(ctx.scratch, "cases.ndjson")
    h = ctx.build_harness("synh")
    if ctx.replay:
        rec = ctx.replay.get("case_record")
        if rec and rec.get("line"):
            open(cases, "w").write(rec["line"] + "\n")
            ctx.tally(ctx.run_harness(h, ["c17"], cases), cases_path=cases)
        else:
            f = (ctx.replay.get("case") or {}).get("file")
            ctx.tally(ctx.run_harness(h, ["corpus", "c17", syn_common.repo(), os.path.join(syn_common.repo(), f)], None))
        return
    syn_common.run_syntax(ctx, cases)
    ctx.tally(ctx.run_harness(h, ["c17"], cases, timeout_s=1800), cases_path=cases)
    ctx.tally(ctx.run_harness(h, ["corpus", "c17", syn_common.repo()], None, timeout_s=900))
    ctx.exhaustive = True
    ctx.rule = ("every tree of every focus of Syntax.tla up to Sizes[f] expression nodes + the all-kinds sample trees, each "
                "under the layouts canon/wide + one seeded of tight/nl/rnd (thorough: all five); distinct/non-trivial = "
                "(layout, preorder kind sequence); corpus files (every .xgo/.gop/.gox/.go of the tree under test that parses) "
                "are counted separately in corpus_files_parsed")
    ctx.assumptions += [
        "nodes are matched by preorder position (reflection over the struct fields); a differing tree is drift, not an alarm",
        "the implicit main function of a script and File.Pos/End are outside the statement (no source of their own)",
        "children inside a string / domain-text literal are checked for nesting and re-parse, not for token boundaries",
        "FuncDecl.Type is expected to start at the func keyword (go/ast heritage); reported once as child-order:FuncDecl",
    ]
