"""C22 -- printing a synthesized tree preserves its structure (printer/nodes.go).

Spec specs/syntax/Syntax.tla: abstract syntax trees, minimal-paren printing Par/PrintToks, the
precedence-climbing parser Parse.  TLC enumerates every paren-free tree of each focus cfg, proves on
the model that Parse(Print(t)) = Par(t) (and Strip of it = t, layout independence, necessity of the
inserted parentheses) and exports the tree.  The harness builds the real ast value without positions
and without ParenExpr, prints it with printer.Fprint, parses the text with the real parser and compares
modulo ParenExpr.
"""
import os

from . import syn_common

LEVEL = "model_checking"


def run(ctx):
    cases = os.path.join(ctx.scratch, "cases.ndjson")
    if ctx.replay:
        open(cases, "w").write(ctx.replay["case_record"]["line"] + "\n")
    else:
        syn_common.run_syntax(ctx, cases)
    h = ctx.build_harness("synh")
    res = ctx.run_harness(h, ["c22"], cases, timeout_s=1800)
    ctx.tally(res, cases_path=cases)
    ctx.exhaustive = True
    ctx.rule = ("every paren-free tree with at most Sizes[f] expression nodes over the constructors of each focus f of Syntax.tla "
                "(prec, ops, postfix, lambda, lit, atoms: parser.ParseExpr; cmd: statement of a file); "
                "distinct/non-trivial = distinct preorder sequence of (node kind, operator) of the parenthesised tree")
    ctx.assumptions += [
        "identifiers/literals are represented by the lexicon of Syntax.tla (a b f x ..., 1 \"s\" 1.5 `x` 1px)",
        "single-element/empty slice literals are left out of operand positions ([a]*b, [](a) read as array types: XGo grammar ambiguity)",
        "trees are compared modulo ParenExpr and modulo LambdaExpr.Lhs/RhsHasParen around a single element",
        "position fields are only set where the ast uses them as flags (NoParenEnd, Ellipsis, Rbrace, Lparen, Assign)",
    ]
