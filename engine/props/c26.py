"""C26 -- xgo fmt never loses a file at any crash point and keeps its mode (cmd/internal/gopfmt/fmt.go).

Spec specs/fs/FmtCrash.tla: a POSIX-like file system (path role -> [content class, mode] | absent), one
action per FS-mutating system call, a Crash action enabled in every state, and the fmt process as a
*program* (its system-call order is data).  Design runs: the order of the current code (leads: the
crash points where the model's target is neither original nor formatted) and the order of the proposed
fix (Durable / ModeKept / NoLitter are TLC invariants that hold).  Binding (specs/fs/FmtCrashTrace.tla):
the real binary built from the tree under test runs under strace on every scenario the spec enumerates
(fault-free and with one injected error per call); the recorded call sequence IS the program the model
executes, TLC evaluates Durable in every state (= every crash point) and every prefix is confirmed by
killing the real process at that call (strace inject=...:signal=KILL) and inspecting the directory.
Only the real directory decides: VIOLATION iff the real target is neither complete original nor complete
formatted text after a real kill / real run, or a successful run changed the permission bits.
"""
import json
import os
import subprocess
import time

from vlib import core

LEVEL = "fault_enumeration"


def build_xgo(ctx):
    out = os.path.join(ctx.scratch, "xgo")
    t = time.time()
    p = subprocess.run(["go", "build", "-o", out, "./cmd/xgo"], cwd=core.REPO, env=core.goenv(),
                       capture_output=True, text=True, timeout=900)
    if p.returncode != 0:
        raise core.Inconclusive("building cmd/xgo from %s failed:\n%s" % (core.REPO, p.stdout + p.stderr))
    ctx.log("built %s/cmd/xgo in %.1fs" % (core.REPO, time.time() - t))
    return out


def _oct(m):
    return "%04o" % m if isinstance(m, int) and 0 <= m < 4096 else "-"


def lead_sigs(path):
    """Structural signatures of the design's violating crash points / final states."""
    sigs, n = set(), 0
    with open(path) as f:
        for line in f:
            r = json.loads(line)
            if r.get("kind") != "design":
                continue
            n += 1
            a = r["after"]
            before = a["sys"] + ("" if a["res"] == "ok" else "=ERR")
            if not r["durable"]:
                sigs.add("crash-window:%s/%s:%s" % (before, r["before"], r["target"]))
            if not r["modeKept"]:
                sigs.add("mode-changed:%s->%s" % (_oct(r["origMode"]), _oct(r["mode"])))
    return sorted(sigs), n


def run(ctx):
    workers = int(os.environ.get("VERIF_TLC_WORKERS") or 4)
    xgo = build_xgo(ctx)
    scen = os.path.join(ctx.scratch, "scenarios.ndjson")
    if ctx.replay:
        open(scen, "w").write(ctx.replay["case_record"]["line"] + "\n")
    else:
        # design level: the fix's order satisfies the property at every crash point and under every
        # single (thorough: double) call failure; the current order does not -- its leads are exported
        cur = os.path.join(ctx.scratch, "design_current.ndjson")
        ctx.tlc("fs", "FmtCrash", "FmtCrash_fixed_%s.cfg" % ctx.tier, cases_path=scen, timeout_s=900, workers=workers)
        ctx.tlc("fs", "FmtCrash", "FmtCrash_current_%s.cfg" % ctx.tier, cases_path=cur, timeout_s=900, workers=workers)
        leads_fixed, nf = lead_sigs(scen)
        leads_cur, nc = lead_sigs(cur)
        if leads_fixed:
            raise core.Inconclusive("the design of the fix has leads although its invariants hold: %s" % leads_fixed)
        ctx.extra["design_crash_points_fixed"] = nf
        ctx.extra["design_crash_points_current"] = nc
        ctx.extra["design_leads_current_order"] = leads_cur
        ctx.log("design: fixed order %d crash/final states, no lead; current order %d, leads %s" % (nf, nc, leads_cur))
    h = ctx.build_harness("fsh")
    env = {"VERIF_XGO_BIN": xgo}
    if os.environ.get("VERIF_CORRUPT"):
        env["VERIF_CORRUPT"] = os.environ["VERIF_CORRUPT"]
    rec = ctx.run_harness(h, ["fmt-record"], scen, env=env, timeout_s=1800)
    for r in rec:
        if r.get("v") == "summary":
            for k, v in r.items():
                if k != "v":
                    ctx.extra[k] = v
        elif r.get("v") == "skip":
            ctx.skipped += 1
            ctx.notes.append("skipped: %s %s" % (r.get("input"), r.get("detail")))
    traces = os.path.join(ctx.scratch, "fmt_traces.ndjson")
    if not os.path.exists(traces) or os.path.getsize(traces) == 0:
        raise core.Inconclusive("no trace recorded")
    ctx.log("recorded %s traces of %s scenarios; programs: %s" % (
        ctx.extra.get("traces_recorded"), ctx.extra.get("scenarios"), ctx.extra.get("program_classes")))
    states = os.path.join(ctx.scratch, "states.ndjson")
    ctx.tlc("fs", "FmtCrashTrace", "FmtCrashTrace.cfg", cases_path=states, timeout_s=900, workers=workers,
            extra_files=[traces])
    res = ctx.run_harness(h, ["fmt-confirm"], states, env=env, timeout_s=3000)
    ctx.tally(res, cases_path=states)
    prob = os.path.join(ctx.scratch, "fmt_problems.ndjson")
    if os.path.exists(prob):
        lines = open(prob).read().strip().split("\n")
        # a real violation is still reported by finish(); but the run cannot be called conclusive when the
        # model and the real process disagree (trace not explained, lead not reproduced, state mismatch)
        ctx.notes += lines[:10]
        known = core.load_known(ctx.pid)
        unlisted = [s for s in ctx.viol if core.match_known(known, s) is None]
        if not unlisted:
            raise core.Inconclusive("model and real process disagree (%d problems), e.g.\n%s" % (
                len(lines), "\n".join(lines[:5])))
        ctx.log("model/real disagreements next to unlisted real violations: %d (see notes)" % len(lines))
    real = sorted(ctx.viol.keys())
    ctx.extra["confirmed_signatures"] = real
    ctx.exhaustive = True
    ctx.rule = ("every scenario of FmtCrash.tla's Scenarios set (file kind x mode x path form x flags [x TMPDIR on "
                "another device], modes with group/other write bits rotated over them, path = symbolic link abs/rel "
                "given directly / found by the walk); per scenario the fault-free run and one run per FS-mutating call with an error "
                "injected at it; per recorded trace every prefix (crash point before/after each call) and the final "
                "state; a crash point counts as distinct by (scenario, injected fault, number of calls done)")
    ctx.assumptions += [
        "crash = SIGKILL of the process (page cache survives): no fsync/power-loss reordering is modelled",
        "rename(2) and unlink(2) are atomic; a killed call did not happen (strace kills at syscall entry)",
        "one sample source per file kind (.xgo .gox .go), single write chunk in real runs (chunks 1..3 only in the design model)",
        "--mvgo moves the file on purpose: judged as (old name = original) or (new name = formatted); its mode is reported as drift only",
        "umask 022 (fixed by the harness, part of the model: open/creat apply mode & ~umask, chmod does not), Linux, run as the current user",
        "a path that is a symbolic link is judged through the path: replacing the link by a regular file is accepted",
    ]
