"""C37 -- Go/XGo declaration trees convert without loss (ast/fromgo/gopast.go, ast/togo/goast.go).

Spec specs/gosyn/DeclRoundTrip.tla (extends GoSyntax.tla, declaration foci c and d): the abstract object is the
header of the declarations (the model tree with bodies emptied); FromGo and ToGo are modelled as maps driven by
the table of node kinds and fields each converter handles (written from the code) and must be stuttering steps
on the abstract object.  TLC checks the strict refinement with the converters in the repaired position
(DeclRoundTrip_fixed.cfg: Lossless, NoPanic) and, for the switches that describe the tree under test, that every
loss/panic of the model is explained by a named deviation; it exports each declaration list with the predicted
outcome.  The harness runs go/parser -> fromgo.ASTFile -> togo.ASTFile on the rendered file and compares
go/printer of every declaration header with the original's (oracle S); prediction != observation is DRIFT.
Every .go file of the tree under test and of a GOROOT/src subset goes through the same comparator (corpus).
"""
import json
import os

from vlib import core

from . import gosyn_common as g

LEVEL = "model_checking"


def probe_switches(ctx, h):
    """Which named deviations does the tree under test have?  Three canonical declarations are converted by
    the real code; the answers set the model's switches, so that the model stays the faithful description of
    the tree under test (with or without the proposed repair) and everything else it predicts is a genuine
    generalisation that the replay checks."""
    res = ctx.run_harness(h, ["probe37"], None)
    for r in res:
        if r.get("v") == "summary":
            ctx.extra.pop("TogoCopiesTypeParams", None)
            return {"TP": "TRUE" if r.get("TogoCopiesTypeParams") else "FALSE",
                    "IL": "TRUE" if r.get("TogoHandlesIndexList") else "FALSE",
                    "NN": "TRUE" if r.get("NilForNoNames") else "FALSE"}
    raise core.Inconclusive("probe37 gave no answer")


def run(ctx):
    cases = os.path.join(ctx.scratch, "cases.ndjson")
    h = ctx.build_harness("gosynh")
    if ctx.replay:
        rec = ctx.replay.get("case_record")
        if rec and rec.get("line"):
            open(cases, "w").write(rec["line"] + "\n")
            ctx.tally(ctx.run_harness(h, ["c37"], cases), cases_path=cases)
        else:
            g.run_corpus(ctx, h, "corpus37", [ctx.replay["case"]["file"]], "replay")
        return
    open(cases, "w").close()
    sw = probe_switches(ctx, h)
    ctx.extra["model_switches"] = sw
    ctx.log("converter switches of the tree under test: %s" % json.dumps(sw))
    d = {"defines": sw}
    if ctx.tier == "quick":
        jobs = [("DeclRoundTrip_fixed.cfg", {}), ("DeclRoundTrip_quick.cfg", d)]
    else:
        jobs = [("DeclRoundTrip_fixed.cfg", {}), ("DeclRoundTrip_thorough.cfg", d)]
    g.run_cfgs(ctx, "DeclRoundTrip", jobs, cases, parallel=2)
    n = g.dedupe_and_check_unambiguous(ctx, cases)
    ctx.log("%d distinct declaration lists" % n)
    res = ctx.run_harness(h, ["c37"], cases, timeout_s=2400)
    ctx.tally(res, cases_path=cases)
    g.run_corpus(ctx, h, "corpus37", [g.repo()], "repo")
    sub = g.GOROOT_QUICK if ctx.tier == "quick" else g.GOROOT_THOROUGH
    g.run_corpus(ctx, h, "corpus37", [os.path.join(g.goroot_src(), x) for x in sub], "goroot")
    ctx.exhaustive = True
    ctx.rule = ("every declaration list derivable within the Budget of the declaration/generic cfgs of specs/gosyn (funcs with "
                "receivers, variadic/named/unnamed params and results, every type expression, type/alias/const-iota/var groups, "
                "values incl. func literals and composite literals, type parameters, constraints, instantiations); "
                "distinct/non-trivial = distinct set of node kinds; corpus files are counted separately (corpus_*)")
    ctx.assumptions += [
        "header = declaration with function bodies emptied (both converters drop bodies on purpose), comments and positions ignored",
        "the model's converter switches are set from three probe declarations converted by the tree under test",
        "each declaration is converted on its own (one File per declaration), so one unsupported declaration does not hide the others",
    ]
