"""C19 -- formatting preserves the syntax tree (format.Source; printer/nodes.go, printer/printer.go).

Spec specs/fmt/Layout.tla on top of specs/syntax/Syntax.tla: trees (expressions of every focus wrapped in a
statement, statement / declaration / class-file templates, the all-kinds samples), AST mutations (wrap in
parentheses, swap operands, change operator), base layouts, gap deviations, comments.  TLC proves on the
model that every enumerated presentation re-scans to the tree's token sequence and exports it; the harness
renders it, checks the model against the real scanner and parser, formats, re-parses and compares the trees
(reflection walk over every field except positions / comments; imports compared as sets per declaration).
"""
from . import fmt_common

LEVEL = "model_checking"


def run(ctx):
    fmt_common.run_prop(
        ctx, "c19",
        ["Layout_c19_quick_trees.cfg", "Layout_c19_quick_stmts.cfg", "Layout_c19_quick_mut.cfg", "Layout_c19_quick_cm.cfg",
         "Layout_c19_quick_imports.cfg"],
        ["Layout_c19_thorough_trees.cfg", "Layout_c19_thorough_arg.cfg", "Layout_c19_thorough_stmts.cfg",
         "Layout_c19_thorough_mut.cfg", "Layout_c19_thorough_cm.cfg", "Layout_c19_quick_imports.cfg"])
    ctx.rule = ("every tree of the cfg's families (expression trees of each focus of Syntax.tla up to Sizes[f] nodes wrapped in a "
                "statement; statement / declaration / class-file templates over the expression pool; samples) x every single AST "
                "mutation x base layout x gap deviations x comment placements within the cfg's bounds; "
                "distinct/non-trivial = distinct (tree, layout skeleton); plus every corpus file that parses (counted separately)")
