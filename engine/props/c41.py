"""C41 -- closing a fake connection unblocks pending I/O (x/fakenet Conn).

Design spec specs/conc/FakeNet.tla: callers of do (two selects), the two feeder goroutines (run),
Close (close(done) of both feeders, then in.Close / out.Close), unbuffered channels with Go's
poll/park select semantics, underlying reader / writer as an environment that may block for ever.
TLC checks WholePayloads, SuccessDelivered, ReadInOrder, ResultToOwner, AfterCloseEOF, AfterCloseNoIO
exhaustively and CloseUnblocks / CloseReturns (every pending do returns once Close is called) under
weak fairness of callers and closers only.

Binding (harness/cmd/conch fakenet-stress): seeded runs of a real connection over harness-controlled
blocking streams; the statement of C41 is evaluated directly on the recorded calls (oracle S: whole
payloads once and in order at the underlying writer, Read data = stream pieces in order, (0, EOF) for
every call started after Close returned, every call back within 2 s of Close returning) and every
trace is validated by TLC against FakeNetTrace.tla with the channel steps silent (oracle M).
"""
import json
import os
import threading
from concurrent.futures import ThreadPoolExecutor

from vlib import core
from props import c40 as tv

LEVEL = "model_checking"

# an unexplained line of these kinds is something the property pins (call results, bytes on the wire)
PINNED = {("write", "end"), ("read", "end"), ("uw", "enter"), ("final", "-")}


def classify(trace, off):
    ev = json.loads(trace[off])
    op, ph = ev.get("op"), ev.get("ph")
    if op in ("write", "read") and ph == "end":
        return "%s-result:%s:%s" % (op, "n0" if ev.get("n") == 0 else "n+", ev.get("err"))
    if op == "uw" and ph == "enter":
        return "wire:" + ("unknown-payload" if ev.get("k") == "?" else "payload-not-the-pending-request")
    return "%s-%s" % (op, ph)


def judge_chunk(ctx, traces, tag):
    """-> {i: (verdict, sig, detail)}; a pinned rejection ends the batch, an unpinned one (drift) is
    skipped and the rest is validated (at most 3 times)."""
    verdict = {}
    base = 0
    for attempt in range(4):
        if base >= len(traces):
            break
        r = tv.validate_chunk(ctx, "conc", "FakeNetTrace", "FakeNetTrace.cfg", traces[base:], "%s-%d" % (tag, attempt),
                              max_rejects=1)
        bad = None
        for k in range(len(traces) - base):
            v = r.get(k)
            if v is None:
                verdict[base + k] = ("ok", None, None)
            elif v == "unvalidated":
                verdict[base + k] = ("unvalidated", None, None)
            else:
                bad = base + k
        if bad is None:
            break
        off, line = r[bad - base]
        ev = json.loads(line)
        cls = classify(traces[bad], off)
        ctxt = "\n".join(traces[bad][max(0, off - 30):off + 1])
        if (ev.get("op"), ev.get("ph")) in PINNED:
            verdict[bad] = ("viol", "trace:" + cls, "first line FakeNetTrace cannot explain is %d: %s\n%s" % (off, line, ctxt))
            break
        verdict[bad] = ("drift", "design:" + cls, "FakeNetTrace stops at line %d: %s" % (off, line))
        base = bad + 1
    return verdict


def run(ctx):
    quick = ctx.tier == "quick"
    if ctx.replay:   # --replay: the seeded campaign of the recorded tier/seed against the current tree
        quick = (ctx.replay.get("tier") or ctx.tier) == "quick"
        ctx.seed = int(ctx.replay.get("seed") or ctx.seed)
    errs = []

    def guard(f):
        def g():
            try:
                f()
            except BaseException as e:  # noqa
                errs.append(e)
        return g

    def mc_safety():
        for cfg in (["FakeNet_quick.cfg", "FakeNet_quick2.cfg"] if quick else ["FakeNet_quick2.cfg", "FakeNet_thorough.cfg", "FakeNet_thorough2.cfg"]):
            ctx.tlc("conc", "FakeNet", cfg, workers=3 if quick else 5, timeout_s=3000)

    def mc_live():
        ctx.tlc("conc", "FakeNet", "FakeNet_quick_live.cfg" if quick else "FakeNet_thorough_live.cfg",
                workers=2, timeout_s=3000)

    if not (os.environ.get("VERIF_DEV_SKIP_MC") or ctx.replay):      # development aid (mutant runs): binding only
        ths = [threading.Thread(target=guard(f)) for f in (mc_safety, mc_live)]
        for t in ths:
            t.start()
    else:
        ths = []

    h = ctx.build_harness("conch")
    n = 300 if quick else 3000
    res = ctx.run_harness(h, ["fakenet-stress", "-n", str(n)], None, timeout_s=3000)
    trs = tv.split_traces(os.path.join(ctx.scratch, "ftraces-stress.ndjson"))
    for t in ths:
        t.join()
    if errs:
        raise errs[0]

    results, traces, metas = [], [], []
    for r in res:
        v = r.get("v")
        if v == "overload":
            raise core.Inconclusive("C41: " + r.get("detail", "overload"))
        if v == "summary":
            for k, val in r.items():
                if k != "v":
                    ctx.extra[k] = ctx.extra.get(k, 0) + val
        elif v == "viol":
            tv.record_violation(ctx, r["sig"], r.get("detail", "") + "\n" + "\n".join(trs[r["id"]][-60:]), r.get("input"),
                                {"mode": "stress", "line": trs[r["id"]]})
            ctx.evaluations += 1
            ctx.validated += 1
        elif v == "trace":
            traces.append(trs[r["id"]])
            metas.append(r)
    ctx.log("runs: %d passed the executable statement; traces to validate with TLC: %d (%d lines)" % (
        len(traces), len(traces), sum(len(t) for t in traces)))

    verdict = {}
    if traces:
        k = max(1, min(6, len(traces)))
        size = (len(traces) + k - 1) // k
        starts = list(range(0, len(traces), size))
        lock = threading.Lock()

        def work(start):
            try:
                r = judge_chunk(ctx, traces[start:start + size], "f%d" % start)
                with lock:
                    for i, v in r.items():
                        verdict[start + i] = v
            except BaseException as e:  # noqa
                errs.append(e)
        with ThreadPoolExecutor(max_workers=k) as ex:
            list(ex.map(work, starts))
        if errs:
            raise errs[0]
    nacc = 0
    for i, m in enumerate(metas):
        v, sig, detail = verdict.get(i, ("unvalidated", None, None))
        if v == "ok":
            nacc += 1
            results.append({"v": "ok", "nt": m.get("nt"), "input": {"events": m.get("events"), "shape": m.get("nt")},
                            "detail": "statement holds on the recorded calls; trace accepted by FakeNetTrace"})
        elif v == "drift":
            results.append({"v": "drift", "sig": sig, "detail": detail, "nt": m.get("nt")})
        elif v == "viol":
            tv.record_violation(ctx, sig, detail, {"shape": m.get("nt")}, {"mode": "stress", "line": traces[i]})
            ctx.evaluations += 1
            ctx.validated += 1
        else:
            ctx.extra["traces_left_unvalidated_after_a_violation"] = ctx.extra.get("traces_left_unvalidated_after_a_violation", 0) + 1
    ctx.tally(results)
    ctx.extra["traces_accepted"] = nacc
    ctx.exhaustive = False
    ctx.rule = ("seeded free-running runs of a real connection: 1-3 writers x 2-4 Writes (3-8 bytes), 1-2 readers x 2-4 Reads "
                "(1-6 byte buffers), 1-2 concurrent Close calls placed after a random number of logged events, one call per "
                "goroutine started after Close returned; underlying reader stalls for ever in 1/3 of the runs, underlying "
                "writer in 1/4, their Close unblocks a pending call in 1/2; distinct = distinct (participants, stall modes, "
                "unblock modes) shape")
    ctx.assumptions += [
        "schedules of the real connection are sampled (seeded, perturbed by the verif yield hook before each select), "
        "not enumerated; exhaustiveness is on the model",
        "'promptly' = within 2 s of Close returning; a call that is runnable but not back is load (exit 2), a call "
        "still parked on a channel is a violation",
        "a pending call may return its genuine result when its rendezvous preceded close(done) (allowed by the model)",
    ]
