"""C16 -- the XGo scanner agrees with go/scanner on Go lexemes (scanner/scanner.go vs go/scanner).

Spec specs/lex/Scanner.tla run as the product of dialect "xgo" and dialect "go": TLC enumerates
(a) every string up to a length bound over alphabets made of Go lexeme characters (numeric and
string spellings, operators, comments, semicolon rules) and (b) Go lexeme sequences with
separators "", " ", "\n", comments, and exports the model's token stream in both dialects and
comment modes.  Oracle D: the harness runs the real XGo scanner and the real go/scanner on every
input of the domain (go/scanner finds no ILLEGAL character, no XGo string prefix) and alarms on any
disagreement in kinds, offsets, literals, inserted semicolons, EOF offset or error offsets.  The
model is bound per stream (DRIFT) and must explain every divergence (same signature from the two
model streams, DRIFT if not).
"""
import os

from vlib import core

LEVEL = "model_checking"

QUICK = ["goone", "gomix", "div", "linedir", "ops", "semis", "cmt", "num1", "num2", "quoted"]
THOROUGH = ["gomix", "gopairs", "ops", "semis", "num1", "num2", "num6", "quoted", "quoted6"]


def fold(ctx, res):
    summ = [r for r in res if r.get("v") == "summary"]
    if len(summ) != 1:
        raise core.Inconclusive("harness wrote %d summary records (expected 1): dead driver" % len(summ))
    s = summ[0]
    ok, skip, viol, drift = s["agg_ok"], s["agg_skip"], s["agg_viol"], s["agg_drift"]
    ctx.evaluations = ok + skip + viol + drift
    ctx.skipped = skip
    ctx.validated = ok + viol + drift
    ctx.viol_count = viol
    ctx.drift = dict(s.get("drift_signatures", {}))
    ctx.nontrivial = set(range(s.get("agg_nt", 0)))
    for k in ("agg_ok", "agg_skip", "agg_viol", "agg_drift", "agg_nt"):
        ctx.extra.pop(k, None)


def run(ctx):
    cases = os.path.join(ctx.scratch, "cases.ndjson")
    workers = int(os.environ.get("VERIF_TLC_WORKERS") or 8)
    if ctx.replay:
        # a replay file holds one case line; the harness needs every dialect/mode record of that input
        # only for the drift checks, the verdict comes from the two real scanners
        open(cases, "w").write(ctx.replay["case_record"]["line"] + "\n")
    else:
        for g in QUICK:
            ctx.tlc("lex", "Scanner", "Scanner_c16_quick_%s.cfg" % g, cases_path=cases, timeout_s=3600, workers=workers)
        if ctx.tier == "thorough":
            for g in THOROUGH:
                ctx.tlc("lex", "Scanner", "Scanner_c16_thorough_%s.cfg" % g, cases_path=cases, timeout_s=14400,
                        workers=workers)
    h = ctx.build_harness("lexh")
    res = ctx.run_harness(h, ["c16"], cases, timeout_s=3600)
    ctx.tally(res, cases_path=cases)
    if not ctx.replay:
        fold(ctx, res)
    ctx.exhaustive = True
    ctx.rule = ("every string up to the per-alphabet bound over Go-lexeme alphabets (numeric and quoted spellings <= 4, "
                "thorough <= 5-6; operators <= 3/4; comments and semicolon rules <= 5/6) and Go lexeme sequences "
                "(every lexeme of the pool x 8 separators; pairs/triples over the semicolon-relevant pool; thorough: every "
                "pair of the full pool x 3 separators); each input judged once, in both comment modes; "
                "distinct = distinct token-kind sequence of go/scanner")
    ctx.assumptions += ["reference = go/scanner of the installed toolchain (go1.23)",
                        "domain predicate: go/scanner returns no ILLEGAL token and no identifier c/C/py is followed by a double quote",
                        "error reports are compared as sets of offsets"]
