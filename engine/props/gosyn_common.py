"""Shared by the Go-syntax family drivers (C14, C37): run several cfgs of specs/gosyn concurrently,
collect their CASE records, cross-check the model's unambiguity on the exported cases, list corpora."""
import json
import os
import subprocess
import threading

from vlib import core
from vlib import tlc as tlcmod


def repo():
    return os.path.realpath(os.environ.get("VERIF_REPO", "/repo"))


def run_cfgs(ctx, module, jobs, cases_path, parallel=3, workers=None):
    """jobs: list of (cfg, kwargs for run_tlc).  Up to `parallel` TLC processes at a time, each with
    `workers` workers (at most 8 TLC workers in total).  CASE records are concatenated into cases_path in
    job order.  Any model-level error (an invariant / ASSUME of the model violated, TLC failure, time-out)
    is exit 2."""
    if workers is None:
        total = int(os.environ.get("VERIF_TLC_WORKERS") or 8)
        workers = max(1, min(total, 8) // parallel)
    results = [None] * len(jobs)
    sem = threading.Semaphore(parallel)

    def one(i):
        cfg, kw = jobs[i]
        part = "%s.part%d" % (cases_path, i)
        open(part, "w").close()
        kw = dict(kw)
        kw.setdefault("workers", workers)
        kw.setdefault("timeout_s", 1700)
        with sem:
            try:
                results[i] = (tlcmod.run_tlc("gosyn", module, cfg, cases_path=part, **kw), part)
            except Exception as e:  # tool failure
                results[i] = (e, part)

    threads = [threading.Thread(target=one, args=(i,)) for i in range(len(jobs))]
    for t in threads:
        t.start()
    for t in threads:
        t.join()
    with open(cases_path, "a") as out:
        for (cfg, kw), (r, part) in zip(jobs, results):
            if isinstance(r, Exception):
                raise core.Inconclusive("TLC could not be run on %s/%s: %s" % (module, cfg, r))
            ctx.tlc_runs.append({"module": module, "cfg": cfg, "generated": r.generated, "distinct": r.distinct,
                                 "cases": r.cases, "wall_s": round(r.wall, 1), "violated": r.violated})
            ctx.states += r.distinct if r.distinct else r.generated
            ctx.transitions += r.generated
            ctx.log("TLC %s/%s: generated=%d distinct=%d cases=%d %.1fs%s" % (
                module, cfg, r.generated, r.distinct, r.cases, r.wall, " VIOLATED " + r.violated if r.violated else ""))
            if r.timeout:
                raise core.Inconclusive("TLC timed out on %s/%s" % (module, cfg))
            if not r.ok:
                raise core.Inconclusive("TLC failed on %s/%s (model-level error: lead, not a verdict):\n%s" % (
                    module, cfg, r.log_tail))
            with open(part) as f:
                for line in f:
                    out.write(line)
            os.unlink(part)


def dedupe_and_check_unambiguous(ctx, cases_path):
    """Model-level cross-check on everything exported in this run (the TLC-checked ASSUME covers the
    moderate bounds only): the same rendered text must never belong to two different model trees.
    Exact duplicates (the same case reached from two cfgs or twice by simulation) are dropped."""
    seen = {}
    bytoks = {}
    kept = 0
    tmp = cases_path + ".dedup"
    with open(cases_path) as f, open(tmp, "w") as out:
        for line in f:
            line = line.strip()
            if not line:
                continue
            rec = json.loads(line)
            key = (rec.get("wrap"), "\x00".join(rec.get("text", [])))
            sx = "\x00".join(rec.get("sx", []))
            tkey = (rec.get("wrap"), "\x00".join(rec.get("text", [])[0::2]))
            if bytoks.setdefault(tkey, sx) != sx:
                raise core.Inconclusive("the model grammar is ambiguous: one token sequence, two trees: %r" % (rec.get("text")[0::2],))
            if key in seen:
                if seen[key] != sx:
                    raise core.Inconclusive("the model grammar is ambiguous: one token text, two trees: %r" % (rec.get("text"),))
                continue
            seen[key] = sx
            out.write(line + "\n")
            kept += 1
    os.replace(tmp, cases_path)
    return kept


def goroot_src():
    p = subprocess.run(["go", "env", "GOROOT"], capture_output=True, text=True, env=core.goenv())
    return os.path.join(p.stdout.strip(), "src")


GOROOT_QUICK = ["strings", "bytes", "sort", "strconv", "container", "bufio", "errors", "path", "unicode", "flag", "io",
                "text/tabwriter", "text/scanner"]
GOROOT_THOROUGH = GOROOT_QUICK + ["encoding", "text", "time", "math", "os", "fmt", "go", "net/http", "reflect", "sync",
                                  "slices", "maps", "regexp", "archive", "compress", "html", "image", "log", "mime",
                                  "database", "context", "crypto", "runtime"]


def run_corpus(ctx, binary, mode, roots, label):
    """Feed every .go file under roots to the comparator; counted separately in the evidence."""
    roots = [r for r in roots if os.path.exists(r)]
    res = ctx.run_harness(binary, [mode] + roots, None, timeout_s=1700)
    n_ok = sum(1 for r in res if r.get("v") == "ok")
    n_skip = sum(1 for r in res if r.get("v") == "skip")
    n_viol = sum(1 for r in res if r.get("v") == "viol")
    skips = {}
    for r in res:
        if r.get("v") == "skip":
            skips[r.get("sig", "skip")] = skips.get(r.get("sig", "skip"), 0) + 1
    ctx.extra["corpus_" + label] = {"files": len(res), "same": n_ok, "skipped": n_skip, "skips": skips,
                                    "disagreements_judged": n_viol}
    ctx.log("corpus %s: %d files, %d agree, %d skipped %s, %d judged disagreements" % (
        label, len(res), n_ok, n_skip, json.dumps(skips), n_viol))
    for r in res:
        # a corpus result has no CASE line; keep the file name as the replay input
        r.pop("idx", None)
    ctx.tally(res)
    return res
