"""C06 -- compiler success implies valid, well-typed Go output.

Inputs come from specs/gocore/GoCore.tla: ProgGen programs rendered with XGo sugar (success cases)
and Mutate (Part IV): every (kind, site) type-level mutation -- and every pair for the small `pair`
family -- of small programs.  The harness compiles each package with xgolib.Compile; when the
compiler reports success the written Go goes through go/parser, go/types (in-process) and `go build`
(packages as sub-directories of one scratch module).  One outcome trace per package is recorded and
TLC validates the concatenated traces against specs/gocore/Contract.tla (Prop = "c06"); the set of
traces the contract rejects must be exactly the set of cases the harness reports.
"""
import json
import os
from concurrent.futures import ThreadPoolExecutor

from vlib import core

LEVEL = "translation_validation"


def validate_traces(ctx, prop, scratch_trace, rejected_path):
    """TLC replays the recorded outcome traces against Contract.tla; returns the CASE record."""
    out = os.path.join(ctx.scratch, "contract-%s.ndjson" % prop)
    ctx.tlc("gocore", "Contract", "Contract_model_%s.cfg" % prop, timeout_s=600, workers=4)
    ctx.tlc("gocore", "Contract", "Contract_trace_%s.cfg" % prop, cases_path=out, timeout_s=1800, workers=1,
            extra_files=[scratch_trace])
    recs = [json.loads(l) for l in open(out)] if os.path.exists(out) else []
    if len(recs) != 1:
        raise core.Inconclusive("Contract.tla did not reach the end of the trace file (%d summary records)" % len(recs))
    rec = recs[0]
    want = sorted(json.load(open(rejected_path)))
    got = sorted(rec["bad"])
    ctx.extra["traces_validated_by_tlc"] = rec["traces"]
    ctx.extra["trace_events"] = rec["events"]
    ctx.extra["traces_rejected_by_contract"] = len(got)
    if got != want:
        raise core.Inconclusive("contract/harness disagreement: TLC rejects traces %s, the harness reported %s" % (
            [x for x in got if x not in want][:10], [x for x in want if x not in got][:10]))
    return rec


def run(ctx):
    cases = os.path.join(ctx.scratch, "cases.ndjson")
    if ctx.replay:
        open(cases, "w").write(ctx.replay["case_record"]["line"] + "\n")
    else:
        t = "c06q" if ctx.tier == "quick" else "c06t"
        names = ["sugar", "sugar2", "mut1", "mut2"] if ctx.tier == "quick" else ["sugar", "mut1", "mut2"]
        parts = [os.path.join(ctx.scratch, "cases-%s.ndjson" % n) for n in names]

        def one(k):
            ctx.tlc("gocore", "GoCore", "GoCore_%s_%s.cfg" % (t, names[k]), cases_path=parts[k], timeout_s=2400, workers=2)
        with ThreadPoolExecutor(4) as ex:
            list(ex.map(one, range(len(names))))
        with open(cases, "w") as out:
            for p in parts:
                out.write(open(p).read())
    h = ctx.build_harness("gocoreh")
    env = {"VERIF_C06_BUILDS": "120" if ctx.tier == "quick" else "1500"}
    if os.environ.get("VERIF_CORRUPT_TRACE"):
        env["VERIF_CORRUPT_TRACE"] = "1"
    res = ctx.run_harness(h, ["c06"], cases, timeout_s=3000, env=env)
    ctx.tally(res, cases_path=cases)
    validate_traces(ctx, "c06", os.path.join(ctx.scratch, "trace.ndjson"), os.path.join(ctx.scratch, "rejected.json"))
    ctx.programs = ctx.validated
    ctx.disagreements_checked = int(ctx.extra.get("compiled_ok", 0))
    ctx.exhaustive = False
    ctx.rule = ("ProgGen programs of the listed families rendered with XGo sugar (echo/println command calls, list/map "
                "literals, for-in, lambdas, string interpolation, class-free script, errwrap and comprehension trailer) "
                "plus every single type-level mutation (9 kinds x all sites) of the `mut` families and every pair of "
                "mutations of the `pair` family; distinct/non-trivial = distinct (family, sugar, mutation kinds, statement kinds)")
    ctx.assumptions += [
        "go/types with export data of the local tool chain is run on every successfully compiled package; `go build` on "
        + ("a seeded sample of %s of them" % ("120" if ctx.tier == "quick" else "1500")),
        "a compile that panics inside xgolib.Compile counts as an error outcome here (C07 judges panics)",
    ]
