"""C32 -- the TPL scanner tokenises like the XGo scanner (tpl/scanner/scanner.go vs scanner/scanner.go).

Spec specs/lex/Scanner.tla run as the product of dialect "tpl" and dialect "xgo": TLC enumerates
every string up to a length bound over alphabets of shared lexeme characters (numbers incl. unit
suffixes, strings/runes, shared operators, //, /* */ and # comments, semicolon rules) and shared
lexeme sequences with separators, and exports the model's stream in both dialects and comment
modes.  Oracle D (reference = the XGo scanner): the harness runs both real scanners on every input of
the shared domain (no ILLEGAL character in either, no XGo keyword, no prefixed string) and alarms on
any disagreement in boundaries, kinds, literals, inserted semicolons.  The model is bound per stream
(DRIFT) and must explain every divergence.
"""
import os

from vlib import core

LEVEL = "model_checking"

QUICK = ["shone", "shmix", "linedir", "ops", "semis", "cmt", "num1", "num2", "quoted"]
THOROUGH = ["shmix", "shpairs", "ops", "semis", "cmt", "num1", "num2", "quoted"]


def fold(ctx, res):
    summ = [r for r in res if r.get("v") == "summary"]
    if len(summ) != 1:
        raise core.Inconclusive("harness wrote %d summary records (expected 1): dead driver" % len(summ))
    s = summ[0]
    ok, skip, viol, drift = s["agg_ok"], s["agg_skip"], s["agg_viol"], s["agg_drift"]
    ctx.evaluations = ok + skip + viol + drift
    ctx.skipped = skip
    ctx.validated = ok + viol + drift
    ctx.viol_count = viol
    ctx.drift = dict(s.get("drift_signatures", {}))
    ctx.nontrivial = set(range(s.get("agg_nt", 0)))
    for k in ("agg_ok", "agg_skip", "agg_viol", "agg_drift", "agg_nt"):
        ctx.extra.pop(k, None)


def run(ctx):
    cases = os.path.join(ctx.scratch, "cases.ndjson")
    workers = int(os.environ.get("VERIF_TLC_WORKERS") or 8)
    if ctx.replay:
        open(cases, "w").write(ctx.replay["case_record"]["line"] + "\n")
    else:
        for g in QUICK:
            ctx.tlc("lex", "Scanner", "Scanner_c32_quick_%s.cfg" % g, cases_path=cases, timeout_s=3600, workers=workers)
        if ctx.tier == "thorough":
            for g in THOROUGH:
                ctx.tlc("lex", "Scanner", "Scanner_c32_thorough_%s.cfg" % g, cases_path=cases, timeout_s=14400,
                        workers=workers)
    h = ctx.build_harness("lexh")
    res = ctx.run_harness(h, ["c32"], cases, timeout_s=3600)
    ctx.tally(res, cases_path=cases)
    if not ctx.replay:
        fold(ctx, res)
    ctx.exhaustive = True
    ctx.rule = ("every string up to the per-alphabet bound over shared-lexeme alphabets (numeric incl. unit suffixes and "
                "quoted spellings <= 4/5, operators <= 3/4, comments incl. # and semicolon rules <= 5/6) and shared lexeme "
                "sequences (every lexeme x 13 separators incl. # comments; pairs/triples over the semicolon-relevant pool; "
                "thorough: every pair of the full pool x 3 separators); each input judged once, in both comment modes; "
                "distinct = distinct token-kind sequence of the XGo scanner")
    ctx.assumptions += ["domain predicate: neither scanner returns ILLEGAL, the XGo scanner returns no keyword and no c\"/py\" string",
                        "error reports are not part of the statement of C32: differences are counted (error_offset_differences_outside_statement), not judged"]
