"""C35 -- project arguments are partitioned in order (x/xgoprojs ParseAll / ParseOne).

Spec specs/cfg/Projs.tla: ParseAll as a fold of ParseOne actions; TLC enumerates every argument
list up to MaxLen over the representative pool, checks the partition theorems on the model, and
exports (args, projects, mixed).  The harness replays each list into ParseAll and each model step
into ParseOne.
"""
import os

LEVEL = "model_checking"


def run(ctx):
    cases = os.path.join(ctx.scratch, "cases.ndjson")
    if ctx.replay:
        open(cases, "w").write(ctx.replay["case_record"]["line"] + "\n")
    else:
        cfgs = ["Projs_quick.cfg", "Projs_quick2.cfg"] if ctx.tier == "quick" else ["Projs_quick.cfg", "Projs_thorough.cfg"]
        for cfg in cfgs:
            ctx.tlc("cfg", "Projs", cfg, cases_path=cases, timeout_s=900)
    h = ctx.build_harness("cfgh")
    res = ctx.run_harness(h, ["projs"], cases)
    ctx.tally(res, cases_path=cases)
    ctx.exhaustive = True
    ctx.rule = ("every argument list up to the cfg's MaxLen over the representative argument pool of "
                "specs/cfg/Projs.tla (files, dirs, package paths, edge spellings); non-trivial/distinct = "
                "distinct sequence of (project kind, size) in the expected partition")
    ctx.assumptions += ["argument classes are represented by the pool in Projs.tla (17 spellings)",
                        "Linux path separator"]
