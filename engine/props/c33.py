"""C33 -- token spellings round-trip through the scanners (token/token.go, tpl/token/token.go).

Spec specs/lex/Tokens.tla: both token tables as TLA+ constants (name, spelling, class, precedence,
isOperator) on top of the scanner model of specs/lex/Scanner.tla.  TLC enumerates every operator and
keyword of both tables, checks the table-level consistency conditions and runs the scanner model on
each spelling.  The harness evaluates the statement on the real code for every token (scan of the
spelling, String, Lookup, Len, Precedence => IsOperator); table differences spec <-> code are DRIFT.
"""
import os

LEVEL = "model_checking"


def run(ctx):
    cases = os.path.join(ctx.scratch, "cases.ndjson")
    if ctx.replay:
        open(cases, "w").write(ctx.replay["case_record"]["line"] + "\n")
    else:
        cfg = "Tokens_quick.cfg" if ctx.tier == "quick" else "Tokens_thorough.cfg"
        ctx.tlc("lex", "Tokens", cfg, cases_path=cases, timeout_s=900, workers=4)
    h = ctx.build_harness("lexh")
    res = ctx.run_harness(h, ["c33"], cases)
    ctx.tally(res, cases_path=cases)
    ctx.exhaustive = True
    ctx.rule = ("every operator/delimiter and keyword token of token/token.go (54 + 25) and every operator token of "
                "tpl/token/token.go (54), one case each; distinct = (table, token)")
    ctx.assumptions += ["the harness maps the spec's token names to the Go constants by a hand-written table; "
                        "a token added to the code but not to Tokens.tla is reported as DRIFT, not judged"]
