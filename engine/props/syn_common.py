"""Shared by the syntax-family drivers (C22, C17, C18): run specs/syntax/Syntax.tla on a cfg and collect
the CASE records."""
import os


def run_syntax(ctx, cases_path, cfg=None, timeout_s=1700):
    """TLC on Syntax_<tier>.cfg (or the given cfg); CASE records go to cases_path.
    Any model-level error (an invariant of the model violated, TLC failure) is exit 2: ctx.tlc raises."""
    cfg = cfg or os.environ.get("VERIF_SYNTAX_CFG") or "Syntax_%s.cfg" % ctx.tier   # (the env override is for development only)
    workers = int(os.environ.get("VERIF_TLC_WORKERS") or 8)
    return ctx.tlc("syntax", "Syntax", cfg, cases_path=cases_path, timeout_s=timeout_s, workers=workers)


def repo():
    return os.path.realpath(os.environ.get("VERIF_REPO", "/repo"))
