"""C09 -- line directives map every statement / function back to its XGo source line.

Spec specs/sem2/LineMap.tla: a layout machine writes one XGo file line by line (function items with
one body statement, then a case function with statement items, then forward-declared helpers;
ordinary .xgo files and normal .gox class files whose funcs are class methods; probe calls inside
case / comm clause expressions (tagged and tagless switch, select); cl.Config.RelativeBase unset / the
file's directory / a sibling directory sharing a name prefix / an unrelated directory (file names);
gaps of 0..2 blank/comment lines, a comment run directly above `func`/`var` being its doc comment)
and records for every probe call `where(id)` the line the property demands (first line of the
statement the call belongs to) next to the line the model of today's code predicts (named deviation
LazyClobber).  TLC checks the bookkeeping theorems on the model (IdsOnce, StmtStart, Monotone,
DocAdjacent, Balanced, DeviationsNamed, HelpersDeclared) and exports every layout.  harness sem2h
linemap renders each line descriptor to one source line, compiles with file-line output ON (and
parser.ParseComments, as tool/load.go does), builds, runs; runtime.Caller(1) of every probe and the
DWARF decl_line of every function item are compared with the model.
"""
import os

LEVEL = "translation_validation"


def run(ctx):
    cases = os.path.join(ctx.scratch, "cases.ndjson")
    if ctx.replay:
        open(cases, "w").write(ctx.replay["case_record"]["line"] + "\n")
    else:
        t = "quick" if ctx.tier == "quick" else "thorough"
        for part in ("a", "b", "c", "d", "e", "f"):
            ctx.tlc("sem2", "LineMap", "LineMap_%s_%s.cfg" % (t, part), cases_path=cases, timeout_s=1500,
                    workers=8, coverage=(ctx.tier == "thorough" and part == "b"))
    h = ctx.build_harness("sem2h")
    mode = (ctx.replay or {}).get("case_record", {}).get("mode") or "comments"
    res = ctx.run_harness(h, ["linemap", mode], cases, timeout_s=6000)
    ctx.tally(res, cases_path=cases, mode="comments")
    if ctx.tier == "thorough" and not ctx.replay:
        # second parser mode (no ParseComments: no doc groups reach the compiler) on the quick grid
        cases2 = os.path.join(ctx.scratch, "cases2.ndjson")
        for part in ("a", "b", "c", "d", "e", "f"):
            ctx.tlc("sem2", "LineMap", "LineMap_quick_%s.cfg" % part, cases_path=cases2, timeout_s=1500, workers=8)
        res2 = ctx.run_harness(h, ["linemap", "nocomments"], cases2, timeout_s=6000)
        ctx.tally(res2, cases_path=cases2, mode="nocomments")
    ctx.programs = int(ctx.extra.get("programs_built", 0))
    ctx.disagreements_checked = ctx.validated
    ctx.exhaustive = True
    ctx.rule = ("every layout the machine of LineMap.tla reaches within the cfg's bounds (item kinds x gaps x "
                "sequence length); distinct/non-trivial = distinct (sequence of probe kinds with context, gap pattern)")
    ctx.assumptions += [
        "a multi-line statement is 'written' on its first line; a doc comment is not part of the statement",
        "function entry = line of the func keyword, observed as DWARF DW_AT_decl_line of the built binary "
        "(runtime.FuncForPC(pc).FileLine(entry) reports the first statement in Go >= 1.2x, which the probes cover)",
        "deferred calls are probed by an argument evaluated at the defer statement (the deferred call itself "
        "runs at the function's closing brace by Go semantics)",
        "one file per layout inside a multi-file package; probe helpers live in a file that sorts first",
        "a case / comm clause is a statement of its own: a call in its expression is expected on the clause's line",
        "file names: the directive's file name, resolved against the Go package directory as the Go tool chain does, "
        "must be filepath.Rel(RelativeBase, file) (the absolute path when RelativeBase is unset)",
    ]
