"""Shared driver code of the formatter properties C19, C20, C21 (specs/fmt/Layout.tla, harness/cmd/fmth).

Layout.tla EXTENDS specs/syntax/Syntax.tla (owned by the syntax family, read-only for us): the engine copies
only specs/common and specs/fmt next to the spec, so Syntax.tla is handed to run_tlc as an extra file -- the
model checked is always the current Syntax.tla, no stale copy is kept in specs/fmt.
"""
import os

from vlib import core

SYNTAX = os.path.join(core.VERIF, "specs", "syntax", "Syntax.tla")
WORKERS = int(os.environ.get("VERIF_TLC_WORKERS") or 6)


def run_layout(ctx, cfgs, cases, timeout_s=2400):
    for cfg in cfgs:
        ctx.tlc("fmt", "Layout", cfg, cases_path=cases, timeout_s=timeout_s, workers=WORKERS,
                extra_files=[SYNTAX])


def run_prop(ctx, which, quick_cfgs, thorough_cfgs, corpus=True):
    cases = os.path.join(ctx.scratch, "cases.ndjson")
    if ctx.replay:
        rec = ctx.replay.get("case_record") or {}
        if not rec.get("line"):
            raise core.Inconclusive("replay file has no CASE record (corpus finding: re-run the check)")
        open(cases, "w").write(rec["line"] + "\n")
    else:
        run_layout(ctx, quick_cfgs if ctx.tier == "quick" else thorough_cfgs, cases)
    h = ctx.build_harness("fmth")
    res = ctx.run_harness(h, ["fmt", which], cases, timeout_s=3000)
    ctx.tally(res, cases_path=cases)
    if corpus and not ctx.replay:
        # repository corpus: every .xgo/.gop/.gox file that parses; counted separately, never replaces the model cases
        res = ctx.run_harness(h, ["corpus", which, core.REPO], None, timeout_s=1800)
        ctx.tally(res)
    n = ctx.extra.get("model_cases", 0)
    if not ctx.replay and (n == 0 or ctx.skipped > 0.25 * max(1, ctx.evaluations)):
        raise core.Inconclusive("too many cases outside the model's domain (%d skipped of %d): Layout.tla has drifted "
                                "from the scanner/parser" % (ctx.skipped, ctx.evaluations))
    ctx.exhaustive = True
    ctx.assumptions += [
        "identifiers / literals are those of the lexicon of Syntax.tla; comment texts are c1, c2 (single line)",
        "a case whose rendering the real scanner/parser does not read as the model's token sequence / tree is skipped and "
        "reported as drift (model-*-mismatch), never judged",
        "white space = blank / newline / blank line; no tabs, no indentation in the inputs",
    ]
