"""C07 -- the compiler never crashes or hangs on parseable input.

Inputs: (a) the type-level mutants of specs/gocore/GoCore.tla (Mutate) that still parse; (b) token-level
mutants of the corpus files under cl/_testgop and demo that the parser accepts -- the schedule
(file, edits) is enumerated by TLC from specs/gocore/TokMut.tla over the token counts of the chosen
files (all single edits; all pairs for the smallest files); (c) the partial ASTs the parser returns
together with parse errors for those mutants.  Every compile runs in a worker subprocess with a 20 s
cap; outcome in {pkg, errs, PANIC, FATAL, TIMEOUT}; error positions must resolve inside the compiled
file; x/build BuildFile / BuildFSDir are called on the same source.  Outcome traces are validated by
TLC against Contract.tla (Prop = "c07").
"""
import json
import os

from vlib import core
from props.c06 import validate_traces

LEVEL = "exploration"


def tokmut(ctx, files, maxedits, out, tag):
    if not files:
        return
    lens = "<<" + ", ".join(str(f["ntok"]) for f in files) + ">>"
    raw = os.path.join(ctx.scratch, "tokmut-%s.ndjson" % tag)
    ctx.tlc("gocore", "TokMut", "TokMut_run.cfg", cases_path=raw, timeout_s=1800, workers=4,
            defines={"LENS": lens, "MAXEDITS": maxedits})
    n = 0
    with open(out, "a") as o:
        for line in open(raw):
            rec = json.loads(line)
            rec["path"] = files[rec["file"] - 1]["path"]
            o.write(json.dumps(rec) + "\n")
            n += 1
    if maxedits == 1:
        want = sum(4 * f["ntok"] - 1 for f in files)
        if n != want:
            raise core.Inconclusive("TokMut schedule has %d single edits, expected %d" % (n, want))


def run(ctx):
    cases = os.path.join(ctx.scratch, "cases.ndjson")
    h = ctx.build_harness("gocoreh")
    if ctx.replay:
        open(cases, "w").write(ctx.replay["case_record"]["line"] + "\n")
    else:
        corpus = [r for r in ctx.run_harness(h, ["c07-corpus"], None) if "path" in r]
        if len(corpus) < 20:
            raise core.Inconclusive("corpus listing too small (%d files)" % len(corpus))
        ctx.extra["corpus_files_parsed"] = len(corpus)
        small = sorted([f for f in corpus if 4 <= f["ntok"] <= 60], key=lambda f: (f["ntok"], f["path"]))
        tiny = [f for f in small if f["ntok"] <= 13]
        open(cases, "w").close()
        if ctx.tier == "quick":
            k = (ctx.seed * 5) % max(1, len(small))
            rot = small[k:] + small[:k]
            tokmut(ctx, rot[:int(os.environ.get("VERIF_C07_FILES", "5"))], 1, cases, "s")
            if os.environ.get("VERIF_C07_MINI") != "1":      # development knob: single-edit schedule only
                tokmut(ctx, [tiny[ctx.seed % len(tiny)]], 2, cases, "p")
                ctx.tlc("gocore", "GoCore", "GoCore_c07q_mut.cfg", cases_path=cases, timeout_s=1200, workers=4)
        else:
            tokmut(ctx, [f for f in corpus if 4 <= f["ntok"] <= 160], 1, cases, "s")
            tokmut(ctx, tiny, 2, cases, "p")
            ctx.tlc("gocore", "GoCore", "GoCore_c06t_mut1.cfg", cases_path=cases, timeout_s=2400, workers=4)
    env = {}
    if os.environ.get("VERIF_CORRUPT_TRACE"):
        env["VERIF_CORRUPT_TRACE"] = "1"
    res = ctx.run_harness(h, ["c07"], cases, timeout_s=6000, env=env)
    ctx.tally(res, cases_path=cases)
    validate_traces(ctx, "c07", os.path.join(ctx.scratch, "trace.ndjson"), os.path.join(ctx.scratch, "rejected.json"))
    ctx.exhaustive = False
    ctx.rule = ("token-level mutants (delete / duplicate / swap / replace-by-same-class; every position, every pair of "
                "positions for the smallest files) of parser-accepted corpus files, plus Mutate's type-level mutants of "
                "ProgGen programs, plus the partial ASTs returned with parse errors; distinct/non-trivial = distinct "
                "(edit kinds x token classes | family x mutation kinds, parse outcome, compile outcome)")
    ctx.assumptions += [
        "cl.NewPackage is called with its default settings (internal recover enabled); a Go runtime error that cl recovers "
        "into its error list satisfies the statement and is reported as drift `masked-runtime-error`, not as a violation",
        "wall-clock cap 20 s per compile (80 s for the first compile of a worker: importer start-up)",
        "single-file packages; imports that cannot be resolved offline yield compile errors (an allowed outcome)",
    ]
