"""C13 -- the parser never panics or hangs and reports sorted errors; nil error => no Bad nodes.

Spec specs/fmt/TokenSoup.tla: the contract of a parser entry point as a state machine
(input -> parsing -> returned(tree | tree+errors) -> checked; invariants ContractShape, liveness Returns) and the
exhaustive enumeration of its inputs: every sequence of at most MaxLen tokens over an alphabet with one
spelling per token kind (full alphabet up to 2, themed reduced alphabets up to 3 / 4, C15-style glued
fragments), every separator choice.  The harness (fmth soup) feeds every exported input to ParseFile (normal,
class), ParseExprFrom/ParseExpr, ParseEntry (.xgo, .gox, main.spx) under 7 mode flags inside worker
subprocesses (stall cap 10 s per input, offender re-run alone with 120 s; a dead worker = fatal panic) and
checks the obligations of the contract on the real results.  Exploration part: seeded <= 2-edit token
mutants (delete / duplicate / swap / replace) of the repository's XGo files.
"""
import json
import os

from vlib import core

LEVEL = "model_checking"
WORKERS = int(os.environ.get("VERIF_TLC_WORKERS") or 6)


def run(ctx):
    cases = os.path.join(ctx.scratch, "cases.ndjson")
    if ctx.replay:
        rec = ctx.replay.get("case_record") or {}
        if rec.get("line"):
            open(cases, "w").write(rec["line"] + "\n")
        else:
            src = (ctx.replay.get("case") or {}).get("src")
            if src is None:
                raise core.Inconclusive("replay file carries neither a CASE record nor a source text")
            open(cases, "w").write(json.dumps({"toks": [src], "seps": [""]}) + "\n")
    else:
        if ctx.tier == "quick":
            cfgs = ["TokenSoup_quick_all2.cfg", "TokenSoup_quick_core3.cfg", "TokenSoup_quick_bytes3.cfg"]
        else:
            cfgs = ["TokenSoup_quick_all2.cfg", "TokenSoup_thorough_expr3.cfg", "TokenSoup_thorough_stmt3.cfg",
                    "TokenSoup_thorough_decl3.cfg", "TokenSoup_thorough_core4.cfg", "TokenSoup_thorough_brk5.cfg",
                    "TokenSoup_thorough_bytes4.cfg"]
        # the contract machine itself: every call returns and is checked (liveness, small bound)
        ctx.tlc("fmt", "TokenSoup", "TokenSoup_live.cfg", timeout_s=900, workers=WORKERS)
        for cfg in cfgs:
            ctx.tlc("fmt", "TokenSoup", cfg, cases_path=cases, timeout_s=2400, workers=WORKERS)
    h = ctx.build_harness("fmth")
    try:
        res = ctx.run_harness(h, ["soup"], cases, timeout_s=3000)
    except core.Inconclusive as e:
        raise core.Inconclusive("parser workers: %s" % e)
    ctx.tally(res, cases_path=cases)
    if not ctx.replay:
        # exploration: <= 2-edit token mutants of the corpus files (seeded), counted separately
        res = ctx.run_harness(h, ["mutants", core.REPO], None, timeout_s=3000)
        ctx.tally(res)
    ctx.exhaustive = True
    ctx.rule = ("every token sequence of length <= MaxLen over the cfg's alphabet (one spelling per token kind of token/token.go; "
                "full alphabet <= 2, reduced alphabets <= 3/4, glued byte fragments <= 3/4) x every separator choice in {blank, newline}, "
                "each through 5 entry points x 7 mode flags; distinct/non-trivial = distinct (first two token kinds, number of "
                "erroring parses); plus seeded <= 2-edit token mutants of corpus files (exploration, not exhaustive)")
    ctx.assumptions += [
        "a hang is 'no return within 10 s in a batch and again within 120 s alone in a fresh process' (expected latency: microseconds)",
        "sorted = non-decreasing (filename, line, column), which is what scanner.ErrorList.Sort establishes",
        "ParseExpr returning a nil expression together with an error (bailout after >10 errors) is recorded as drift, not judged",
        "the mutant part samples (seeded by VERIF_SEED); only the token-sequence part is exhaustive",
    ]
