"""C11 -- a normal .gox class file behaves like its explicit struct form.

Spec specs/sem2/ClassFile.tla: a class is a var block (field types int/string/float64/bool/[]int/
map[string]int/*Self in order; specs per line, merged `a, b int`, or the ungrouped single-spec
form; exported or not; struct tags; a const/type declaration in front of the var block; a package-level
variable in main.xgo named like a field) and an ordered list of methods from six templates (0..2 parameters, 0..2
results, reading fields, mutating fields, calling each other).  The machine builds the
explicit-struct twin (BuildTwin) and runs a fixed driver on an abstract object (Call/Dump); TLC
checks TwinSame, GroupingIrrelevant, OutputShape (and Terminates on the small grid) and exports
class, twin and expected output.  harness sem2h classfile compiles (a) `main.xgo + C<i>.gox` with XGo,
(b) the twin (Go syntax) with XGo, (c) the twin with the Go tool chain; go/types on (a)'s
generated Go must show exactly the modelled fields (order, types) and pointer-receiver methods
(receiver `this`); the outputs of (a) and (c) must be equal ((b) and the model are further voters).
"""
import os

LEVEL = "translation_validation"


def run(ctx):
    cases = os.path.join(ctx.scratch, "cases.ndjson")
    if ctx.replay:
        open(cases, "w").write(ctx.replay["case_record"]["line"] + "\n")
    else:
        t = "quick" if ctx.tier == "quick" else "thorough"
        for part in (("a", "b", "c", "d") if t == "quick" else ("a", "b", "c")):
            ctx.tlc("sem2", "ClassFile", "ClassFile_%s_%s.cfg" % (t, part), cases_path=cases, timeout_s=1500, workers=8)
        if t == "thorough":
            ctx.tlc("sem2", "ClassFile", "ClassFile_live.cfg", cases_path=cases, timeout_s=900, workers=8, coverage=True)
    h = ctx.build_harness("sem2h")
    res = ctx.run_harness(h, ["classfile"], cases, timeout_s=6000)
    ctx.tally(res, cases_path=cases)
    ctx.programs = int(ctx.extra.get("programs_built", 0))
    ctx.disagreements_checked = ctx.validated
    ctx.exhaustive = True
    ctx.rule = ("every class description of the cfg's grid (field-type sequences x var-block grouping x method "
                "list x exported); distinct/non-trivial = distinct (field types, grouping, method list, exported)")
    ctx.assumptions += [
        "field types from {int, string, float64, bool, []int, map[string]int, *Self}; <= 3 fields",
        "field initialisers in a class var block are a syntax error in this tree (parser.parseValueSpec: "
        "'cannot assign value to field in class file'), so initial values are given by the driver's composite literal",
        "methods come from six templates; embedded fields and generic classes are not enumerated",
        "the driver uses two instances (state must be per instance) and prints the package-level variable that "
        "shares a field's name (methods must not touch it)",
        "a normal .gox needs no class-kind registration (parser: IsNormalGox when the extension is .gox and no class kind matches)",
    ]
