"""C38 -- JSON-RPC framing round-trips any message stream (x/jsonrpc2 frame.go, messages.go, wire.go).

Spec specs/frame/Frame.tla: the header writer as a function to bytes, the header reader as a state
machine over the byte stream (one action per code path of headerReader.Read + DecodeMessage).
TLC enumerates every message sequence in the bound x {no defect, truncation at every byte offset,
one damaged frame of 32 classes}, checks the round-trip / truncation / prefix-intact / later-intact /
malformed=>error theorems on the model and exports the model reader's script per stream.  The
harness (harness/cmd/misch frame) writes with the real Writer, reads with the real Reader over a
whole buffer, a one-byte-at-a-time counting source and seeded random chunks, and compares.
"""
import os

LEVEL = "model_checking"

QUICK = ["Frame_quick_rt.cfg", "Frame_quick_rt4.cfg", "Frame_quick_full1.cfg", "Frame_quick_def.cfg"]
THOROUGH = ["Frame_thorough_rt.cfg", "Frame_thorough_rt4.cfg", "Frame_quick_rt4.cfg",
            "Frame_thorough_def.cfg", "Frame_thorough_def1.cfg", "Frame_thorough_trunc.cfg", "Frame_quick_full1.cfg"]


def run(ctx):
    cases = os.path.join(ctx.scratch, "cases.ndjson")
    if ctx.replay:
        open(cases, "w").write(ctx.replay["case_record"]["line"] + "\n")
    else:
        workers = min(8, int(os.environ.get("VERIF_TLC_WORKERS") or 8))
        for cfg in (QUICK if ctx.tier == "quick" else THOROUGH):
            ctx.tlc("frame", "Frame", cfg, cases_path=cases, timeout_s=1500, workers=workers)
    h = ctx.build_harness("misch")
    res = ctx.run_harness(h, ["frame"], cases, timeout_s=1500)
    ctx.tally(res, cases_path=cases)
    ctx.exhaustive = True
    ctx.rule = ("every message sequence up to the cfg's MaxLen over the cfg's message pool of Frame.tla "
                "(calls with int/string ids, notifications, responses with result / null / error) x every "
                "defect of the cfg's classes (none; truncation at EVERY byte offset; one damaged frame: 16 "
                "header classes (incl. Content-Length values of 10, 11, 12, 15, 19 and 20 digits) and 9 body classes "
                "that must be rejected, 12 tolerance classes); each "
                "stream is read three ways (whole buffer, 1 byte at a time with a counting source, seeded "
                "chunks); distinct = defect class x damaged frame index x sequence of message kinds "
                "(x outcome class for truncations)")
    ctx.assumptions += [
        "method names are non-empty (a call with an empty method is indistinguishable from a response on the wire)",
        "integer ids within +-2^53 in the main enumeration; one probe pool keeps an id above 2^53 as a lead",
        "JSON syntax itself (encoding/json) is abstracted: bodies are renderings of wire records, other bytes are 'not JSON'",
        "strings use an alphabet that needs only the mandatory JSON escapes",
        "the reader runs in a worker sub-process capped at 2 GiB of address space (RLIMIT_AS): a reader that allocates a "
        "huge declared Content-Length before any body byte is available dies with `out of memory` and the case is "
        "reported as fatal:<class>; Content-Length values that ARE accepted stay far below the cap",
    ]
