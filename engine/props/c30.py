"""C30 -- TPL result helpers fold lists left to right (tpl/tpl.go: List, ListOp, RangeOp, BinaryOp, BinaryExpr).

Spec specs/tpl/TplFold.tla.  Part 1: the helpers as a loop machine over the tail of an `R % sep` result
(flat, and nested for the recursive variants); TLC proves the loop invariant acc = left fold of the prefix,
the final left fold with the separators in order, the source order of List/ListOp/RangeOp, and that a right
fold would be a different term.  Part 2: the calculator grammar of the README; for every arithmetic
expression tree of the bound (minimal parentheses, unary minus) TLC proves that matching into the nested %
structure and folding it with BinaryOp(true) gives the value of a precedence-climbing evaluator and of the
tree.  The harness calls the real helpers on the synthesized []any structures (symbolic fn, so association
and order are visible) and evaluates every expression with a calculator compiled by tpl.New from the README
grammar; a Go precedence-climbing evaluator is the second oracle.
"""
import os

LEVEL = "model_checking"

QUICK = ["quick", "calc_quick", "calc_quick2"]
THOROUGH = ["quick", "t1", "t2", "calc_quick", "calc_t1", "calc_t2", "calc_t3"]


def run(ctx):
    cases = os.path.join(ctx.scratch, "cases.ndjson")
    if ctx.replay:
        open(cases, "w").write(ctx.replay["case_record"]["line"] + "\n")
    else:
        for c in (QUICK if ctx.tier == "quick" else THOROUGH):
            ctx.tlc("tpl", "TplFold", "TplFold_%s.cfg" % c, cases_path=cases, timeout_s=3000, workers=8)
    h = ctx.build_harness("tplh")
    res = ctx.run_harness(h, ["fold"], cases, timeout_s=3000)
    ctx.tally(res, cases_path=cases)
    ctx.exhaustive = True
    ctx.rule = ("every `R % sep` result of the cfg bound: flat with 0..4 tail elements over the atom and separator sets, "
                "nested (elements that are list results) with 0..2/3 tail elements and three-level ones, each in the R and NR variant, "
                "every helper called repeatedly and interleaved on one structure; "
                "every arithmetic expression tree with <= MaxOperands operands over Nums x {+,-,*} with every placement "
                "of one unary minus, printed with minimal parentheses; distinct = nesting shape x variant / "
                "operator-parenthesis skeleton of the expression")
    ctx.assumptions += ["fn is symbolic (builds the term \"(x op y)\"), atoms are strings / tpl/ast identifiers",
                        "BinaryExprNR is exercised on flat lists only (nested elements are not expressions)",
                        "the calculator is the README grammar without '/' and FLOAT, plus a parenthesised operand rule and a third % level of C-like comparisons < >"]
