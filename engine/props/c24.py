"""C24 -- function hoisting only reorders top-level chunks (format/formatutil/format_gop.go
RearrangeFuncs / splitStmts / firstNonDecl / isFuncDecl / codeOf, SourceEx).

Spec specs/syntax/Rearrange.tla: a script is a sequence of chunks (13 kinds x 5 rendering variants)
rendered as attributed lines/atoms.  For every script in the bound TLC computes WANT (the permutation
the statement prescribes, over chunks) and runs CODE (today's algorithm as a state machine over the
scanner's word stream: one action per word, per statement emitted), checks that WANT is the statement,
that CODE keeps every atom exactly once, and that CODE = WANT wherever no deviation is triggered (one
dialect switch per repair in the cfgs: FuncExprIsDecl, ParenIsNesting, ImportIsDecl, TrailingCommentStays); it exports chunks, bodies, WANT and CODE's byte-exact prediction.  The harness
(harness/cmd/misch rearrange) renders the script, calls RearrangeFuncs / Source / SourceEx and judges
P1 bytes kept, P2 every chunk body intact once, P3 bodies in the prescribed order, P4 the SourceEx clause;
the byte-exact prediction is compared for drift.
"""
import os

LEVEL = "model_checking"

QUICK = ["Rearrange_quick1.cfg", "Rearrange_quick2.cfg", "Rearrange_quick3.cfg", "Rearrange_quick4.cfg"]
THOROUGH = ["Rearrange_quick2.cfg", "Rearrange_quick4.cfg", "Rearrange_thorough3.cfg", "Rearrange_thorough4.cfg", "Rearrange_thorough6.cfg"]


def run(ctx):
    cases = os.path.join(ctx.scratch, "cases.ndjson")
    if ctx.replay:
        open(cases, "w").write(ctx.replay["case_record"]["line"] + "\n")
    else:
        workers = min(8, int(os.environ.get("VERIF_TLC_WORKERS") or 8))
        for cfg in (QUICK if ctx.tier == "quick" else THOROUGH):
            ctx.tlc("syntax", "Rearrange", cfg, cases_path=cases, timeout_s=2400, workers=workers)
    h = ctx.build_harness("misch")
    res = ctx.run_harness(h, ["rearrange"], cases, timeout_s=1800)
    ctx.tally(res, cases_path=cases)
    ctx.exhaustive = True
    ctx.rule = ("every sequence of up to MaxChunks top-level chunks over the cfg's kinds (package, import, var, type, "
                "parenthesised var group, func, method, operator method, simple statement, block statement with "
                "nested braces, func literal called in place without / with result type, func-typed conversion) x "
                "the cfg's rendering variants (plain, comment line before, trailing comment, comment inside, blank "
                "line before), imports leading; distinct = the sequence of (kind, variant)")
    ctx.assumptions += [
        "sources end with a newline (the last chunk of a source without one cannot be moved without adding a byte)",
        "a chunk's body is its text from the first code token to the end of its last line (trailing comment and "
        "newline included); where comment lines / blank lines between chunks go is not pinned (drift only)",
        "`import` is a declaration in the sense of the statement; the package clause stays in the untouched prefix",
        "chunks are made unique by numbering their identifiers",
    ]
