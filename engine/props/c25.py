"""C25 -- Go-to-XGo style conversion (xgo fmt --smart) preserves behaviour (x/format).

Spec specs/types/GopStyle.tla: the rewriter's decision table as a state machine.  Init ranges over
program descriptions (fmt print function x position x first-argument shape x writer; a user
declaration shadowing an XGo builtin / the import fmt / a lower-cased name, and how it is
declared; selector calls; function-literal arguments in every shape funcLitToLambdaExpr
distinguishes; main last or not, main's first statement, fmt staying used); the actions apply
the rewrite rules one at a time in any order.  TLC checks termination, confluence (every order
ends in the closed-form Predicted(d)), stability of applied rules and soundness of the import
removal on the model, and exports each description with the predicted shape and Safe(d).  The
harness (typesh gopstyle) renders the description as a Go main package, converts it with
xformat.GopstyleSource, compiles the result with the XGo compiler, builds and runs it and the
original, and compares stdout / stderr / exit status (oracle D = go build + run of the original).
"""
import os
from concurrent.futures import ThreadPoolExecutor

LEVEL = "translation_validation"

QUICK = ["quick_fmt", "quick_w", "quick_shfmt", "quick_litparam", "quick_shadow", "quick_sel", "quick_lit", "quick_main"]
THOROUGH = ["thorough_fmt", "thorough_shadow", "thorough_litmain", "thorough_selmain",
            "thorough_mainfn"]


def run(ctx):
    cases = os.path.join(ctx.scratch, "cases.ndjson")
    if ctx.replay:
        open(cases, "w").write(ctx.replay["case_record"]["line"] + "\n")
    else:
        cfgs = QUICK if ctx.tier == "quick" else QUICK + THOROUGH
        if os.environ.get("VERIF_C25_CFGS"):      # development aid: only these configurations
            cfgs = [c for c in cfgs if c in os.environ["VERIF_C25_CFGS"].split(",")]
            ctx.notes.append("restricted to configurations %s" % cfgs)
        parts = {}

        def one(cfg):
            path = os.path.join(ctx.scratch, "cases-%s.ndjson" % cfg)
            parts[cfg] = path
            ctx.tlc("types", "GopStyle", "GopStyle_%s.cfg" % cfg, cases_path=path, timeout_s=3000, workers=2)

        with ThreadPoolExecutor(3) as ex:
            list(ex.map(one, cfgs))
        seen = set()
        with open(cases, "w") as out:
            for cfg in cfgs:
                for line in open(parts[cfg]):
                    if line not in seen:          # the focused configurations overlap in their defaults
                        seen.add(line)
                        out.write(line)
    h = ctx.build_harness("typesh")
    res = ctx.run_harness(h, ["gopstyle"], cases, timeout_s=6000)
    ctx.tally(res, cases_path=cases)
    total = sum(1 for r in res if r.get("v") in ("ok", "viol", "drift", "skip"))
    bad = sum(1 for r in res if r.get("v") == "skip")
    ctx.programs = total - bad
    ctx.disagreements_checked = ctx.programs
    if total and bad > max(2, total // 50):
        from vlib import core
        raise core.Inconclusive("%d of %d rendered descriptions are not Go programs: Valid() of GopStyle.tla is wrong" % (bad, total))
    ctx.exhaustive = True
    ctx.rule = ("every valid description of GopStyle.tla in each focused configuration (the varied dimensions range over "
                "their whole domain, the others keep their default); one Go main package per description, converted, "
                "compiled, built and run; distinct/non-trivial = distinct signature key (non-default dimension values)")
    ctx.assumptions += [
        "supported subset = the programs GopStyle.tla describes: one fmt call site, one selector call, one "
        "function-literal argument, one shadowing declaration per program; deterministic, no goroutines",
        "output compared: stdout, stderr and exit status of the two binaries",
        "the original program is built by the Go tool chain from a module with `go 1.18`",
    ]
