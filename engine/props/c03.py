"""C03 -- error-wrapping operators expr!, expr?, expr?:d behave as documented.

Spec specs/sem/ErrWrap.tla: the documented evaluation of one wrapped call inside an enclosing function
as a small-step machine (Enter, CallCallee, ErrNil / ErrPanic / ErrReturn / ErrDefault, Use,
ReturnNormal, OuterContinues).  TLC enumerates the full product callee arity (0..2 values + error) x
outcome x operator x use position (statement, assignment, argument, nested in an expression, inside a
function literal, inside a method) x callee spelling x enclosing result shape / first-result type /
named pre-assigned results, checks the clauses of the statement on the model, and exports every case.
harness/cmd/semh (errwrap.go) renders each case as XGo, compiles it alone (a compile error or a
rejected Go output is the outcome of that case), batches, builds, runs and compares outcome (values /
panic with errors.Is + frame naming the expression / zero values + error / default), the values seen
and the side-effect log (callee once, default only on error, no continuation after an error).  The same
batch is emitted as the explicit Go expansion (second oracle; disagreement with the model = exit 2).
"""
import os

LEVEL = "translation_validation"


def run(ctx):
    cases = os.path.join(ctx.scratch, "cases.ndjson")
    if ctx.replay:
        open(cases, "w").write(ctx.replay["case_record"]["line"] + "\n")
    else:
        cfg = "ErrWrap_quick.cfg" if ctx.tier == "quick" else "ErrWrap_thorough.cfg"
        ctx.tlc("sem", "ErrWrap", cfg, cases_path=cases, timeout_s=1800,
                workers=min(8, int(os.environ.get("VERIF_TLC_WORKERS") or 8)))
    h = ctx.build_harness("semh")
    res = ctx.run_harness(h, ["errwrap"], cases, timeout_s=5000)
    ctx.tally(res, cases_path=cases)
    ctx.programs = int(ctx.extra.get("programs", 0)) + int(ctx.extra.get("go_expansion_programs", 0))
    ctx.disagreements_checked = int(ctx.extra.get("compared_with_model", 0))
    ctx.exhaustive = True
    ctx.rule = ("full product of: callee with 0..2 values + error; error nil / non-nil (callee then also returns junk "
                "values); operator !, ?, ?:d (d a logging call; only for single-value callees); use position statement / "
                "assignment / call argument / operand of + / inside a function literal / inside a method / statement in a lambda argument of an "
                "overloaded function (second candidate matches, so the body is compiled twice); callee written g(fail), "
                "command-style h, or command-style with arguments `g! fail`; call on one line or spread over three lines "
                "(the frame must name the first line); for ?: enclosing function with 1..3 results ending in error, first result "
                "type int/string/*T/[]int/struct, unnamed or named-and-pre-assigned results; every case is distinct")
    ctx.assumptions += ["one wrapped call per enclosing function; the error is a sentinel checked with errors.Is",
                        "the frame is checked by `Error()` containing the source text of the wrapped expression"]
