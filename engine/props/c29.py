"""C29 -- grammar matching follows the documented TPL semantics (tpl/matcher; tpl/README.md).

Spec specs/tpl/TplMatch.tla (same machine as C28): README result construction (token, n-element list,
repetition list, nil for an absent option, two-level list for %, pair for ++), ordered choice, greedy
repetition without backtracking, adjacency via gap flags on the input.  Where the README is silent the
machine is nondeterministic (an alternative that failed after consuming input: commit or try the next
one) or flags the behaviour `undoc` (++ with an operand that matched nothing).  The halted behaviours are
grouped per (grammar, input) into the set of allowed outcomes; the real Compiler.Match (in a watchdog
child) must produce one of them: success, tokens consumed, result tree projected to nested lists of
token spellings.  Pairs the model rejects or diagnoses as diverging belong to C28 and are skipped.
"""
import os

LEVEL = "model_checking"

# cfgs relevant to result construction (all combinators, deep nesting, foreign tokens, token classes); two-rule
# recursion cfgs (q2, t2) are left to C28
QUICK = ["q1", "q3", "q4"]
THOROUGH = ["q3", "q4", "t1", "t3", "t4", "t5"]


def run(ctx):
    cases = os.path.join(ctx.scratch, "cases.ndjson")
    if ctx.replay:
        open(cases, "w").write(ctx.replay["case_record"]["line"] + "\n")
    else:
        for c in (QUICK if ctx.tier == "quick" else THOROUGH):
            ctx.tlc("tpl", "TplMatch", "TplMatch_%s.cfg" % c, cases_path=cases, timeout_s=3000, workers=8)
    h = ctx.build_harness("tplh")
    res = ctx.run_harness(h, ["match"], cases, timeout_s=3000)
    ctx.tally(res, cases_path=cases)
    ctx.exhaustive = True
    ctx.rule = ("every terminating grammar of the cfg bounds x every input over the grammar's tokens plus one foreign token "
                "(quick: depth 2 x inputs <= 4; depth 3 with a leaf operand x inputs <= 2; two rules; token classes "
                "IDENT vs keyword); gap flags vary for grammars with ++; distinct = grammar shape with token names "
                "erased / input length")
    ctx.assumptions += ["results are compared as nested lists of token spellings; error texts and positions are not compared",
                        "a (grammar, input) pair whose outcomes are all flagged undoc can only produce drift",
                        "inputs are scanned with NoInsertSemis"]
