"""C04 -- a range expression start:end:step denotes the same integer sequence in every context.

Spec specs/sem/Range.tla: the documented iterator (IterOpen / IterNext / IterStop) driven by three
context machines (loop, count, comprehension).  TLC enumerates the whole grid of (start, end, step)
incl. omitted operands x operand spelling x syntactic context, proves on the model that every context
emits the closed form Seq(start,end,step), and exports one CASE per combination.  harness/cmd/semh
(range.go) renders each case as an XGo function, compiles it alone, batches the cases into programs,
builds and runs them, and compares the printed sequence with the model's; the same batch is also
emitted as explicit Go loops and built with the Go tool chain (second oracle; model vs Go expansion
disagreement = exit 2).
"""
import os

LEVEL = "translation_validation"


def run(ctx):
    cases = os.path.join(ctx.scratch, "cases.ndjson")
    if ctx.replay:
        open(cases, "w").write(ctx.replay["case_record"]["line"] + "\n")
    else:
        # main grid with decimal literals / identifiers / calls, then a reduced grid for the other literal spellings
        cfgs = ("Range_quick.cfg", "Range_quick2.cfg") if ctx.tier == "quick" else ("Range_thorough.cfg", "Range_thorough2.cfg")
        for cfg in cfgs:
            ctx.tlc("sem", "Range", cfg, cases_path=cases, timeout_s=1800,
                    workers=min(8, int(os.environ.get("VERIF_TLC_WORKERS") or 8)))
    h = ctx.build_harness("semh")
    res = ctx.run_harness(h, ["range"], cases, timeout_s=7000)
    ctx.tally(res, cases_path=cases)
    ctx.programs = int(ctx.extra.get("programs", 0)) + int(ctx.extra.get("go_expansion_programs", 0))
    ctx.disagreements_checked = int(ctx.extra.get("compared_with_model", 0))
    ctx.exhaustive = True
    ctx.rule = ("every (start, end, step) with start,end in -Span..Span and step in -KMax..KMax\\{0}, plus the "
                "forms with omitted start and/or step, x operand spelling (decimal literal, identifier, call; on a reduced grid also hex / 0o octal / binary / digit-separator literals) x context "
                "(for-in, for-in+if, for := range, for = range, for range, bare for, list comprehension, "
                "comprehension+if); distinct/non-trivial = distinct (context, spelling, operands) whose denoted "
                "sequence is non-empty, plus one key per (context, spelling, omitted forms, sign) for empty ones")
    ctx.assumptions += ["operands are int values within the grid (no overflow, no operand mutated by the loop body)",
                        "the filter is i%2 == 0; loop bodies only observe the element",
                        "operand evaluation count is recorded as drift only (the statement does not pin it)"]
