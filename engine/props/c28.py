"""C28 -- grammar matching always terminates (tpl/matcher: gRepeat0/gRepeat1, Var.Match; tpl/cl.NewEx).

Spec specs/tpl/TplMatch.tla: the matcher as a small-step machine with an explicit stack over (grammar
node, input position).  TLC enumerates every grammar of the cfg's bound (tokens, "", ?x *x +x, sequence,
choice, %, ++, references incl. self / mutual recursion) x every input, proves on the model the stack
invariant (no call in progress twice), the step bound (variant) and -- in the small cfgs -- <>halted;
all registered cfgs model the repaired implementation (dialect "guarded": zero-progress guard + left-recursion
check), proved never to diverge (NoHang); the model remembers where the guard was needed and which grammars
only the left-recursion check rejects, so a regression is reported under its cause.  The harness compares accept/reject with
the real tpl.New and runs every accepted (grammar, input) through Match / Parse / ParseExpr in watchdog
child processes (CPU-time cap 2 s, heap cap, 8 MiB stack).  Alarm iff a real match does not return.
"""
import os

LEVEL = "model_checking"

# cfgs relevant to termination (nullable repetitions, self / mutual recursion, deep nesting); every cfg models the
# repaired implementation (Dialect "guarded"); guarded* / tguarded additionally check <>halted (liveness).
QUICK = ["q1", "q2", "q3", "guarded", "guarded2"]
THOROUGH = ["q2", "q3", "t1", "t2", "t4", "guarded", "guarded2", "tguarded"]


def run(ctx):
    cases = os.path.join(ctx.scratch, "cases.ndjson")
    if ctx.replay:
        open(cases, "w").write(ctx.replay["case_record"]["line"] + "\n")
    else:
        for c in (QUICK if ctx.tier == "quick" else THOROUGH):
            ctx.tlc("tpl", "TplMatch", "TplMatch_%s.cfg" % c, cases_path=cases, timeout_s=3000, workers=8)
    h = ctx.build_harness("tplh")
    res = ctx.run_harness(h, ["term"], cases, timeout_s=3000)
    ctx.tally(res, cases_path=cases)
    ctx.exhaustive = True
    ctx.rule = ("every grammar of the cfg bounds x every input (quick: depth 2 incl. 3-ary seq/alt x inputs <= 3 over {a , @}; "
                "two rules of depth 2 with self/mutual references x inputs <= 1; depth 3 with one leaf operand per binary "
                "node x inputs <= 2; thorough: every depth-3 single-rule grammar over one token x inputs <= 2, depth 3 with a "
                "leaf operand over two tokens and a foreign one); one real execution per distinct (grammar, input); "
                "distinct = grammar shape with token names erased / input length")
    ctx.assumptions += ["a match that burns 2 s of CPU, holds 96 MiB of heap or overflows an 8 MiB goroutine stack on an input of <= 4 tokens "
                        "is taken as not returning",
                        "once a cause of divergence has been demonstrated 3 times on the real code the remaining "
                        "pairs with that cause are not executed (counted as skipped); only matters on a regressed tree",
                        "inputs are scanned with NoInsertSemis; tokens a, c identifiers, `,` and `@` punctuation"]
