"""C12 -- recorded type information obeys its documented invariants (x/typesutil, cl/recorder.go).

Spec specs/types/Scopes.tla: a derivation machine whose states are partial programs (items =
declarations, block openers/closers, uses over names a, b, c with shadowing); `Resolve` is Go's
scoping (plus the XGo scopes the Info.Scopes doc lists).  TLC enumerates every program of a focused
operator set within the bounds of Scopes_<tier>_<focus>.cfg, checks on the model that resolution is
deterministic, total on complete programs, never before the declaration, and that the declarative
and the scope-chain definitions agree, and exports {items, occurrences, target per use}.  Seeded
`-simulate` runs of the full operator set go beyond the exhaustive bound.  The harness (typesh
scopes) renders each program, runs typesutil.Checker.Files on it as an XGo file and checks the
documented invariants (oracle S), the model's resolution, and -- for Go-compatible programs --
position-wise agreement of every identifier's object with go/types (oracle D).
"""
import os
from concurrent.futures import ThreadPoolExecutor

LEVEL = "model_checking"

QUICK = ["quick_pkg", "quick_stmt", "quick_meth", "quick_multi", "quick_struct", "quick_shadowtype", "quick_xloop", "quick_xfun"]
THOROUGH = ["thorough_pkg", "thorough_stmt", "thorough_blocks", "thorough_meth", "thorough_xloop",
            "thorough_xfun", "thorough_xmix"]
SIM = ["sim_all", "sim_go"]


def run(ctx):
    cases = os.path.join(ctx.scratch, "cases.ndjson")
    if ctx.replay:
        open(cases, "w").write(ctx.replay["case_record"]["line"] + "\n")
    else:
        quick = ctx.tier == "quick"
        nsim = int(os.environ.get("VERIF_C12_SIM", "150" if quick else "1500"))
        jobs = [(c, None) for c in (QUICK if quick else QUICK + THOROUGH)] + [(c, nsim) for c in SIM]
        if os.environ.get("VERIF_C12_CFGS"):      # development aid: only these configurations
            only = os.environ["VERIF_C12_CFGS"].split(",")
            jobs = [j for j in jobs if j[0] in only]
            ctx.notes.append("restricted to configurations %s" % only)
        parts = {}

        def one(job):
            cfg, sim = job
            path = os.path.join(ctx.scratch, "cases-%s.ndjson" % cfg)
            parts[cfg] = path
            kw = dict(cases_path=path, timeout_s=3000, workers=2)
            if sim:
                kw.update(simulate="num=%d" % sim, depth=14, seed=ctx.seed)
            ctx.tlc("types", "Scopes", "Scopes_%s.cfg" % cfg, **kw)

        with ThreadPoolExecutor(3) as ex:
            list(ex.map(one, jobs))
        seen = set()
        with open(cases, "w") as out:
            for cfg, _ in jobs:
                p = parts.get(cfg)
                if p and os.path.exists(p):
                    for line in open(p):
                        if line not in seen:        # simulation revisits programs
                            seen.add(line)
                            out.write(line)
    h = ctx.build_harness("typesh")
    res = ctx.run_harness(h, ["scopes"], cases, timeout_s=3000)
    ctx.tally(res, cases_path=cases)
    total = sum(1 for r in res if r.get("v") in ("ok", "viol", "drift", "skip"))
    bad = sum(1 for r in res if r.get("v") == "skip")
    if total and bad > max(3, total // 50):
        from vlib import core
        raise core.Inconclusive("%d of %d generated programs are rejected by go/types or x/typesutil: "
                                "the model's well-formedness judgement is wrong" % (bad, total))
    ctx.exhaustive = False
    ctx.rule = ("every complete program of Scopes.tla within the bounds of each focused configuration (package-level "
                "declarations; statements and headers; methods; XGo loops/comprehensions; XGo lambdas/overloads/errwrap) "
                "up to renaming of a, b, c, plus seeded random derivations of the full operator set beyond the bound; "
                "distinct/non-trivial = distinct (set of item kinds, shadowing present, Go-compatible)")
    ctx.assumptions += [
        "programs are int-typed: a use is wrapped by the kind of its target so that the text type-checks",
        "names a, b, c (up to renaming in the exhaustive configurations); nesting depth <= 3; <= 4-8 identifier occurrences",
        "a scope-defining node without a Scopes entry is drift only (the statement does not demand completeness of "
        "Scopes; VERIF_C12_SCOPES=strict promotes it to a violation)",
        "Defs/Uses keys that are synthesized identifiers (shadow main, overload members) are outside the statement's "
        "'Types or Scopes' clause: recorded as drift",
    ]
