"""C02 -- XGo collection sugar evaluates like its documented Go expansion.

Spec specs/sem/Compr.tla: every construct (list / map literal, `a <- v...` append, for-in with `if`
filter, list / map / select / exists comprehension with one or two for-phrases -- the LAST phrase
being the OUTERMOST loop --, command-style call) is an explicit loop / evaluation machine over concrete
containers that produces a value and a side-effect log.  TLC enumerates construct x container contents
x filters (plain, logging call, reading the outer variable, `if init; cond`) x element expressions
(identity, logging call, index, pair) x element type, checks the counting / ordering theorems on the
model and exports every case.  harness/cmd/semh (compr.go) renders each case as XGo, compiles it alone,
batches, builds, runs and compares `%T|%v` of the value and the log with the model; the same batch is
emitted as the explicit Go loops / append / composite literals / calls and built with the Go tool chain
(second oracle; disagreement with the model = exit 2).
"""
import os

LEVEL = "translation_validation"


def run(ctx):
    cases = os.path.join(ctx.scratch, "cases.ndjson")
    if ctx.replay:
        open(cases, "w").write(ctx.replay["case_record"]["line"] + "\n")
    else:
        cfg = "Compr_quick.cfg" if ctx.tier == "quick" else "Compr_thorough.cfg"
        ctx.tlc("sem", "Compr", cfg, cases_path=cases, timeout_s=1800,
                workers=min(8, int(os.environ.get("VERIF_TLC_WORKERS") or 8)))
    h = ctx.build_harness("semh")
    res = ctx.run_harness(h, ["compr"], cases, timeout_s=7000)
    ctx.tally(res, cases_path=cases)
    ctx.programs = int(ctx.extra.get("programs", 0)) + int(ctx.extra.get("go_expansion_programs", 0))
    ctx.disagreements_checked = int(ctx.extra.get("compared_with_model", 0))
    ctx.exhaustive = True
    ctx.rule = ("construct kind (list literal, map literal, append incl. `a <- b...` and field targets, for-in, list / map / "
                "select / select-ok / exists comprehension, command call) x 1..2 for-phrases x every container over Vals up "
                "to MaxLen (MaxLen2 for two phrases; map sources with <= 1 entry) x filter {none, x > 1, logging keep(x), "
                "a < b reading the outer variable, `if y := ..; y > 2`} x element {x, logging el(x), i*10+x, [a, b], "
                "el2(a, b)} x element type {int, string, struct, []int}; distinct/non-trivial = distinct (kind, phrases, "
                "type, filters, element, source kind, operand form, container lengths)")
    ctx.assumptions += ["map sources have at most one entry (iteration order is not part of the statement)",
                        "generated programs use every variable they declare (exists-comprehensions always read their variables)",
                        "`if init; cond` filters are exercised in comprehension phrases only (the for-in statement does not parse them)"]
