"""C34 -- directory parsing selects and classifies exactly the right files (parser/parser_gop.go
ParseFSDir / ParseFSEntry / defaultClassKind).

Spec specs/cfg/ParseDir.tla: ParseFSDir as a fold over the listing (one action per way the loop body
ends for an entry), the statement as declarative predicates (Included / IsClass / IsNormalGox / IsProj /
PkgOf); TLC checks fold = statement for every directory in the bound and exports (listing, class-kind
function, mode, filter, included files with flags, per-entry ParseFSEntry expectation).  The harness
(harness/cmd/cfgh parsedir) builds the directory in an in-memory fsx.FileSystem (with sub-directories),
calls ParseFSDir on the sorted and on the reversed listing and ParseFSEntry on every file.
"""
import os

LEVEL = "model_checking"

QUICK = ["ParseDir_quick1.cfg", "ParseDir_quick2.cfg"]
THOROUGH = ["ParseDir_quick1.cfg", "ParseDir_thorough2.cfg", "ParseDir_thorough2f.cfg", "ParseDir_thorough3.cfg"]


def run(ctx):
    cases = os.path.join(ctx.scratch, "cases.ndjson")
    if ctx.replay:
        open(cases, "w").write(ctx.replay["case_record"]["line"] + "\n")
    else:
        workers = min(8, int(os.environ.get("VERIF_TLC_WORKERS") or 8))
        for cfg in (QUICK if ctx.tier == "quick" else THOROUGH):
            ctx.tlc("cfg", "ParseDir", cfg, cases_path=cases, timeout_s=1800, workers=workers)
    h = ctx.build_harness("cfgh")
    res = ctx.run_harness(h, ["parsedir"], cases, timeout_s=1800)
    ctx.tally(res, cases_path=cases)
    ctx.exhaustive = True
    ctx.rule = ("every directory of up to MaxEntries distinct names (prefix {a, _a, main, gop_autogen, gop_autogen_x, gop_autogenx, gop_autogen_x_test} x "
                "extension part {.xgo .gop .go .gox .spx .gmx .gsh .txt _yap.gox}) x kind {sub-directory, file with "
                "package main / foo / no clause} x class-kind function (7 representatives incl. nil) x mode "
                "{0, ParseGoAsGoPlus} x filter {nil, reject entry j}, per cfg; each is parsed with the sorted and "
                "the reversed listing and every file through ParseFSEntry; distinct = class-kind x mode x filter x "
                "multiset of (name class, kind, included?)")
    ctx.assumptions += [
        "file contents are minimal well-formed sources (package clause or none + one func); parse errors are outside the domain",
        "names are represented by prefix x extension-part classes; the harness renders prefix+extension",
        ".go files always carry a package clause (go/parser requires one)",
        "the filter's meaning is taken from ParseFSDir's doc comment, Files vs GoFiles from the doc of ParseGoAsGoPlus",
    ]
