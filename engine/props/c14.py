"""C14 -- valid Go files parse to the same syntax tree as with go/parser (parser/parser.go, scanner/scanner.go).

Spec specs/gosyn/GoSyntax.tla: a TYPED, precedence-stratified grammar of a Go subset as a leftmost-derivation
state machine that rewrites the tree (s-expression) and its token rendering in lock step; one focus table entry per focus
(expressions, statements, declarations, generics, literal spellings, layout moves).  TLC checks on the model:
the two sentential forms stay in step, budget, every exported tree is complete, layout moves are stuttering
steps on tree and token sequence, Tokens is injective on the finished trees (ASSUME, moderate bounds) and
exports one CASE per (tree, layout).  The harness (harness/cmd/gosynh) renders each case as a complete Go
file, asks go/parser + go/types whether it is in the domain, and compares the XGo parser's tree with
go/parser's through the fixed projection of sexpr.go (oracle D); the model's tree is the third voter (DRIFT).
Every .go file of the tree under test and of a GOROOT/src subset goes through the same comparator (corpus).
"""
import os

from . import gosyn_common as g

LEVEL = "model_checking"

# One TLC run covers several foci (constant Foci; Init picks one): no JVM per focus.
QUICK = [("GoSyntax_quick.cfg", {"workers": 8})]


def thorough(seed):
    return [("GoSyntax_thorough_a.cfg", {}), ("GoSyntax_thorough_b.cfg", {}), ("GoSyntax_thorough_c.cfg", {}),
            # beyond the exhaustive bounds: seeded random derivations
            ("GoSyntax_exprsim.cfg", {"simulate": "num=6000", "depth": 80, "seed": seed}),
            ("GoSyntax_stmtsim.cfg", {"simulate": "num=6000", "depth": 120, "seed": seed})]


def run(ctx):
    cases = os.path.join(ctx.scratch, "cases.ndjson")
    h = ctx.build_harness("gosynh")
    if ctx.replay:
        rec = ctx.replay.get("case_record")
        if rec and rec.get("line"):
            open(cases, "w").write(rec["line"] + "\n")
            ctx.tally(ctx.run_harness(h, ["c14"], cases), cases_path=cases)
        else:
            g.run_corpus(ctx, h, "corpus14", [ctx.replay["case"]["file"]], "replay")
        return
    open(cases, "w").close()
    jobs = QUICK if ctx.tier == "quick" else thorough(ctx.seed)
    g.run_cfgs(ctx, "GoSyntax", jobs, cases, parallel=1 if ctx.tier == "quick" else 3)
    n = g.dedupe_and_check_unambiguous(ctx, cases)
    ctx.log("%d distinct (tree, layout) cases; no token text belongs to two trees" % n)
    res = ctx.run_harness(h, ["c14"], cases, timeout_s=2400)
    ctx.tally(res, cases_path=cases)
    skips = {}
    for r in res:
        if r.get("v") == "skip":
            skips[r.get("sig", "skip")] = skips.get(r.get("sig", "skip"), 0) + 1
    ctx.extra["model_cases"] = {"cases": len(res), "skipped_outside_domain": skips}
    # corpus: counted separately, never replaces the enumeration
    g.run_corpus(ctx, h, "corpus14", [g.repo()], "repo")
    sub = g.GOROOT_QUICK if ctx.tier == "quick" else g.GOROOT_THOROUGH
    g.run_corpus(ctx, h, "corpus14", [os.path.join(g.goroot_src(), d) for d in sub], "goroot")
    ctx.exhaustive = True
    ctx.rule = ("every tree derivable within the Budget of each focus cfg of specs/gosyn/GoSyntax.tla (typed Go grammar: all binary/"
                "unary operators and precedences, calls, selectors, index, 2/3-index slices, assertions, composite literals, "
                "func literals, conversions; all statement forms; declarations; generics; literal spellings) x every layout "
                "move of the layout cfgs (one-line blocks, blank/no blank, line breaks, comments, semicolons) at every token "
                "boundary; thorough adds seeded random derivations beyond the exhaustive budget; distinct/non-trivial = "
                "distinct set of node kinds + gap kinds of the case; corpus files are counted separately (corpus_*)")
    ctx.assumptions += [
        "identifiers are represented by one to three names per type (prelude of harness/cmd/gosynh/c14.go)",
        "the domain is decided by go/parser + go/types of the Go toolchain in use (go1.23); files rejected by either are skipped",
        "the XGo parser is called as ParseFile(mode 0 / ParseComments) and ParseFSDir(ParseGoAsGoPlus|ParseComments); "
        "the file name extension plays no role in parser.ParseFile",
        "projection: positions, comments, scopes and XGo annotations (BasicLit.Extra, CallExpr.NoParenEnd) are not part of the tree",
        "corpus: go/types is run only on files on which the parsers disagree (agreement needs no domain check); per signature a "
        "bounded number of files is domain-checked, the rest is not judged",
    ]
