"""C08 -- compilation output is deterministic.

specs/gocore/Sched.tla enumerates the observation schedule: every presentation order (all permutations
for <= 4 files, rotations + reversal beyond) of every package shape (mixes of .xgo, overload
declarations, a .gox class file and 2-3 .go files; error-free and with errors in several files); each
is compiled NRep times in each of NProc fresh processes.  The harness executes the schedule, records
one observation (hash of Go output + error list) per compile and TLC validates the trace against the
history-variable contract of specs/gocore/Contract.tla (first[pkg]; every later observation equals it).
"""
import os

from props.c06 import validate_traces

LEVEL = "exploration"


def run(ctx):
    cases = os.path.join(ctx.scratch, "cases.ndjson")
    if ctx.replay:
        open(cases, "w").write(ctx.replay["case_record"]["line"] + "\n")
    else:
        ctx.tlc("gocore", "Sched", "Sched_%s.cfg" % ctx.tier, cases_path=cases, timeout_s=600, workers=2)
    h = ctx.build_harness("gocoreh")
    env = {}
    if os.environ.get("VERIF_CORRUPT_TRACE"):
        env["VERIF_CORRUPT_TRACE"] = "1"
    res = ctx.run_harness(h, ["c08"], cases, timeout_s=3000, env=env)
    ctx.tally(res, cases_path=cases)
    if not ctx.replay:
        validate_traces(ctx, "c08", os.path.join(ctx.scratch, "trace.ndjson"), os.path.join(ctx.scratch, "rejected.json"))
    ctx.exhaustive = False
    ctx.rule = ("7 package shapes x every file presentation order (<= 4 files: all permutations) x NProc fresh processes x "
                "NRep repetitions; distinct/non-trivial = distinct (shape, presentation order)")
    ctx.assumptions += [
        "map-iteration nondeterminism cannot be scheduled, only sampled: %s fresh processes per presentation" % ("20" if ctx.tier == "quick" else "60"),
        "package contents are the fixed templates of harness/cmd/gocoreh/c08.go (overload declaration, normal .gox class, "
        "2-3 Go files, error variants with >= 2 errors in different files)",
    ]
