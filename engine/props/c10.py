"""C10 -- overloaded functions dispatch on argument types, independent of listing order and style.

Spec specs/sem2/Overload.tla: a case is (family func|method|op, candidate set of 2..4 pairwise
distinguishable parameter tuples, listing order = every permutation, style of each listed candidate).
The machine Preload -> InitPkg -> Scan* is shaped like cl/compile.go's OverloadFuncDecl branch and
gogen's InitThisGopPkgEx + first-match overload resolution; TLC checks on the model that the
candidate reached by every typed call is the unique accepting one for every permutation and style
vector (Unique, OrderIndependent, Resolves, Correct) and exports every case.  harness sem2h overload
renders each case as XGo text, compiles it alone, batches the cases into programs (XGo -> Go -> go
build -> run) and compares the candidate that printed its id with the model's.
"""
import os

LEVEL = "translation_validation"


def run(ctx):
    cases = os.path.join(ctx.scratch, "cases.ndjson")
    if ctx.replay:
        open(cases, "w").write(ctx.replay["case_record"]["line"] + "\n")
    else:
        cfg = "Overload_quick.cfg" if ctx.tier == "quick" else "Overload_thorough.cfg"
        ctx.tlc("sem2", "Overload", cfg, cases_path=cases, timeout_s=1500, workers=8)
        if ctx.tier == "thorough":
            # liveness of the dispatch machine (every case reaches pc = "done") on the small grid;
            # its CASE records are a subset of the grid above and are not replayed twice
            ctx.tlc("sem2", "Overload", "Overload_live.cfg", cases_path=None, timeout_s=600, workers=8,
                    coverage=True)
    h = ctx.build_harness("sem2h")
    res = ctx.run_harness(h, ["overload"], cases, timeout_s=3000)
    ctx.tally(res, cases_path=cases)
    ctx.programs = int(ctx.extra.get("programs_built", 0))
    ctx.disagreements_checked = ctx.validated
    ctx.exhaustive = True
    ctx.rule = ("every (family, candidate set, permutation of the listing, style vector) of the grid in "
                "Overload.tla's GridDef; one typed call per candidate; distinct/non-trivial = distinct "
                "(family, style vector, permutation, arity pattern, unary flag)")
    ctx.assumptions += [
        "parameter types from {int, string, float64, bool, []int, *T} (+ the struct type for operators); arity 1-2",
        "calls pass typed variables only (untyped constants make dispatch first-match, outside the statement)",
        "method overloads list (T).m / (*T).m selectors only; function literals inside a method/operator "
        "overload declaration are outside doc/overload.md and not enumerated",
        "the name__N convention is not documented for XGo source (works for imported Go packages only) and is not enumerated",
    ]
