"""C40 -- watch mode never loses or duplicates a changed directory (x/watcher Changes).

Design spec specs/conc/Watcher.tla (lock granularity: mutex, condition variable with an explicit
wait set, FileChanged = lock; record; unlock; [gate]; broadcast-if-first, Fetch = lock; wait loop;
take one; unlock, aux = Ignore / EntryDeleted(dir)).  TLC checks NoSpurious, AtMostOncePerReport,
NoLost, WakeInv, NoLostWakeup exhaustively and the wake-up liveness under weak fairness.

Binding to the real watcher.Changes (harness/cmd/conch):
  spec -> code  WatcherReplay.tla exports every steerable behaviour of a small configuration (and
                simulated ones of a larger one): command sequences fc / open-gate / fetch / aux with
                the model's observation after each command.  The harness steers them into the real
                object with the verif gate between Unlock and Broadcast; the real observation
                sequence must be one of the model's outcomes for that command sequence.
  code -> spec  free-running goroutines, call start / gate / call end events numbered by one atomic
                counter, final quiescence record (which fetchers are blocked for good); all traces are
                validated by TLC against WatcherTrace.tla in batches (reset record between traces,
                acceptance by high-water mark, -workers 1 per batch).
A trace the design spec cannot explain is re-validated against the contract (atomic calls =
the statement of C40): rejected there too -> VIOLATION, accepted -> drift.
"""
import json
import os
import shutil
import threading
from concurrent.futures import ThreadPoolExecutor

from vlib import core

LEVEL = "model_checking"


# ----------------------------------------------------------------------------- trace validation
def split_traces(path):
    """-> list of traces; a trace = list of raw lines, the first one being its reset record."""
    traces = []
    with open(path) as f:
        for line in f:
            line = line.rstrip("\n")
            if not line:
                continue
            if '"op":"reset"' in line or not traces:
                traces.append([])
            traces[-1].append(line)
    return traces


def _hwm(res):
    import re
    m = None
    for m in re.finditer(r'<<"HWM", (\d+), (\d+)>>', res.log_tail):
        pass
    if not m:
        raise core.Inconclusive("trace validation printed no HWM line:\n" + res.log_tail[-1500:])
    return int(m.group(1)), int(m.group(2))


def validate_chunk(ctx, family, module, cfg, traces, tag, max_rejects=3, timeout_s=3600):
    """Validate a list of traces in one TLC run (re-running after a rejected trace).
    Returns {position in `traces`: None (accepted) | (line offset in trace, raw line) | "unvalidated"}."""
    out = {}
    base = 0
    rejects = 0
    while base < len(traces):
        d = os.path.join(ctx.scratch, "tv-%s-%d" % (tag, base))
        os.makedirs(d, exist_ok=True)
        tf = os.path.join(d, "trace.ndjson")
        with open(tf, "w") as f:
            for t in traces[base:]:
                f.write("\n".join(t) + "\n")
        res = ctx.tlc(family, module, cfg, workers=1, timeout_s=timeout_s, extra_files=[tf])
        shutil.rmtree(d, ignore_errors=True)
        hw, total = _hwm(res)
        if hw >= total:
            for i in range(base, len(traces)):
                out[i] = None
            break
        # line hw+1 (1-based) is the first one nobody could consume
        n = 0
        bad = None
        for i in range(base, len(traces)):
            if n + len(traces[i]) > hw:
                bad = i
                break
            out[i] = None
            n += len(traces[i])
        off = hw - n
        out[bad] = (off, traces[bad][off])
        rejects += 1
        base = bad + 1
        if rejects >= max_rejects:
            for i in range(base, len(traces)):
                out[i] = "unvalidated"
            break
    return out


def classify(trace, off):
    """Structural class of the first event of `trace` (raw lines) the spec could not explain."""
    ev = json.loads(trace[off])
    op, ph = ev.get("op"), ev.get("ph")
    if op == "fetch" and ph == "end":
        d = ev.get("dir")
        if d == "":
            return "fetch-returned-empty-dir"
        reported = set()
        for line in trace[:off]:
            e = json.loads(line)
            if e.get("op") == "fc" and e.get("ph") == "gate":
                reported.add(e.get("dir"))
        if d not in reported:
            return "fetch-returned-unreported-dir"
        return "fetch-returned-dir-not-pending"
    if op == "quiesce" or (op == "fetch" and ph == "parked"):
        return "fetcher-blocked-with-pending-dir"
    return "%s-%s" % (op, ph)


def record_violation(ctx, sig, detail, inp, case):
    ctx.viol_count += 1
    if sig not in ctx.viol:
        ctx.viol[sig] = {"v": "viol", "sig": sig, "detail": detail, "input": inp, "case": case}


def judge_chunk(ctx, family, tmodule, design_cfg, contract_cfg, traces, metas, classify_fn, tag):
    """One batch: design spec first.  The first trace the design cannot explain is re-validated alone
    against the contract: rejected -> ("viol", ..) and the rest of the batch is left unvalidated (one
    violation decides the run); accepted -> ("drift", ..) and the rest of the batch is validated against
    the contract only (the design is known not to describe this tree)."""
    verdict = {}
    r = validate_chunk(ctx, family, tmodule, design_cfg, traces, tag + "d", max_rejects=1)
    bad = None
    for i in range(len(traces)):
        v = r.get(i)
        if v is None:
            verdict[i] = ("ok", None, None)
        elif v == "unvalidated":
            verdict[i] = ("unvalidated", None, None)
        else:
            bad = i
    if bad is None:
        return verdict
    off, line = r[bad]
    rc = validate_chunk(ctx, family, tmodule, contract_cfg, [traces[bad]], tag + "c", max_rejects=1)

    def viol(i, coff, cline):
        return ("viol", "trace:" + classify_fn(traces[i], coff),
                "trace (%s): first event the contract cannot explain is line %d: %s\n%s" % (
                    metas[i].get("src"), coff, cline, "\n".join(traces[i][max(0, coff - 30):coff + 1])))

    if rc[0] is not None:
        verdict[bad] = viol(bad, rc[0][0], rc[0][1])
        return verdict
    verdict[bad] = ("drift", "design:" + classify_fn(traces[bad], off),
                    "the design spec stops at line %d %s; the contract accepts the trace" % (off, line))
    rest = list(range(bad + 1, len(traces)))
    if rest:
        r2 = validate_chunk(ctx, family, tmodule, contract_cfg, [traces[i] for i in rest], tag + "r", max_rejects=1)
        for k, i in enumerate(rest):
            v = r2.get(k)
            if v is None:
                verdict[i] = ("ok-contract", None, None)
            elif v == "unvalidated":
                verdict[i] = ("unvalidated", None, None)
            else:
                verdict[i] = viol(i, v[0], v[1])
    return verdict


def judge_traces(ctx, family, tmodule, design_cfg, contract_cfg, traces, metas, classify_fn, parallel=6, tag="t"):
    """Contiguous batches validated concurrently (one TLC worker each). -> {i: (verdict, sig, detail)}"""
    if not traces:
        return {}
    k = max(1, min(parallel, len(traces)))
    size = (len(traces) + k - 1) // k
    starts = list(range(0, len(traces), size))
    result = {}
    lock = threading.Lock()
    errs = []

    def work(start):
        try:
            r = judge_chunk(ctx, family, tmodule, design_cfg, contract_cfg, traces[start:start + size],
                            metas[start:start + size], classify_fn, "%s%d" % (tag, start))
            with lock:
                for i, v in r.items():
                    result[start + i] = v
        except BaseException as e:  # noqa
            errs.append(e)

    with ThreadPoolExecutor(max_workers=k) as ex:
        list(ex.map(work, starts))
    if errs:
        raise errs[0]
    return result


# ----------------------------------------------------------------------------- the check
def cmd_key(rec):
    return json.dumps([x for x in rec["sched"] if x.get("k") != "obs"], sort_keys=True)


def run(ctx):
    quick = ctx.tier == "quick"
    cases = os.path.join(ctx.scratch, "replay-cases.ndjson")
    sim_cases = os.path.join(ctx.scratch, "replay-sim.ndjson")
    if ctx.replay:
        # a schedule of free-running goroutines cannot be re-executed exactly: --replay re-runs the seeded
        # campaign (same tier, same seed => same command sequences, same stress programs) against the
        # current tree, without the model-level part
        quick = (ctx.replay.get("tier") or ctx.tier) == "quick"
        ctx.seed = int(ctx.replay.get("seed") or ctx.seed)
    # 1. the design is right (model level) + behaviours to replay, concurrently
    def mc_safety():
        for cfg in (["Watcher_quick.cfg", "Watcher_quick_aux.cfg"] if quick else
                    ["Watcher_quick_aux.cfg", "Watcher_thorough.cfg", "Watcher_thorough3.cfg"]):
            ctx.tlc("conc", "Watcher", cfg, workers=3 if quick else 4, timeout_s=2400)

    def mc_live():
        ctx.tlc("conc", "Watcher", "Watcher_quick_live.cfg" if quick else "Watcher_thorough_live.cfg",
                workers=2, timeout_s=2400)

    def mc_replay():
        ctx.tlc("conc", "WatcherReplay", "WatcherReplay_quick.cfg", workers=2, cases_path=cases, timeout_s=1200)
        if not quick:
            ctx.tlc("conc", "WatcherReplay", "WatcherReplay_mid.cfg", workers=2, cases_path=cases, timeout_s=2400)
        ctx.tlc("conc", "WatcherReplay", "WatcherReplay_sim.cfg", workers=1, cases_path=sim_cases,
                simulate="num=%d" % (150 if quick else 2000), depth=400, seed=ctx.seed, timeout_s=1200)

    errs = []

    def guard(f):
        def g():
            try:
                f()
            except BaseException as e:  # noqa
                errs.append(e)
        return g

    if True:
        fs = (mc_safety, mc_live, mc_replay)
        if os.environ.get("VERIF_DEV_SKIP_MC") or ctx.replay:      # binding only (development aid / --replay)
            fs = (mc_replay,)
        ths = [threading.Thread(target=guard(f)) for f in fs]
        for t in ths:
            t.start()
        for t in ths:
            t.join()
        if errs:
            raise errs[0]

    # optional second hook (hooks/watcher-prelock.diff): used as a seeded yield before mutex.Lock when present
    tags = "verif"
    try:
        if "VerifPreLock" in open(os.path.join(core.REPO, "x", "watcher", "changes_verif.go")).read():
            tags = "verif,verifprelock"
    except OSError:
        pass
    ctx.extra["prelock_hook"] = tags != "verif"
    h = ctx.build_harness("conch", tags=tags)

    # 2. spec -> code: steer the model's behaviours into the real object
    results = []
    res_ex = ctx.run_harness(h, ["watcher-replay", "-runs", "3" if quick else "6", "-exhaustive", "1"], cases)
    tr_ex = split_traces(os.path.join(ctx.scratch, "wtraces-replay.ndjson"))
    os.rename(os.path.join(ctx.scratch, "wtraces-replay.ndjson"), os.path.join(ctx.scratch, "wtraces-replay-ex.ndjson"))
    res_sim = ctx.run_harness(h, ["watcher-replay", "-runs", "2", "-exhaustive", "0"], sim_cases)
    tr_sim = split_traces(os.path.join(ctx.scratch, "wtraces-replay.ndjson"))

    # 3. code -> spec: free-running histories
    res_st, tr_st = [], []
    if True:
        res_st = ctx.run_harness(h, ["watcher-stress", "-n", "300" if quick else "2500",
                                     "-shortbursts", "20" if quick else "150",
                                     "-bursts", "60" if quick else "400", "-burstlen", "1500" if quick else "3000"],
                                 None, timeout_s=2400)
        tr_st = split_traces(os.path.join(ctx.scratch, "wtraces-stress.ndjson"))

    traces, metas = [], []
    index = {}
    for src, res, trs in (("replay", res_ex, tr_ex), ("replay-sim", res_sim, tr_sim), ("stress", res_st, tr_st)):
        for r in res:
            if r.get("v") == "overload":
                raise core.Inconclusive("C40: " + r.get("detail", "overload"))
            if r.get("v") in ("trace", "cand"):
                index[(src, r["id"])] = len(traces)
                traces.append(trs[r["id"]])
                m = dict(r)
                m["src"] = src
                metas.append(m)
            elif r.get("v") == "summary":
                for k, v in r.items():
                    if k != "v":
                        ctx.extra[k] = ctx.extra.get(k, 0) + v
            else:
                results.append(r)
    ctx.log("steered runs: %d ok; traces to validate with TLC: %d (%d lines)" % (
        len(results), len(traces), sum(len(t) for t in traces)))

    verdict = judge_traces(ctx, "conc", "WatcherTrace", "WatcherTrace.cfg", "WatcherTraceContract.cfg",
                           traces, metas, classify, parallel=6)

    nval = {"stress": 0, "replay": 0, "replay-sim": 0}
    for i, m in enumerate(metas):
        v, sig, detail = verdict.get(i, ("unvalidated", None, None))
        src = m["src"]
        if m.get("v") == "cand":
            # the steered outcome is not among the model's outcomes for this command sequence
            if v == "viol":
                record_violation(ctx, sig, "steered replay: " + m.get("detail", "") + "\n" + detail,
                                 m.get("input"), {"mode": "replay", "line": traces[i]})
                ctx.evaluations += 1
                ctx.validated += 1
            elif v == "drift":
                results.append({"v": "drift", "sig": sig, "detail": m.get("detail", "") + " | " + detail, "nt": m.get("nt")})
            elif v in ("ok", "ok-contract"):
                # the steered observation is not one the model lists for this command prefix, yet the
                # recorded history is explained by the spec: model != code on something the property does
                # not pin (e.g. when exactly the wake-up is sent)
                if m.get("exhaustive"):
                    results.append({"v": "drift", "sig": m.get("sig"), "nt": m.get("nt"),
                                    "detail": str(m.get("detail", "")) + " | recorded history accepted by WatcherTrace"})
                else:
                    results.append({"v": "ok", "nt": m.get("nt"), "input": m.get("input"),
                                    "detail": "outcome outside the simulated sample, accepted by trace validation"})
            continue
        if v in ("ok", "ok-contract"):
            nval[src] += 1
            results.append({"v": "ok", "nt": m.get("nt"), "input": {"trace": src, "events": m.get("events")},
                            "detail": "trace accepted by WatcherTrace (%s)" % ("design" if v == "ok" else "contract only")})
        elif v == "drift":
            results.append({"v": "drift", "sig": sig, "detail": detail, "nt": m.get("nt")})
        elif v == "viol":
            record_violation(ctx, sig, detail, {"trace": src, "shape": m.get("nt")},
                             {"mode": "stress", "line": traces[i]})
            ctx.evaluations += 1
            ctx.validated += 1
        else:
            ctx.extra["traces_left_unvalidated_after_a_violation"] = ctx.extra.get("traces_left_unvalidated_after_a_violation", 0) + 1
    ctx.tally(results)
    ctx.extra["traces_accepted"] = nval
    ctx.exhaustive = False
    ctx.rule = ("(i) every steerable behaviour (command sequences fc/open-gate/fetch with all outcomes) of "
                "WatcherReplay_quick.cfg [2 producers x 1 report, 2 consumers x 1 fetch, 3 files / 2 dirs] "
                "(+ WatcherReplay_mid.cfg in the thorough tier) exhaustively, plus seeded -simulate behaviours of "
                "WatcherReplay_sim.cfg [2 producers x 3, 3 consumers x 3, aux, 5 files / 4 dirs], each command sequence "
                "steered 3-6 times into the real object; (ii) seeded free-running histories (1-3 producers, 1-4 "
                "consumers, 1-3 calls each, optional Ignore/EntryDeleted goroutine) and short bursts (1-2 producers x 6-12 "
                "back-to-back reports against one tight-loop consumer) validated by TLC; (iii) long bursts (60 quick / 400 "
                "thorough; 1-2 producers reporting 750-1500 / 1500-3000 distinct directories back-to-back against one "
                "tight-loop consumer) judged on the spot by the statement: nothing unreported, nothing twice, no \"\", and "
                "no consumer parked in cond.Wait with directories owed once every producer has returned; distinct = "
                "distinct command sequence / distinct (participants, calls, blocked-at-end) shape")
    ctx.assumptions += [
        "goroutine blocking is observed through runtime.Stack states (sync.Cond.Wait)",
        "p.changed is read by reflection only while every goroutine is parked, at the gate or idle; if the "
        "field disappears the comparison falls back to results and blocking status",
        "schedules of the real object are sampled (seeded), not enumerated; exhaustiveness is on the model",
        "a cap hit (2 s wake-up, 10 s settle) with load average above the core count is exit 2",
    ]
