"""C23 -- import sorting keeps the import set (ast/import.go SortImports via format.Source / format.Node).

Spec specs/syntax/ImportSort.tla: SortImports at the granularity of the code (loop over declarations,
split into runs, one sortSpecs call per run: sort by path/name/comment, drop a spec that equals its
successor in name and path and has no comment).  TLC enumerates every import block in the bound, checks
the statement on the model (import set kept up to exact duplicates, every group sorted by path; and the
finer facts: groups stay groups, commented specs survive, idempotence) and exports (block, expected
declarations/runs).  The harness (harness/cmd/misch importsort) renders each block as a complete file
in two layouts, formats it through format.Source and format.Node, re-parses, and judges the statement
on the real output; the model's exact prediction is compared for drift.
"""
import os

LEVEL = "model_checking"

# quick4: two declarations with up to 3 specs in total -- the smallest blocks in which a grouped declaration of
# two specs FOLLOWS (or precedes) an ungrouped one (quick1 splits at most 2 specs over two declarations)
QUICK = ["ImportSort_quick1.cfg", "ImportSort_quick2.cfg", "ImportSort_quick3.cfg", "ImportSort_quick4.cfg"]
THOROUGH = ["ImportSort_quick1.cfg", "ImportSort_thorough3.cfg", "ImportSort_thorough4.cfg", "ImportSort_thorough5.cfg"]


def run(ctx):
    cases = os.path.join(ctx.scratch, "cases.ndjson")
    if ctx.replay:
        open(cases, "w").write(ctx.replay["case_record"]["line"] + "\n")
    else:
        workers = min(8, int(os.environ.get("VERIF_TLC_WORKERS") or 8))
        for cfg in (QUICK if ctx.tier == "quick" else THOROUGH):
            ctx.tlc("syntax", "ImportSort", cfg, cases_path=cases, timeout_s=1800, workers=workers)
    h = ctx.build_harness("misch")
    res = ctx.run_harness(h, ["importsort"], cases, timeout_s=1800)
    ctx.tally(res, cases_path=cases)
    ctx.exhaustive = True
    ctx.rule = ("every import block of up to MaxSpecs specs over name {none, x, _, .} x path {a, b, a/b} x trailing "
                "comment? x blank-line-before?, as one grouped / one ungrouped declaration or split over two "
                "declarations (grouped or single ungrouped), per cfg; rendered in two layouts and formatted through "
                "format.Source and format.Node; distinct = the block itself (declaration shapes and spec sequence)")
    ctx.assumptions += [
        "paths and names come from a 3 / 4 element alphabet whose byte order is tabulated in the spec",
        "one comment text; comments are trailing line comments only (comment placement in general is C21)",
        "group membership is not pinned by the statement: an import moving to another group, or a duplicate removed "
        "across groups, is recorded as drift, not as a violation",
    ]
