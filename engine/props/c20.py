"""C20 -- formatting is idempotent (format.Source applied to its own output returns it unchanged).

Same model and harness as C19 (specs/fmt/Layout.tla, harness/cmd/fmth), with the LAYOUT dimension emphasised:
every single (and, on the pair shapes, every double) deviation from several base layouts -- line breaks
inside argument lists, composite literals, binary expressions, between declarations -- and comments between
declarations and inside expressions.  Oracle S: format(format(x)) == format(x) byte for byte.
"""
from . import fmt_common

LEVEL = "model_checking"


def run(ctx):
    fmt_common.run_prop(
        ctx, "c20",
        ["Layout_c20_quick_gap1.cfg", "Layout_c20_quick_gap2.cfg", "Layout_c20_quick_expr.cfg", "Layout_c20_quick_cm.cfg",
         "Layout_c20_quick_kv.cfg"],
        ["Layout_c20_thorough_gap1.cfg", "Layout_c20_thorough_gap2.cfg", "Layout_c20_thorough_expr.cfg",
         "Layout_c20_thorough_cm.cfg", "Layout_c20_quick_kv.cfg"])
    ctx.rule = ("every presentation of the cfg's trees: base layout in {canon, tight, wide, one-line, newline-wherever-legal} x every "
                "legal deviation of one (two) gaps to none / blank / newline / blank line x comment placements; "
                "distinct/non-trivial = distinct (tree, layout skeleton); plus every corpus file that parses (counted separately)")
    ctx.assumptions += ["an input whose first formatting is not a valid source is C19's failure and outside C20's domain (skipped)"]
