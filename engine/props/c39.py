"""C39 -- every JSON-RPC call completes exactly once with its own answer (x/jsonrpc2 Connection).

1. TLC checks the design spec specs/rpc/JsonRpcConn.tla exhaustively for small configurations
   (contract invariants + liveness under fairness).
2. The harness (harness/cmd/rpch) drives a real Connection through seeded concurrent scenarios
   (calls, notifications, scripted peer, handlers sync/err/async, Cancel, Close, hang-up, write
   faults) with the `verif` hooks recording one event per updateInFlight critical section.
3. TLC validates the recorded traces: against the CONTRACT spec (JsonRpcContract.tla: the property
   itself, evaluated at every event -> verdict) and against the DESIGN spec (JsonRpcTrace.tla:
   every critical section must be an action of JsonRpcConn with silent steps inferred -> drift,
   and every design invariant is evaluated on the reconstructed states).
"""
import json
import os
import shutil

from vlib import core, tlc as tlcmod

LEVEL = "model_checking"

SITE = {"Notify.func1": "NotifyDefer"}
INC_IDS = {"a", "b"}


def _id(s):
    if isinstance(s, str) and s.startswith("i:"):
        try:
            return int(s[2:])
        except ValueError:
            return -1
    return -1


def _sid(s):
    if s == "" or s is None:
        return "none"
    if isinstance(s, str) and s.startswith("s:"):
        return s[2:]
    return s


def normalize(res):
    """ScenarioResult -> list of trace records in the shape the TLA+ trace specs read."""
    out = []
    for e in res.get("events") or []:
        k = e["ev"]
        if k == "upd":
            st = e["st"]
            out.append({"ev": "upd", "site": SITE.get(e.get("site"), e.get("site")),
                        "cc": st["cc"], "rd": st["rd"], "re": st["re"], "we": st["we"], "co": st["co"],
                        "dn": st["dn"], "out": [_id(x) for x in st["out"]], "on": st["on"], "inc": st["inc"],
                        "by": [_sid(x) for x in st["by"]], "hq": [_sid(x) for x in st["hq"]], "hr": st["hr"],
                        "ret": [{"call": _id(r["call"]), "resp": _id(r["resp"]), "err": r["err"]}
                                for r in (e.get("retired") or [])]})
        elif k == "retire":
            r = (e.get("retired") or [{}])[0]
            out.append({"ev": "retire", "insec": bool(e.get("insec")), "call": _id(r.get("call")),
                        "resp": _id(r.get("resp")), "err": r.get("err", False)})
        elif k in ("wire_call", "peer_resp"):
            out.append({"ev": k, "call": e.get("call", 0)})
        elif k == "wire_notif":
            out.append({"ev": k})
        elif k == "wire_resp":
            out.append({"ev": k, "id": e.get("id") or "none", "inst": e.get("inst", 0)})
        elif k == "peer_send":
            out.append({"ev": k, "id": e.get("id") or "none", "inst": e.get("inst", 0)})
        elif k == "await_ret":
            out.append({"ev": k, "call": e.get("call", 0), "kind": e.get("kind"), "payload": e.get("payload", 0)})
        elif k in ("h_start", "h_end", "respond_start", "respond_end"):
            out.append({"ev": k, "inst": e.get("inst", 0), "mode": e.get("mode", "")})
        elif k in ("close_call", "close_ret"):
            out.append({"ev": k})
    return out


def write_batch(path, scenarios):
    """Concatenate scenarios with reset records; returns line index -> scenario number."""
    owner = []
    with open(path, "w") as f:
        first = True
        for sc in scenarios:
            if not first:
                f.write(json.dumps({"ev": "reset"}) + "\n")
                owner.append(sc["scenario"])
            first = False
            for rec in normalize(sc):
                f.write(json.dumps(rec) + "\n")
                owner.append(sc["scenario"])
    return owner


def validate(ctx, module, cfg, scenarios, workers=1, timeout_s=900, dfs=False):
    """Returns (accepted, hwm, nlines, violated_invariant, owner)."""
    d = tlcmod.mkscratch("rpctrace")
    try:
        tpath = os.path.join(d, "trace.ndjson")
        owner = write_batch(tpath, scenarios)
        r = tlcmod.run_tlc("rpc", module, cfg, workers=workers, timeout_s=timeout_s, extra_files=[tpath], dfs=dfs)
        hwm = None
        for line in r.log_tail.split("\n"):
            if line.startswith('<<"HWM"'):
                parts = line.strip("<>").split(",")
                hwm = int(parts[1])
        ctx.states += r.distinct
        ctx.transitions += r.generated
        if r.timeout:
            raise core.Inconclusive("trace validation timed out (%s)" % module)
        if hwm is None and not r.violated:
            raise core.Inconclusive("trace validation failed to run (%s):\n%s" % (module, r.log_tail[-3000:]))
        return (hwm == len(owner) + 1 and not r.violated), hwm, len(owner), r.violated, owner, r
    finally:
        shutil.rmtree(d, ignore_errors=True)


def _lines(scenarios):
    lines = []
    first = True
    for sc in scenarios:
        if not first:
            lines.append(({"ev": "reset"}, sc["scenario"]))
        first = False
        for rec in normalize(sc):
            lines.append((rec, sc["scenario"]))
    return lines


def contract_check(ctx, scenarios):
    """Linear validation against the contract spec; returns list of (invariant, scenario)."""
    bad = []
    todo = list(scenarios)
    while todo:
        d = tlcmod.mkscratch("rpccontract")
        try:
            tpath = os.path.join(d, "trace.ndjson")
            owner = write_batch(tpath, todo)
            r = tlcmod.run_tlc("rpc", "JsonRpcContract", "JsonRpcContract.cfg", workers=1, timeout_s=900,
                               extra_files=[tpath])
        finally:
            shutil.rmtree(d, ignore_errors=True)
        ctx.states += r.distinct
        ctx.transitions += r.generated
        if r.timeout:
            raise core.Inconclusive("contract validation timed out")
        if r.ok:
            if r.distinct < len(owner) + 1:
                raise core.Inconclusive("contract validation consumed %d of %d lines:\n%s" % (
                    r.distinct, len(owner), r.log_tail[-2000:]))
            break
        if not r.violated or not r.trace:
            raise core.Inconclusive("contract validation failed to run:\n%s" % r.log_tail[-3000:])
        lval = int(r.trace[-1][1].get("l", "0"))          # state after consuming line l-1
        sc_no = owner[lval - 2]
        bad.append((r.violated, sc_no, lval - 1 - owner.index(sc_no)))
        # continue behind the offending scenario
        idx = [k for k, sc in enumerate(todo) if sc["scenario"] == sc_no][0]
        todo = todo[idx + 1:]
    return bad



def crash_sig(stderr):
    i = stderr.find("panic: ")
    if i >= 0:
        frames = [l for l in stderr[i:].split("\n")[1:] if l and not l.startswith(("\t", "goroutine", "[signal"))]
        if frames and frames[0].startswith("main."):
            return "harness-panic"
        line = stderr[i:].split("\n")[0]
        for pat, sig in (("retire called twice", "internal-panic:retire-twice"),
                         ("non-idle when already done", "internal-panic:non-idle-when-done"),
                         ("incoming count is already zero", "internal-panic:incoming-underflow"),
                         ("close of closed channel", "internal-panic:double-close")):
            if pat in line:
                return sig
        return "internal-panic:other"
    if "fatal error:" in stderr:
        return "runtime-fatal"
    return "process-crash"


def replay_schedules(ctx, h, sched_lines, parallel=8):
    """Run `rpch replay-worker` over the schedules; a worker that dies is restarted behind the schedule
    that killed it.  Returns the list of replay results (dicts)."""
    import subprocess
    import concurrent.futures as cf
    env = core.goenv()
    chunks = [sched_lines[i::parallel] for i in range(parallel)]

    def work(k, lines):
        out = []
        base = k * 1000000
        pos = 0
        while pos < len(lines):
            p = subprocess.run([h, "replay-worker", str(base + pos)], input=("\n".join(lines[pos:]) + "\n").encode(),
                               stdout=subprocess.PIPE, stderr=subprocess.PIPE, env=env, timeout=3000)
            got = [json.loads(l) for l in p.stdout.decode(errors="replace").split("\n") if l.startswith("{")]
            out += got
            pos += len(got)
            if p.returncode == 0:
                break
            if pos < len(lines):
                sch = json.loads(lines[pos])
                names = ["%s(%s)" % (s_["a"], s_["arg"]) for s_ in sch["h"]]
                out.append({"scenario": base + pos, "outcome": "crash", "schedule": names, "events": [],
                            "violations": [{"sig": crash_sig(p.stderr.decode(errors="replace")),
                                            "detail": "worker died replaying the schedule: " + p.stderr.decode(errors="replace")[-1200:]}]})
                pos += 1
        return out

    with cf.ThreadPoolExecutor(max_workers=parallel) as ex:
        res = []
        for part in ex.map(lambda a: work(*a), list(enumerate(chunks))):
            res += part
    return res


def maximal_schedules(path):
    lines = [l for l in open(path).read().split("\n") if l]
    keys = []
    for l in lines:
        hh = json.loads(l)["h"]
        keys.append(tuple((s_["a"], json.dumps(s_["arg"])) for s_ in hh))
    pre = set()
    for k in keys:
        for n in range(1, len(k)):
            pre.add(k[:n])
    return [l for l, k in zip(lines, keys) if k not in pre], len(lines)


def run(ctx):
    import concurrent.futures as cf
    quick = ctx.tier == "quick"
    h = ctx.build_harness("rpch")
    nscen = 120 if quick else 1600
    if ctx.replay:
        nscen = 1
    out = os.path.join(ctx.scratch, "scenarios.ndjson")
    import subprocess
    env = core.goenv()
    with open(out, "wb") as f:
        if ctx.replay:
            sc0 = ctx.replay["case"]
            reps = []
            for k in range(40):
                p = subprocess.run([h, "worker", str(sc0["scenario"]), str(sc0["scenario"] + 1), str(sc0["base"])],
                                   stdout=subprocess.PIPE, stderr=subprocess.PIPE, env=env, timeout=600)
                f.write(p.stdout)
        else:
            p = subprocess.run([h, "run", str(nscen), str(ctx.seed), "8"], stdout=f, stderr=subprocess.PIPE,
                               env=env, timeout=1800)
            if p.returncode != 0:
                raise core.Inconclusive("rpch failed: " + p.stderr.decode()[-2000:])
    # gate walk: random scheduling at critical-section granularity (same trace format)
    gw = os.path.join(ctx.scratch, "gatewalk.ndjson")
    ngw = 0 if ctx.replay else (90 if quick else 1500)
    if ngw:
        with open(gw, "wb") as f:
            p = subprocess.run([h, "run", str(ngw), str(ctx.seed + 7919), "8"], stdout=f, stderr=subprocess.PIPE,
                               env=dict(env, RPCH_MODE="gatewalk"), timeout=3600)
            if p.returncode != 0:
                raise core.Inconclusive("rpch gatewalk failed: " + p.stderr.decode()[-2000:])
    scs = [json.loads(l) for l in open(out) if l.strip()]
    if ngw:
        for l in open(gw):
            if l.strip():
                sc = json.loads(l)
                sc["scenario"] += 1000000
                sc["gatewalk"] = True
                scs.append(sc)
    if ctx.replay:
        for k, sc in enumerate(scs):
            sc["scenario"] = k
    scs.sort(key=lambda r: r["scenario"])
    if not scs:
        raise core.Inconclusive("no scenarios executed")
    # a liveness cap hit while the machine is overloaded proves nothing: those scenarios' hang reports are
    # dropped (exit 2 at the end unless something else was found)
    overloaded = [sc["scenario"] for sc in scs if sc.get("overloaded")] if not os.environ.get("VERIF_IGNORE_LOAD") else []
    for sc in scs:
        if sc["scenario"] in overloaded:
            sc["violations"] = [v for v in sc.get("violations") or [] if not v["sig"].startswith(("hang:", "await-never"))]
    nev = sum(len(sc.get("events") or []) for sc in scs)
    ctx.log("executed %d scenarios, %d events" % (len(scs), nev))

    # 1. exhaustive model checking of the design (contract invariants + liveness) -- in the background
    cfgs = ["JsonRpcConn_quick.cfg"] if quick else ["JsonRpcConn_small.cfg", "JsonRpcConn_inc.cfg",
                                                     "JsonRpcConn_wfault.cfg", "JsonRpcConn_bogus.cfg"]
    if ctx.replay:
        cfgs = []
    pool = cf.ThreadPoolExecutor(max_workers=8)
    mc = [pool.submit(tlcmod.run_tlc, "rpc", "JsonRpcConn", cfg, workers=4, timeout_s=1500) for cfg in cfgs]
    sched_cfgs = ["JsonRpcSched_quick.cfg"] if quick else ["JsonRpcSched_quick.cfg", "JsonRpcSched_inc.cfg",
                                                            "JsonRpcSched_notif.cfg"]
    sched_futs = [] if ctx.replay else [
        (cfg, os.path.join(ctx.scratch, "sched-%d.ndjson" % k),
         pool.submit(tlcmod.run_tlc, "rpc", "JsonRpcSched", cfg, workers=4, timeout_s=2400,
                     cases_path=os.path.join(ctx.scratch, "sched-%d.ndjson" % k)))
        for k, cfg in enumerate(sched_cfgs)]

    # 2. harness-level observations (caps, crashes)
    good = []
    for sc in scs:
        case = {"scenario": sc["scenario"], "base": ctx.seed, "ops": sc.get("ops")}
        for v in sc.get("violations") or []:
            if v["sig"] == "harness-panic":
                raise core.Inconclusive("the scenario harness itself panicked: " + v["detail"][-1500:])
            ctx.add_violation(v["sig"], v["detail"] + " | ops=" + json.dumps(sc.get("ops")), case)
        if sc.get("events") and not any(v["sig"].startswith(("internal-panic", "process-crash", "runtime-fatal"))
                                        for v in sc.get("violations") or []):
            good.append(sc)

    # 3. contract validation (verdict)
    bad = contract_check(ctx, good)
    byno = {sc["scenario"]: sc for sc in good}
    for inv, sc_no, line in bad:
        sc = byno[sc_no]
        recs = normalize(sc)
        ctx.add_violation("contract:" + inv,
                          "trace of scenario %d violates %s at event %d: %s | ops=%s" % (
                              sc_no, inv, line, json.dumps(recs[max(0, line - 3):line + 1]), json.dumps(sc.get("ops"))),
                          {"scenario": sc_no, "base": ctx.seed, "ops": sc.get("ops")})
    badset = {b[1] for b in bad}

    # 4. design validation (drift + design invariants on reconstructed states), chunks in parallel
    rest = [sc for sc in good if sc["scenario"] not in badset]
    chunk = 60 if quick else 200
    chunks = [rest[i:i + chunk] for i in range(0, len(rest), chunk)]
    futs = [pool.submit(validate, ctx, "JsonRpcTrace", "JsonRpcTrace.cfg", ch, 1, 1500) for ch in chunks]
    accepted = 0
    for ch, fu in zip(chunks, futs):
        acc, hwm, n, viol, owner, r = fu.result()
        if acc:
            accepted += len(ch)
            continue
        # locate the scenario, re-validate the others one by one is too slow: walk forward
        todo = ch
        walks = 0
        while todo:
            walks += 1
            if walks > 3 or sum(ctx.drift.values()) >= 8:
                # drift is established; locating every further deviating scenario costs one TLC run each
                ctx.notes.append("design validation stopped early after repeated rejections (%d scenarios not examined)" % len(todo))
                break
            acc, hwm, n, viol, owner, r = validate(ctx, "JsonRpcTrace", "JsonRpcTrace.cfg", todo, 1, 1500)
            if acc:
                accepted += len(todo)
                break
            if viol and r.trace:
                lval = int(r.trace[-1][1].get("l", "1"))
                sc_no = owner[min(max(lval - 2, 0), len(owner) - 1)]
                sig = "design-invariant:" + viol
            else:
                sc_no = owner[min(hwm - 1, len(owner) - 1)]
                lines = _lines(todo)
                rec = lines[min(hwm - 1, len(lines) - 1)][0]
                sig = "design-trace-rejected:%s:%s" % (rec.get("ev"), rec.get("site", ""))
            sc = byno[sc_no]
            if viol in ("RetireAtMostOnce", "AtMostOneResponse", "DoneOnlyWhenIdle", "NoInternalPanic",
                        "NoHandlerAfterClose"):
                ctx.add_violation(sig, "scenario %d ops=%s" % (sc_no, json.dumps(sc.get("ops"))),
                                  {"scenario": sc_no, "base": ctx.seed, "ops": sc.get("ops")})
            else:
                ctx.drift[sig] = ctx.drift.get(sig, 0) + 1
                ctx.notes.append("DRIFT %s scenario %d ops=%s" % (sig, sc_no, json.dumps(sc.get("ops"))))
            idx = [k for k, s2 in enumerate(todo) if s2["scenario"] == sc_no][0]
            accepted += idx
            todo = todo[idx + 1:]
    # 5. schedule replay: behaviours of the design model stepped through the real Connection
    nrep = 0
    if sched_futs:
        import random
        rng = random.Random(ctx.seed)
        pick, total, nleaf = [], 0, 0
        for sched_cfg, sched_path, fu in sched_futs:
            r = fu.result()
            ctx.tlc_runs.append({"module": "JsonRpcSched", "cfg": sched_cfg, "generated": r.generated,
                                 "distinct": r.distinct, "cases": r.cases, "wall_s": round(r.wall, 1), "violated": r.violated})
            ctx.states += r.distinct
            ctx.transitions += r.generated
            ctx.log("TLC JsonRpcSched/%s: distinct=%d schedules=%d %.1fs ok=%s" % (sched_cfg, r.distinct, r.cases, r.wall, r.ok))
            if not r.ok:
                raise core.Inconclusive("schedule export failed (%s):\n%s" % (r.violated, r.log_tail[-3000:]))
            leaf, tot = maximal_schedules(sched_path)
            total += tot
            nleaf += len(leaf)
            cap = 400 if quick else 6000
            pick += leaf if len(leaf) <= cap else rng.sample(leaf, cap)
        leaf = range(nleaf)
        reps = replay_schedules(ctx, h, pick)
        nrep = len(reps)
        outc = {}
        rep_traces = []
        for rp in reps:
            o = rp.get("outcome", "?")
            cls = o.split(":")[0]
            outc[cls] = outc.get(cls, 0) + 1
            case = {"schedule": rp.get("schedule")}
            for v in rp.get("violations") or []:
                if v["sig"] == "harness-panic":
                    raise core.Inconclusive("the replay harness itself panicked: " + v["detail"][-1500:])
                if rp.get("overloaded") and v["sig"].startswith("hang:") and not os.environ.get("VERIF_IGNORE_LOAD"):
                    overloaded.append(rp.get("scenario"))
                    continue
                ctx.add_violation(v["sig"], v["detail"] + " | schedule=" + json.dumps(rp.get("schedule")), case)
            if cls in ("diverged", "mismatch"):
                sig = "replay-" + o
                ctx.drift[sig] = ctx.drift.get(sig, 0) + 1
                if ctx.drift[sig] == 1:
                    ctx.notes.append("DRIFT %s: %s | schedule=%s" % (sig, rp.get("detail"), json.dumps(rp.get("schedule"))))
            if rp.get("events") and not (rp.get("violations") or []):
                rep_traces.append(rp)
        ctx.extra["schedules_exported"] = total
        ctx.extra["schedules_maximal"] = len(leaf)
        ctx.extra["schedules_replayed"] = nrep
        ctx.extra["replay_outcomes"] = outc
        ctx.extra["replay_steps_compared"] = sum(rp.get("executed", 0) for rp in reps)
        ctx.log("replayed %d schedules: %s" % (nrep, outc))
        if outc.get("ok", 0) == 0:
            raise core.Inconclusive("no schedule could be replayed: %s" % outc)
        # the traces of the replays go through the contract spec too
        for k, rp in enumerate(rep_traces):
            rp["scenario"] = 10000000 + k
        bad2 = contract_check(ctx, rep_traces)
        byno2 = {rp["scenario"]: rp for rp in rep_traces}
        for inv, sc_no, line in bad2:
            rp = byno2[sc_no]
            ctx.add_violation("contract:" + inv, "replayed schedule violates %s at event %d | schedule=%s" % (
                inv, line, json.dumps(rp.get("schedule"))), {"schedule": rp.get("schedule")})
        if reps:
            ok1 = [rp for rp in reps if rp.get("outcome") == "ok"][:1]
            for rp in ok1:
                ctx.samples.append({"replayed_schedule": rp.get("schedule"), "steps_compared": rp.get("executed")})
    ctx.evaluations = len(scs) + nrep
    ctx.validated = len(good) + nrep
    for sc in good:
        ctx.nontrivial.add(json.dumps([o.split("(")[0].split("#")[0] for o in sc.get("ops") or []]))
    for sc in good[:3]:
        ctx.samples.append({"ops": sc.get("ops"), "events": len(sc.get("events") or []),
                            "first_events": normalize(sc)[:6]})
    ctx.extra["trace_events"] = nev
    ctx.extra["gatewalk_scenarios"] = ngw
    ctx.extra["design_traces_accepted"] = accepted
    ctx.extra["contract_traces_checked"] = len(good)

    for cfg, fu in zip(cfgs, mc):
        r = fu.result()
        ctx.tlc_runs.append({"module": "JsonRpcConn", "cfg": cfg, "generated": r.generated, "distinct": r.distinct,
                             "wall_s": round(r.wall, 1), "violated": r.violated})
        ctx.states += r.distinct
        ctx.transitions += r.generated
        ctx.log("TLC JsonRpcConn/%s: generated=%d distinct=%d %.1fs ok=%s" % (cfg, r.generated, r.distinct, r.wall, r.ok))
        if not r.ok:
            raise core.Inconclusive("design model check failed on %s (%s):\n%s" % (cfg, r.violated, r.log_tail[-3000:]))
    pool.shutdown()
    if overloaded and not ctx.viol:
        raise core.Inconclusive("liveness cap hit in scenarios %s while the machine was overloaded; verdict withheld" % overloaded[:5])
    ctx.rule = ("seeded concurrent scenarios (<=3 calls, <=2 notifications, <=3 peer requests with sync/err/async "
                "handlers, Cancel, Close, hang-up, write faults) against a real Connection; every scenario's event "
                "trace is validated by TLC against JsonRpcContract (verdict) and JsonRpcTrace/JsonRpcConn (design); "
                "distinct = distinct operation-kind sequence")
    ctx.assumptions += ["message-level transport and scripted peer in the harness (custom Framer); header framing is C38",
                        "liveness is observed with a 10 s cap (expected latency: microseconds); overload => exit 2",
                        "exhaustive TLC configurations: 2 calls, 1 notification, 1-2 peer requests (see tlc_runs)"]
