"""C31 -- TPL grammar text parses with the documented operator precedence (tpl/parser).

Spec specs/tpl/TplGrammar.tla (Spec): grammar expression trees, minimal-parenthesis printer `Pr`, the
documented recursive descent `ParseRule`; TLC proves RoundTrip / ParensMinimal / PrintParse / NoEmptyRule
for every tree in the bound and exports every printed text and every one-token mutation of it
(delete, double, drop a parenthesis pair) with the model parser's verdict (tree or error).  The
harness renders each token sequence in two layouts, runs the real parser.ParseFile and compares the
projected AST; a text outside the documented grammar must give an error.
"""
import os

LEVEL = "model_checking"


def run(ctx):
    cases = os.path.join(ctx.scratch, "cases.ndjson")
    if ctx.replay:
        open(cases, "w").write(ctx.replay["case_record"]["line"] + "\n")
    else:
        cfgs = ["TplGrammar_quick.cfg"] if ctx.tier == "quick" else ["TplGrammar_quick.cfg", "TplGrammar_thorough.cfg", "TplGrammar_thorough2.cfg"]
        for cfg in cfgs:
            ctx.tlc("tpl", "TplGrammar", cfg, cases_path=cases, timeout_s=1500, workers=8)
    h = ctx.build_harness("tplh")
    res = ctx.run_harness(h, ["parse"], cases)
    ctx.tally(res, cases_path=cases)
    ctx.exhaustive = True
    ctx.rule = ("every grammar expression tree up to the cfg's Depth over {atom, *x +x ?x, ++, %, 2/3-ary sequence, "
                "2/3-ary |} printed with minimal parentheses, plus every single-token deletion, every doubled "
                "operator/parenthesis and every dropped parenthesis pair of the printed text; distinct = distinct "
                "tree shape with atom names erased (valid texts) / distinct token-kind string (error texts)")
    ctx.assumptions += ["atoms are represented by identifiers a, b (thorough: also a string, a char and a raw-string literal)",
                        "layout: tokens separated by one blank, and the tightest spacing that keeps the tokens apart",
                        "the rule is parsed as `doc = <expr>` without a `=> {}` result rewriter"]
