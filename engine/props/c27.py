"""C27 -- grammar compilation never panics (tpl.New / tpl.NewEx / tpl/cl.NewEx).

Spec specs/tpl/TplGrammar.tla (SpecGen): token-level generator of grammar sources -- 1..2 rules, every
well-formed and malformed rule shape of <= 4 factors, every hole swept over all 256 byte values (as
'\\xNN', octal, "\\xNN" and raw byte), every spelling of the token table (double / single / back
quoted), keywords, token-class names, undefined names, rule references, empty strings, malformed
escapes.  The model classifies each source with the documented grammar (part 1's parser) and literal
rules; the harness compiles every source through tpl.New, tpl.NewEx and ParseFile+cl.NewEx under
recover.  Alarm iff a panic escapes; the model's verdict is compared for drift only.
"""
import os

LEVEL = "model_checking"


def run(ctx):
    cases = os.path.join(ctx.scratch, "cases.ndjson")
    if ctx.replay:
        open(cases, "w").write(ctx.replay["case_record"]["line"] + "\n")
    else:
        sfx = "quick" if ctx.tier == "quick" else "thorough"
        for cfg in ["TplGrammar_gen1_%s.cfg" % sfx, "TplGrammar_gen2_%s.cfg" % sfx]:
            ctx.tlc("tpl", "TplGrammar", cfg, cases_path=cases, timeout_s=2400, workers=8)
    h = ctx.build_harness("tplh")
    res = ctx.run_harness(h, ["compile"], cases)
    ctx.tally(res, cases_path=cases)
    ctx.exhaustive = True
    ctx.rule = ("every rule shape of TplGrammar.tla (34 bodies + 7 malformed heads; two-rule sources: 8x8 bodies x "
                "{new name, duplicate name}) with (i) all holes over the class pool and (ii) each hole swept over all "
                "atoms (256 byte values x 4 spellings, 55 token spellings x 3 quotings, names, malformed literals) "
                "while the others take representatives; distinct = distinct sequence of token/atom classes + verdict")
    ctx.assumptions += ["sources have at most 2 rules and 4 factors per source",
                        "tokens are separated by one blank, rules by a newline",
                        "cl.NewEx on the partial AST of a source the parser rejected is outside the statement (no source-level entry point does that): counted in the evidence, not judged"]
