"""C15 -- scanning is total and every token is the exact source text (scanner/scanner.go).

Spec specs/lex/Scanner.tla (dialect "xgo"): a character-level model of Scanner.Scan.  TLC enumerates
every string up to the cfg's length over eight alphabets (numeric x2, quoted, comments, operators x2,
class soup, semicolon rules), checks Progress / TokenBound / OffsetsMonotone / TextExact / Partition
on the model and exports (input, model token stream).  The harness replays every input through the
real scanner in both comment modes and evaluates the statement itself (oracle S); model != code
without a broken statement is DRIFT.
"""
import os

from vlib import core

LEVEL = "model_checking"

ALPHABETS = ["num1", "num2", "quoted", "cmt", "ops1", "ops2", "soup", "semis", "prefix"]
LEXEME_CFGS = ["div", "linedir"]   # lexeme-level cfgs (Scanner_quick_<name>.cfg), quick tier


def fold(ctx, res):
    """The harness replays every case but writes lines only for violations, drifts and samples;
    the totals arrive in one summary record."""
    summ = [r for r in res if r.get("v") == "summary"]
    if len(summ) != 1:
        raise core.Inconclusive("harness wrote %d summary records (expected 1): dead driver" % len(summ))
    s = summ[0]
    ok, skip, viol, drift = s["agg_ok"], s["agg_skip"], s["agg_viol"], s["agg_drift"]
    ctx.evaluations = ok + skip + viol + drift
    ctx.skipped = skip
    ctx.validated = ok + viol + drift
    ctx.viol_count = viol
    ctx.drift = dict(s.get("drift_signatures", {}))
    ctx.nontrivial = set(range(s.get("agg_nt", 0)))
    for k in ("agg_ok", "agg_skip", "agg_viol", "agg_drift", "agg_nt"):
        ctx.extra.pop(k, None)
    return s


def run(ctx):
    cases = os.path.join(ctx.scratch, "cases.ndjson")
    workers = int(os.environ.get("VERIF_TLC_WORKERS") or 8)
    if ctx.replay:
        open(cases, "w").write(ctx.replay["case_record"]["line"] + "\n")
    else:
        # liveness (Termination) + determinism of the machine on a small bound, all three dialects
        ctx.tlc("lex", "Scanner", "Scanner_live.cfg", cases_path=cases, timeout_s=3600, workers=workers)
        for a in ALPHABETS + LEXEME_CFGS:
            ctx.tlc("lex", "Scanner", "Scanner_quick_%s.cfg" % a, cases_path=cases, timeout_s=3600, workers=workers)
        if ctx.tier == "thorough":
            for a in ALPHABETS:
                ctx.tlc("lex", "Scanner", "Scanner_thorough_%s.cfg" % a, cases_path=cases, timeout_s=14400,
                        workers=workers)
            # TLC runs `num` traces per worker; a trace = one random string of 16..40 symbols, scanned to EOF
            n = int(os.environ.get("VERIF_LEX_SIM") or 1000)
            ctx.tlc("lex", "Scanner", "Scanner_sim.cfg", cases_path=cases, timeout_s=14400, workers=workers,
                    simulate="num=%d" % n, depth=400, seed=ctx.seed)
    h = ctx.build_harness("lexh")
    res = ctx.run_harness(h, ["c15"], cases, timeout_s=3600)
    ctx.tally(res, cases_path=cases)
    if not ctx.replay:
        fold(ctx, res)
    ctx.exhaustive = True
    ctx.rule = ("every byte string up to the per-alphabet length bound (quick 3-5, thorough 4-6) over 8 alphabets "
                "(numeric x2, quoted, comment/whitespace, operator x2, character-class soup incl. NUL/BOM/invalid "
                "UTF-8/non-ASCII letter and digit, semicolon rules), plus two lexeme-level cfgs (div: token, operator, operand with /* */ comments in between; linedir: line-directive comments), each replayed in both comment modes; thorough adds "
                "seeded TLC simulation of strings of 16..40 symbols over the union alphabet; distinct/non-trivial = distinct "
                "sequence of token kinds in the model's stream")
    ctx.assumptions += ["bytes >= 0x80 are represented by one letter, one digit, BOM and one invalid byte",
                        "exhaustive only up to the stated lengths; longer inputs are sampled (simulation)"]
