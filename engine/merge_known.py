#!/usr/bin/env python3
"""Compile known_findings.d/*.json (reviewed proposals) + fixed entries into known_findings.json."""
import json, os, sys
VERIF = os.path.dirname(os.path.dirname(os.path.abspath(__file__)))
d = os.path.join(VERIF, "known_findings.d")
out = []
accepted = {l.split()[0] for l in open(os.path.join(VERIF, "engine", "claimed.txt")) if l.strip() and not l.startswith("#")}
for f in sorted(os.listdir(d)):
    if f.endswith(".json") and f[:-5] in accepted:
        data = json.load(open(os.path.join(d, f)))
        if isinstance(data, dict):
            data = data.get("findings", [])
        out += data
json.dump({"comment": "committed; never written at run time. entries with \"fixed\": true suppress nothing.",
           "findings": out}, open(os.path.join(VERIF, "known_findings.json"), "w"), indent=1)
print(len(out), "entries")
